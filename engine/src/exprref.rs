//! Reference expression semantics (independent of svgdx): AST, f32 evaluator,
//! printer, and a recogniser for token strings of the documented grammar.

#[derive(Clone, Debug, PartialEq)]
pub enum Ast {
    Num(f32),
    /// variable name (without `$`); printed as `$name` or `${name}`
    Var(String, bool),
    Neg(Box<Ast>),
    Bin(&'static str, Box<Ast>, Box<Ast>),
    Call(String, Vec<Ast>),
    /// parenthesised list `(a, b, ...)` / top-level list
    List(Vec<Ast>),
}

#[derive(Clone, Debug, PartialEq)]
pub enum Val {
    N(f32),
    L(Vec<f32>),
}

pub fn level(op: &str) -> u8 {
    match op {
        "*" | "/" | "%" => 4,
        "+" | "-" => 3,
        "eq" | "ne" | "gt" | "ge" | "lt" | "le" => 2,
        "and" | "or" | "xor" => 1,
        _ => 0,
    }
}

pub const FIXED_ARITY: &[(&str, usize)] = &[
    ("abs", 1), ("ceil", 1), ("floor", 1), ("fract", 1), ("sign", 1), ("sqrt", 1), ("log", 1), ("exp", 1), ("pow", 2),
    ("sin", 1), ("cos", 1), ("tan", 1), ("asin", 1), ("acos", 1), ("atan", 1), ("clamp", 3), ("mix", 3), ("eq", 2), ("ne", 2),
    ("lt", 2), ("le", 2), ("gt", 2), ("ge", 2), ("if", 3), ("not", 1), ("and", 2), ("or", 2), ("xor", 2), ("divmod", 2),
    ("r2p", 2), ("p2r", 2), ("swap", 2), ("randint", 2), ("random", 0),
];
pub const VARIADIC: &[&str] = &["min", "max", "sum", "product", "mean", "addv", "subv", "scalev", "head", "tail", "empty", "count", "select", "in"];

pub fn known_function(name: &str) -> bool {
    FIXED_ARITY.iter().any(|f| f.0 == name) || VARIADIC.contains(&name) || ["split", "splitw", "trim", "join", "_"].contains(&name)
}

/// Err(reason) when evaluation is undefined (type error, arity, domain error defined as failure)
pub fn eval(a: &Ast, vars: &dyn Fn(&str) -> Option<Ast>, depth: usize) -> Result<Val, String> {
    if depth > 64 {
        return Err("circular variable".into());
    }
    let num = |v: Val| -> Result<f32, String> {
        match v {
            Val::N(x) => Ok(x),
            Val::L(l) if l.len() == 1 => Ok(l[0]),
            Val::L(_) => Err("domain: list where a number is required".into()),
        }
    };
    match a {
        Ast::Num(x) => Ok(Val::N(*x)),
        Ast::Var(n, _) => match vars(n) {
            Some(v) => eval(&v, vars, depth + 1),
            None => Err(format!("undefined variable {n}")),
        },
        Ast::Neg(x) => Ok(Val::N(-num(eval(x, vars, depth)?)?)),
        Ast::List(items) => {
            let mut out = Vec::new();
            for i in items {
                match eval(i, vars, depth)? {
                    Val::N(x) => out.push(x),
                    Val::L(l) => out.extend(l),
                }
            }
            Ok(Val::L(out))
        }
        Ast::Bin(op, l, r) => {
            let (x, y) = (num(eval(l, vars, depth)?)?, num(eval(r, vars, depth)?)?);
            let b = |v: bool| if v { 1. } else { 0. };
            Ok(Val::N(match *op {
                "+" => x + y,
                "-" => x - y,
                "*" => x * y,
                "/" => x / y,
                "%" => x.rem_euclid(y),
                "eq" => b(x == y),
                "ne" => b(x != y),
                "gt" => b(x > y),
                "ge" => b(x >= y),
                "lt" => b(x < y),
                "le" => b(x <= y),
                "and" => b(x != 0. && y != 0.),
                "or" => b(x != 0. || y != 0.),
                "xor" => b((x != 0.) != (y != 0.)),
                _ => return Err(format!("unknown operator {op}")),
            }))
        }
        Ast::Call(name, args) => {
            let mut flat: Vec<f32> = Vec::new();
            for i in args {
                match eval(i, vars, depth)? {
                    Val::N(x) => flat.push(x),
                    Val::L(l) => flat.extend(l),
                }
            }
            call(name, &flat)
        }
    }
}

pub fn call(name: &str, a: &[f32]) -> Result<Val, String> {
    if let Some((_, n)) = FIXED_ARITY.iter().find(|f| f.0 == name) {
        if a.len() != *n {
            return Err(format!("{name}: wrong arity {} (expected {n})", a.len()));
        }
    } else if !known_function(name) {
        return Err(format!("unknown function {name}"));
    }
    let b = |v: bool| if v { 1. } else { 0. };
    let n = |x: f32| Ok(Val::N(x));
    match name {
        "abs" => n(a[0].abs()),
        "ceil" => n(a[0].ceil()),
        "floor" => n(a[0].floor()),
        "fract" => n(a[0].fract()),
        "sign" => n(if a[0] == 0. { 0. } else if a[0] < 0. { -1. } else if a[0] > 0. { 1. } else { f32::NAN }),
        "sqrt" => n(a[0].sqrt()),
        "log" => n(a[0].ln()),
        "exp" => n(a[0].exp()),
        "pow" => n(a[0].powf(a[1])),
        "sin" => n(a[0].to_radians().sin()),
        "cos" => n(a[0].to_radians().cos()),
        "tan" => n(a[0].to_radians().tan()),
        "asin" => n(a[0].asin().to_degrees()),
        "acos" => n(a[0].acos().to_degrees()),
        "atan" => n(a[0].atan().to_degrees()),
        "min" | "max" => {
            if a.is_empty() {
                return Err("domain: min/max of nothing".into());
            }
            let mut m = a[0];
            for x in a {
                m = if name == "min" { m.min(*x) } else { m.max(*x) };
            }
            n(m)
        }
        "sum" => n(a.iter().sum()),
        "product" => n(a.iter().product()),
        "mean" => {
            if a.is_empty() {
                return Err("domain: mean of nothing".into());
            }
            n(a.iter().sum::<f32>() / a.len() as f32)
        }
        "clamp" => {
            if a[1] > a[2] {
                return Err("domain: clamp: min > max".into());
            }
            n(a[0].max(a[1]).min(a[2]))
        }
        "mix" => n(a[0] * (1. - a[2]) + a[1] * a[2]),
        "eq" => n(b(a[0] == a[1])),
        "ne" => n(b(a[0] != a[1])),
        "lt" => n(b(a[0] < a[1])),
        "le" => n(b(a[0] <= a[1])),
        "gt" => n(b(a[0] > a[1])),
        "ge" => n(b(a[0] >= a[1])),
        "if" => n(if a[0] != 0. { a[1] } else { a[2] }),
        "not" => n(b(a[0] == 0.)),
        "and" => n(b(a[0] != 0. && a[1] != 0.)),
        "or" => n(b(a[0] != 0. || a[1] != 0.)),
        "xor" => n(b((a[0] != 0.) != (a[1] != 0.))),
        "divmod" => Ok(Val::L(vec![a[0].div_euclid(a[1]), a[0].rem_euclid(a[1])])),
        "swap" => Ok(Val::L(vec![a[1], a[0]])),
        "r2p" => Ok(Val::L(vec![a[0].hypot(a[1]), a[1].atan2(a[0]).to_degrees()])),
        "p2r" => Ok(Val::L(vec![a[0] * a[1].to_radians().cos(), a[0] * a[1].to_radians().sin()])),
        "addv" | "subv" => {
            if a.len() % 2 != 0 {
                return Err("domain: odd vector".into());
            }
            let h = a.len() / 2;
            Ok(Val::L((0..h).map(|i| if name == "addv" { a[i] + a[i + h] } else { a[i] - a[i + h] }).collect()))
        }
        "scalev" => {
            if a.len() < 2 {
                return Err("domain: scalev arity".into());
            }
            Ok(Val::L(a[1..].iter().map(|x| a[0] * x).collect()))
        }
        "head" => Ok(if a.is_empty() { Val::L(vec![]) } else { Val::N(a[0]) }),
        "tail" => Ok(Val::L(if a.len() < 2 { vec![] } else { a[1..].to_vec() })),
        "empty" => n(b(a.is_empty())),
        "count" => n(a.len() as f32),
        "select" => {
            if a.len() < 2 {
                return Err("domain: select arity".into());
            }
            let i = a[0];
            if i < 0. || (i as usize) >= a.len() - 1 {
                return Err("domain: select out of range".into());
            }
            n(a[1 + i as usize])
        }
        "in" => {
            if a.is_empty() {
                return Err("domain: in arity".into());
            }
            n(b(a[1..].contains(&a[0])))
        }
        _ => Err(format!("domain: {name}: not modelled")),
    }
}

/// Print with minimal or full parentheses.
pub fn print(a: &Ast, full: bool, spaces: bool) -> String {
    fn go(a: &Ast, full: bool, sp: bool, parent: u8, right: bool) -> String {
        match a {
            Ast::Num(x) => {
                if *x < 0. {
                    // a negative literal is spelled as a unary minus
                    format!("-{}", fmt(-*x))
                } else {
                    fmt(*x)
                }
            }
            Ast::Var(n, braces) => {
                if *braces {
                    format!("${{{n}}}")
                } else {
                    format!("${n}")
                }
            }
            Ast::Neg(x) => match **x {
                Ast::Num(_) | Ast::Var(..) | Ast::Call(..) | Ast::Neg(_) => format!("-{}", go(x, full, sp, 9, false)),
                _ => format!("-({})", go(x, full, sp, 0, false)),
            },
            Ast::Bin(op, l, r) => {
                let lv = level(op);
                // comparisons do not chain: both operands of a comparison are parenthesised when they
                // are themselves comparisons
                let s = if sp || lv <= 2 { " " } else { "" };
                let body = format!("{}{s}{op}{s}{}", go(l, full, sp, lv, false), go(r, full, sp, lv, true));
                let need = full || lv < parent || (lv == parent && (right || lv == 2));
                if need && parent != 0 {
                    format!("({body})")
                } else {
                    body
                }
            }
            Ast::Call(n, args) => format!("{n}({})", args.iter().map(|x| go(x, full, sp, 0, false)).collect::<Vec<_>>().join(if sp { ", " } else { "," })),
            Ast::List(items) => format!("({})", items.iter().map(|x| go(x, full, sp, 0, false)).collect::<Vec<_>>().join(", ")),
        }
    }
    go(a, full, spaces, 0, false)
}

pub fn fmt(x: f32) -> String {
    if x == x.trunc() && x.abs() < 1e7 {
        format!("{}", x as i64)
    } else {
        format!("{x}")
    }
}

// ------------------------------------------------------------------ recogniser over token strings

#[derive(Clone, Debug, PartialEq)]
pub enum Verdict {
    /// well-formed by the documented grammar; AST to evaluate
    Accept(Ast),
    /// malformed in one of the ways the property names; must be rejected
    Malformed(&'static str),
    /// outside what the statement defines (empty parentheses, chained comparisons, lists in arithmetic, ...)
    Unspecified(&'static str),
}

pub struct Parser<'a> {
    toks: &'a [&'a str],
    pos: usize,
    unspecified: Option<&'static str>,
    malformed: Option<&'static str>,
}

fn is_number(t: &str) -> bool {
    t.parse::<f32>().is_ok() && t.chars().next().map(|c| c.is_ascii_digit() || c == '.').unwrap_or(false)
}
fn is_ident(t: &str) -> bool {
    t.chars().next().map(|c| c.is_ascii_alphabetic() || c == '_').unwrap_or(false) && t.chars().all(|c| c.is_ascii_alphanumeric() || c == '_')
}
const CMP: &[&str] = &["eq", "ne", "gt", "ge", "lt", "le"];
const LOGIC: &[&str] = &["and", "or", "xor"];

impl<'a> Parser<'a> {
    fn peek(&self) -> Option<&'a str> {
        self.toks.get(self.pos).copied()
    }
    fn bad<T>(&mut self, why: &'static str) -> Option<T> {
        if self.malformed.is_none() && self.unspecified.is_none() {
            self.malformed = Some(why);
        }
        None
    }
    fn list(&mut self) -> Option<Vec<Ast>> {
        let mut v = vec![self.logical()?];
        while self.peek() == Some(",") {
            self.pos += 1;
            v.push(self.logical()?);
        }
        Some(v)
    }
    fn logical(&mut self) -> Option<Ast> {
        let mut l = self.comparison()?;
        while let Some(t) = self.peek() {
            if let Some(op) = LOGIC.iter().find(|o| **o == t) {
                self.pos += 1;
                let r = self.comparison()?;
                l = Ast::Bin(op, Box::new(l), Box::new(r));
            } else {
                break;
            }
        }
        Some(l)
    }
    fn comparison(&mut self) -> Option<Ast> {
        let l = self.term()?;
        if let Some(t) = self.peek() {
            if let Some(op) = CMP.iter().find(|o| **o == t) {
                self.pos += 1;
                let r = self.term()?;
                if let Some(t2) = self.peek() {
                    if CMP.contains(&t2) {
                        self.unspecified = Some("chained comparison");
                        return None;
                    }
                }
                return Some(Ast::Bin(op, Box::new(l), Box::new(r)));
            }
        }
        Some(l)
    }
    fn term(&mut self) -> Option<Ast> {
        let mut l = self.factor()?;
        while let Some(t) = self.peek() {
            if t == "+" || t == "-" {
                self.pos += 1;
                let r = self.factor()?;
                l = Ast::Bin(if t == "+" { "+" } else { "-" }, Box::new(l), Box::new(r));
            } else {
                break;
            }
        }
        Some(l)
    }
    fn factor(&mut self) -> Option<Ast> {
        let mut l = self.primary()?;
        while let Some(t) = self.peek() {
            let op = match t {
                "*" => "*",
                "/" => "/",
                "%" => "%",
                _ => break,
            };
            self.pos += 1;
            let r = self.primary()?;
            l = Ast::Bin(op, Box::new(l), Box::new(r));
        }
        Some(l)
    }
    fn primary(&mut self) -> Option<Ast> {
        let t = match self.peek() {
            Some(t) => t,
            None => return self.bad("dangling operator / unexpected end"),
        };
        self.pos += 1;
        if is_number(t) {
            return Some(Ast::Num(t.parse().unwrap()));
        }
        if let Some(v) = t.strip_prefix('$') {
            let (name, braces) = match v.strip_prefix('{').and_then(|x| x.strip_suffix('}')) {
                Some(n) => (n, true),
                None => (v, false),
            };
            return Some(Ast::Var(name.to_string(), braces));
        }
        match t {
            "(" => {
                if self.peek() == Some(")") {
                    self.unspecified = Some("empty parentheses");
                    return None;
                }
                let l = self.list()?;
                if self.peek() != Some(")") {
                    return self.bad("unbalanced parentheses");
                }
                self.pos += 1;
                Some(if l.len() == 1 { l.into_iter().next().unwrap() } else { Ast::List(l) })
            }
            "-" => Some(Ast::Neg(Box::new(self.primary()?))),
            ")" => self.bad("unbalanced parentheses"),
            "+" | "*" | "/" | "%" | "," => self.bad("dangling operator / unexpected end"),
            t if CMP.contains(&t) || LOGIC.contains(&t) => {
                // word operators double as function names: `lt(1,2)`
                if self.peek() == Some("(") {
                    self.call(t)
                } else {
                    self.bad("dangling operator / unexpected end")
                }
            }
            t if is_ident(t) => {
                if self.peek() != Some("(") {
                    self.unspecified = Some("bare identifier");
                    return None;
                }
                self.call(t)
            }
            _ => {
                self.unspecified = Some("unknown token");
                None
            }
        }
    }
    fn call(&mut self, name: &str) -> Option<Ast> {
        self.pos += 1; // '('
        let args = if self.peek() == Some(")") { vec![] } else { self.list()? };
        if self.peek() != Some(")") {
            return self.bad("unbalanced parentheses");
        }
        self.pos += 1;
        if !known_function(name) {
            return self.bad("unknown function");
        }
        Some(Ast::Call(name.to_string(), args))
    }
}

pub fn recognise(toks: &[&str]) -> Verdict {
    if toks.is_empty() {
        return Verdict::Unspecified("empty expression");
    }
    let mut p = Parser { toks, pos: 0, unspecified: None, malformed: None };
    let r = p.list();
    if let Some(u) = p.unspecified {
        return Verdict::Unspecified(u);
    }
    match r {
        None => Verdict::Malformed(p.malformed.unwrap_or("malformed")),
        Some(l) => {
            if p.pos != toks.len() {
                // leftover tokens
                let t = toks[p.pos];
                if t == ")" {
                    Verdict::Malformed("unbalanced parentheses")
                } else if CMP.contains(&t) {
                    Verdict::Unspecified("chained comparison")
                } else {
                    Verdict::Unspecified("juxtaposed operands")
                }
            } else if l.len() == 1 {
                Verdict::Accept(l.into_iter().next().unwrap())
            } else {
                Verdict::Accept(Ast::List(l))
            }
        }
    }
}
