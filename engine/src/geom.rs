//! Reference geometry (f64): bounding boxes, locations, scalars, and reading the
//! native geometry of output elements.  Independent of svgdx's own code.

use crate::xmlref::Element;

#[derive(Clone, Copy, Debug, PartialEq)]
pub struct BBox {
    pub x1: f64,
    pub y1: f64,
    pub x2: f64,
    pub y2: f64,
}

impl BBox {
    pub fn new(x1: f64, y1: f64, x2: f64, y2: f64) -> Self {
        BBox { x1, y1, x2, y2 }
    }
    pub fn xywh(x: f64, y: f64, w: f64, h: f64) -> Self {
        BBox { x1: x, y1: y, x2: x + w, y2: y + h }
    }
    pub fn w(&self) -> f64 {
        self.x2 - self.x1
    }
    pub fn h(&self) -> f64 {
        self.y2 - self.y1
    }
    pub fn cx(&self) -> f64 {
        (self.x1 + self.x2) / 2.
    }
    pub fn cy(&self) -> f64 {
        (self.y1 + self.y2) / 2.
    }
    pub fn union(&self, o: &BBox) -> BBox {
        BBox::new(self.x1.min(o.x1), self.y1.min(o.y1), self.x2.max(o.x2), self.y2.max(o.y2))
    }
    pub fn intersect(&self, o: &BBox) -> Option<BBox> {
        let r = BBox::new(self.x1.max(o.x1), self.y1.max(o.y1), self.x2.min(o.x2), self.y2.min(o.y2));
        if r.w() >= 0. && r.h() >= 0. {
            Some(r)
        } else {
            None
        }
    }
    pub fn translate(&self, dx: f64, dy: f64) -> BBox {
        BBox::new(self.x1 + dx, self.y1 + dy, self.x2 + dx, self.y2 + dy)
    }
    pub fn contains(&self, o: &BBox, tol: f64) -> bool {
        self.x1 <= o.x1 + tol && self.y1 <= o.y1 + tol && self.x2 >= o.x2 - tol && self.y2 >= o.y2 - tol
    }
    pub fn approx_eq(&self, o: &BBox, tol: f64) -> bool {
        (self.x1 - o.x1).abs() <= tol && (self.y1 - o.y1).abs() <= tol && (self.x2 - o.x2).abs() <= tol && (self.y2 - o.y2).abs() <= tol
    }
    /// offset along an edge: percent of the edge from its start, positive absolute from the start,
    /// negative absolute backwards from the end (layout.md)
    fn edge(len: &str, s: f64, e: f64) -> Option<f64> {
        if let Some(p) = len.strip_suffix('%') {
            Some(s + (e - s) * p.trim().parse::<f64>().ok()? / 100.)
        } else {
            let a: f64 = len.trim().parse().ok()?;
            Some(if a < 0. { e + a } else { s + a })
        }
    }
    /// the point denoted by a locspec (nine names, or edge:offset)
    pub fn loc(&self, loc: &str) -> Option<(f64, f64)> {
        Some(match loc {
            "tl" => (self.x1, self.y1),
            "t" => (self.cx(), self.y1),
            "tr" => (self.x2, self.y1),
            "r" => (self.x2, self.cy()),
            "br" => (self.x2, self.y2),
            "b" => (self.cx(), self.y2),
            "bl" => (self.x1, self.y2),
            "l" => (self.x1, self.cy()),
            "c" => (self.cx(), self.cy()),
            s => {
                let (e, len) = s.split_once(':')?;
                match e {
                    "t" => (Self::edge(len, self.x1, self.x2)?, self.y1),
                    "b" => (Self::edge(len, self.x1, self.x2)?, self.y2),
                    "l" => (self.x1, Self::edge(len, self.y1, self.y2)?),
                    "r" => (self.x2, Self::edge(len, self.y1, self.y2)?),
                    _ => return None,
                }
            }
        })
    }
    /// scalar reference `~name`
    pub fn scalar(&self, name: &str) -> Option<f64> {
        Some(match name {
            "x" | "x1" => self.x1,
            "y" | "y1" => self.y1,
            "x2" => self.x2,
            "y2" => self.y2,
            "cx" => self.cx(),
            "cy" => self.cy(),
            "w" | "width" => self.w().abs(),
            "h" | "height" => self.h().abs(),
            "rx" => self.w().abs() / 2.,
            "ry" => self.h().abs() / 2.,
            "r" => (self.w().abs() / 2.).max(self.h().abs() / 2.),
            _ => return None,
        })
    }
}

fn num(e: &Element, k: &str) -> Option<f64> {
    e.attr(k).and_then(|s| s.trim().parse::<f64>().ok())
}

fn num0(e: &Element, k: &str) -> Option<f64> {
    match e.attr(k) {
        None => Some(0.),
        Some(s) => s.trim().parse::<f64>().ok(),
    }
}

/// numbers in a points / simple path string
pub fn numbers(s: &str) -> Vec<f64> {
    s.split(|c: char| c == ',' || c.is_whitespace())
        .filter(|t| !t.is_empty())
        .filter_map(|t| t.parse::<f64>().ok())
        .collect()
}

/// Bounding box described by the NATIVE attributes of an output element (no transform applied).
pub fn native_bbox(e: &Element) -> Option<BBox> {
    match e.name.as_str() {
        "rect" | "image" | "foreignObject" | "svg" | "use" => {
            let (x, y) = (num0(e, "x")?, num0(e, "y")?);
            let (w, h) = (num(e, "width")?, num(e, "height")?);
            Some(BBox::xywh(x, y, w, h))
        }
        "circle" => {
            let (cx, cy, r) = (num0(e, "cx")?, num0(e, "cy")?, num(e, "r")?);
            Some(BBox::new(cx - r, cy - r, cx + r, cy + r))
        }
        "ellipse" => {
            let (cx, cy, rx, ry) = (num0(e, "cx")?, num0(e, "cy")?, num(e, "rx")?, num(e, "ry")?);
            Some(BBox::new(cx - rx, cy - ry, cx + rx, cy + ry))
        }
        "line" => {
            let (x1, y1, x2, y2) = (num0(e, "x1")?, num0(e, "y1")?, num0(e, "x2")?, num0(e, "y2")?);
            Some(BBox::new(x1.min(x2), y1.min(y2), x1.max(x2), y1.max(y2)))
        }
        "polyline" | "polygon" => {
            let n = numbers(e.attr("points")?);
            if n.len() < 2 {
                return None;
            }
            let xs: Vec<f64> = n.iter().step_by(2).cloned().collect();
            let ys: Vec<f64> = n.iter().skip(1).step_by(2).cloned().collect();
            if ys.is_empty() {
                return None;
            }
            Some(BBox::new(
                xs.iter().cloned().fold(f64::MAX, f64::min),
                ys.iter().cloned().fold(f64::MAX, f64::min),
                xs.iter().cloned().fold(f64::MIN, f64::max),
                ys.iter().cloned().fold(f64::MIN, f64::max),
            ))
        }
        "text" => {
            let (x, y) = (num0(e, "x")?, num0(e, "y")?);
            Some(BBox::new(x, y, x, y))
        }
        _ => None,
    }
}

/// (x1,y1,x2,y2) of a line element in its own direction
pub fn line_ends(e: &Element) -> Option<((f64, f64), (f64, f64))> {
    Some(((num0(e, "x1")?, num0(e, "y1")?), (num0(e, "x2")?, num0(e, "y2")?)))
}

/// points of a polyline
pub fn points(e: &Element) -> Option<Vec<(f64, f64)>> {
    let n = numbers(e.attr("points")?);
    if n.len() % 2 != 0 {
        return None;
    }
    Some(n.chunks(2).map(|c| (c[0], c[1])).collect())
}
