//! C16 — Loops and conditionals render exactly what their unrolling renders.
//!
//! Translation validation decided by exhaustive enumeration: every program of a
//! bounded grammar is paired with its mechanically unrolled twin (N copies of the
//! body preceded by the <var> assignment the loop performs; <if> kept or
//! dropped); both are run through the real transform and must produce the same
//! element sequence and root extent.

use crate::common::*;
use crate::xmlref::{self, Ev, Mode};
use serde_json::{json, Value};

#[derive(Clone, Debug)]
enum Form {
    Count { n: u32, var: Option<(Option<f64>, Option<f64>)> },
    While { bound: i64 },
    Until { bound: i64 },
    For { data: usize, idx: bool },
    If { test: usize },
}

const FOR_DATA: &[(&str, &[&str])] = &[
    ("1, 2.5, -3", &["1", "2.5", "-3"]),
    ("$lst", &["4", "5"]),
    ("8", &["8"]),
    ("'p', 'q'", &["p", "q"]),
];
/// (source, evaluator over k)
const IF_TESTS: &[&str] = &["0", "1", "{{gt($k, 0)}}", "{{lt($k, 2) and 1}}"];

#[derive(Clone, Debug)]
enum Item {
    RelPrev,     // <rect xy="^|h 1" wh="2"/>
    UseVar,      // <rect xy="{{$i * 3}} 10" wh="2"/>
    IdVar,       // <rect id="n$i" xy="$i 20" wh="1"/>
    Text,        // <text xy="0 {{$i * 2}}" text="t$i"/>
    Acc,         // <var acc="{{$acc + $i}}"/>
    Group,       // <g q="$i"><rect xy="^|v" wh="{{$q + 4}}"/></g>
    NestedLoop,  // <loop count="2" loop-var="j"><rect xy="{{$i + $j}} 30" wh="1"/></loop>
    NestedIf,    // <if test="{{gt($i, 0)}}"><rect xy="^|h" wh="1"/></if>
}
const ITEMS: &[Item] = &[Item::RelPrev, Item::UseVar, Item::IdVar, Item::Text, Item::Acc, Item::Group, Item::NestedLoop, Item::NestedIf];

fn item_src(it: &Item) -> &'static str {
    match it {
        Item::RelPrev => r#"<rect xy="^|h 1" wh="2"/>"#,
        Item::UseVar => r#"<rect xy="{{$i * 3}} 10" wh="2"/>"#,
        Item::IdVar => r#"<rect id="n$i" xy="$i 20" wh="1"/>"#,
        Item::Text => r#"<text xy="0 {{$i * 2}}" text="t$i"/>"#,
        Item::Acc => r#"<var acc="{{$acc + $i}}"/>"#,
        Item::Group => r#"<g q="$i"><rect xy="^|v" wh="{{$q + 4}}"/></g>"#,
        Item::NestedLoop => r#"<loop count="2" loop-var="j"><rect xy="{{$i + $j}} 30" wh="1"/></loop>"#,
        Item::NestedIf => r#"<if test="{{gt($i, 0)}}"><rect xy="^|h" wh="1"/></if>"#,
    }
}

fn f64s(x: f64) -> String {
    // the loop variable is an f64 printed with to_string(); dyadic values make this exact
    format!("{x}")
}

#[derive(Clone, Debug)]
struct Program {
    form: Form,
    body: Vec<usize>,
    /// 0: directly in <svg>; 1: inside <g>; 2: the same construct twice in a row
    wrap: usize,
}

const PRE: &str = r#"<var i="7" k="0" acc="0" lst="4, 5"/><rect id="base" xy="0 0" wh="4"/>"#;
const POST: &str = r#"<text xy="0 50" text="after i=$i k=$k acc=$acc j=$j"/><rect xy="^|h 2" wh="3"/>"#;

fn open_tag(f: &Form) -> String {
    match f {
        Form::Count { n, var } => {
            let mut s = format!("<loop count=\"{n}\"");
            if let Some((start, step)) = var {
                s.push_str(" loop-var=\"i\"");
                if let Some(st) = start {
                    s.push_str(&format!(" start=\"{}\"", f64s(*st)));
                }
                if let Some(st) = step {
                    s.push_str(&format!(" step=\"{}\"", f64s(*st)));
                }
            }
            s.push('>');
            s
        }
        Form::While { bound } => format!("<loop while=\"lt($k, {bound})\"><var k=\"{{{{$k + 1}}}}\"/>"),
        Form::Until { bound } => format!("<loop until=\"ge($k, {bound})\"><var k=\"{{{{$k + 1}}}}\"/>"),
        Form::For { data, idx } => format!("<for var=\"i\" data=\"{}\"{}>", FOR_DATA[*data].0, if *idx { " idx-var=\"x\"" } else { "" }),
        Form::If { test } => format!("<if test=\"{}\">", IF_TESTS[*test]),
    }
}

fn close_tag(f: &Form) -> &'static str {
    match f {
        Form::Count { .. } | Form::While { .. } | Form::Until { .. } => "</loop>",
        Form::For { .. } => "</for>",
        Form::If { .. } => "</if>",
    }
}

fn original(p: &Program) -> String {
    let body: String = p.body.iter().map(|i| item_src(&ITEMS[*i])).collect();
    let one = format!("{}{}{}", open_tag(&p.form), body, close_tag(&p.form));
    let inner = match p.wrap {
        1 => format!("<g id=\"w\">{one}</g>"),
        2 => format!("{one}{one}"),
        _ => one,
    };
    format!("<svg>{PRE}{inner}{POST}</svg>")
}

/// Mechanical unrolling; `k` is the generator's own model of the counter variable and `ival` of
/// the loop variable (None = not numeric / unknown, in which case nested <if> is left as written).
struct Unroller {
    k: i64,
    ival: Option<f64>,
    out: String,
}

impl Unroller {
    fn body(&mut self, body: &[usize]) {
        for b in body {
            match &ITEMS[*b] {
                Item::NestedLoop => {
                    for j in 0..2 {
                        self.out.push_str(&format!("<var j=\"{j}\"/>"));
                        self.out.push_str(r#"<rect xy="{{$i + $j}} 30" wh="1"/>"#);
                    }
                }
                Item::NestedIf => match self.ival {
                    Some(v) => {
                        if v > 0. {
                            self.out.push_str(r#"<rect xy="^|h" wh="1"/>"#);
                        }
                    }
                    None => self.out.push_str(item_src(&Item::NestedIf)),
                },
                it => self.out.push_str(item_src(it)),
            }
        }
    }
    fn construct(&mut self, f: &Form, body: &[usize]) {
        match f {
            Form::Count { n, var } => {
                let (start, step) = match var {
                    Some((s, t)) => (s.unwrap_or(0.), t.unwrap_or(1.)),
                    None => (0., 1.),
                };
                let mut v = start;
                for _ in 0..*n {
                    if var.is_some() {
                        self.out.push_str(&format!("<var i=\"{}\"/>", f64s(v)));
                        self.ival = Some(v);
                    }
                    self.body(body);
                    v += step;
                }
            }
            Form::While { bound } => {
                while self.k < *bound {
                    self.out.push_str("<var k=\"{{$k + 1}}\"/>");
                    self.k += 1;
                    self.body(body);
                }
            }
            Form::Until { bound } => loop {
                self.out.push_str("<var k=\"{{$k + 1}}\"/>");
                self.k += 1;
                self.body(body);
                if self.k >= *bound {
                    break;
                }
            },
            Form::For { data, idx } => {
                for (n, item) in FOR_DATA[*data].1.iter().enumerate() {
                    self.out.push_str(&format!("<var i=\"{item}\"/>"));
                    if *idx {
                        self.out.push_str(&format!("<var x=\"{n}\"/>"));
                    }
                    self.ival = item.parse::<f64>().ok();
                    self.body(body);
                }
            }
            Form::If { test } => {
                let yes = match *test {
                    0 => false,
                    1 => true,
                    2 => self.k > 0,
                    _ => self.k < 2,
                };
                if yes {
                    self.body(body);
                }
            }
        }
    }
}

fn unrolled(p: &Program) -> String {
    let mut u = Unroller { k: 0, ival: Some(7.), out: String::new() };
    match p.wrap {
        1 => {
            u.out.push_str("<g id=\"w\">");
            u.construct(&p.form, &p.body);
            u.out.push_str("</g>");
        }
        2 => {
            u.construct(&p.form, &p.body);
            u.construct(&p.form, &p.body);
        }
        _ => u.construct(&p.form, &p.body),
    }
    format!("<svg>{PRE}{}{POST}</svg>", u.out)
}

fn significant(evs: Vec<Ev>) -> Vec<Ev> {
    xmlref::canonical(&evs)
        .into_iter()
        .filter(|e| !matches!(e, Ev::Text(t) if t.trim().is_empty()))
        .collect()
}

fn check(p: &Program) -> CaseResult {
    let (a, b) = (original(p), unrolled(p));
    let cfg = Cfg::plain();
    let (oa, ob) = (run_str(&a, &cfg), run_str(&b, &cfg));
    let case = json!({"program": a, "unrolled": b, "form": format!("{:?}", p.form), "body": p.body, "wrap": p.wrap});
    let body_names: Vec<String> = p.body.iter().map(|i| format!("{:?}", ITEMS[*i])).collect();
    let sig = format!("{:?}/{}/wrap{}", p.form, body_names.join("+"), p.wrap).replace(' ', "");
    let mut viol = None;
    let mut mk = |clause: &str, detail: String| {
        if viol.is_none() {
            viol = Some(Violation { clause: clause.into(), signature: format!("C16/{clause}/{sig}"), case: case.clone(), detail });
        }
    };
    let mut nontrivial = false;
    match (&oa, &ob) {
        (Outcome::Panic(x), _) | (_, Outcome::Panic(x)) => mk("panic", x.clone()),
        (Outcome::Ok(x), Outcome::Ok(y)) => {
            match (xmlref::parse(x, Mode::Document), xmlref::parse(y, Mode::Document)) {
                (Ok(ex), Ok(ey)) => {
                    let (sx, sy) = (significant(ex), significant(ey));
                    if sx != sy {
                        let at = sx.iter().zip(sy.iter()).position(|(p, q)| p != q).unwrap_or(sx.len().min(sy.len()));
                        mk(
                            "differs-from-unrolling",
                            format!(
                                "program:  {a}\nunrolled: {b}\nfirst differing event #{at}:\n  program:  {:?}\n  unrolled: {:?}\n(root: {:?} vs {:?})",
                                sx.get(at),
                                sy.get(at),
                                sx.first(),
                                sy.first()
                            ),
                        );
                    } else {
                        nontrivial = sx.len() > 8;
                    }
                }
                _ => mk("unparsable-output", "output not well-formed".into()),
            }
        }
        (Outcome::Err(_), Outcome::Err(_)) => {}
        (x, y) => mk("one-side-fails", format!("program:  {a}\n  -> {}\nunrolled: {b}\n  -> {}", clip(&x.brief(), 300), clip(&y.brief(), 300))),
    }
    CaseResult {
        case_hash: hash64(&a),
        nontrivial,
        outcome_hash: hash64(&format!("{oa:?}")),
        executions: 2,
        violation: viol,
    }
}

/// Hand-written (program, unrolling) pairs outside the generated grammar: witnesses of defects found by
/// reviewers. The `deferred-body` ones have a forward reference inside the body (an open finding).
fn scenario_pairs() -> Vec<(&'static str, &'static str, &'static str)> {
    vec![
        ("use-chain", r##"<svg><rect id="s0" wh="5"/><loop count="3" loop-var="i" start="1"><use id="s$i" href="#s{{$i - 1}}" x="10"/></loop></svg>"##,
            r##"<svg><rect id="s0" wh="5"/><use id="s1" href="#s0" x="10"/><use id="s2" href="#s1" x="10"/><use id="s3" href="#s2" x="10"/></svg>"##),
        ("use-chain-for", r##"<svg><rect id="s0" wh="5"/><for data="1, 2, 3" var="i"><use id="s$i" href="#s{{$i - 1}}" y="4"/></for></svg>"##,
            r##"<svg><rect id="s0" wh="5"/><use id="s1" href="#s0" y="4"/><use id="s2" href="#s1" y="4"/><use id="s3" href="#s2" y="4"/></svg>"##),
        ("if-test-tiny-but-nonzero", r##"<svg><rect wh="1"/><if test="0.0004"><rect xy="^|h" wh="5"/></if></svg>"##, r##"<svg><rect wh="1"/><rect xy="^|h" wh="5"/></svg>"##),
        ("deferred-body/if-retested", r##"<svg><var c="1"/><if test="$c"><rect xy="#z|h" wh="2"/></if><var c="0"/><rect id="z" wh="5"/></svg>"##,
            r##"<svg><var c="1"/><rect xy="#z|h" wh="2"/><var c="0"/><rect id="z" wh="5"/></svg>"##),
        ("deferred-body/var-update-repeated", r##"<svg><var n="0"/><loop count="2"><var n="{{$n+1}}"/><rect xy="#z|h" wh="$n"/></loop><rect id="z" wh="5"/></svg>"##,
            r##"<svg><var n="0"/><var n="{{$n+1}}"/><rect xy="#z|h" wh="$n"/><var n="{{$n+1}}"/><rect xy="#z|h" wh="$n"/><rect id="z" wh="5"/></svg>"##),
        ("deferred-body/while-fewer-passes", r##"<svg><var i="0"/><loop while="lt($i,2)"><rect xy="#z|h {{$i*3}}" wh="2"/><var i="{{$i+1}}"/></loop><rect id="z" wh="5"/></svg>"##,
            r##"<svg><var i="0"/><rect xy="#z|h {{$i*3}}" wh="2"/><var i="{{$i+1}}"/><rect xy="#z|h {{$i*3}}" wh="2"/><var i="{{$i+1}}"/><rect id="z" wh="5"/></svg>"##),
        // second review round
        ("tail-text/if-false", r##"<svg><text x="1" y="2">a<tspan>x</tspan><if test="0"><tspan>b</tspan></if>c</text></svg>"##, r##"<svg><text x="1" y="2">a<tspan>x</tspan>c</text></svg>"##),
        ("tail-text/word-space-after-if-false", r##"<svg><text x="1" y="2"><tspan>a</tspan><if test="0"><tspan>b</tspan></if> <tspan>c</tspan></text></svg>"##, r##"<svg><text x="1" y="2"><tspan>a</tspan> <tspan>c</tspan></text></svg>"##),
        ("tail-text/loop-zero", r##"<svg><text x="1" y="2"><tspan>x</tspan><loop count="0"><tspan>b</tspan></loop>tail<tspan>y</tspan></text></svg>"##, r##"<svg><text x="1" y="2"><tspan>x</tspan>tail<tspan>y</tspan></text></svg>"##),
        ("loop-var/decimal-steps", r##"<svg><loop count="4" loop-var="i" start="0.1" step="0.1"><text xy="0 $i" text="v=$i"/></loop></svg>"##,
            r##"<svg><text xy="0 0.1" text="v=0.1"/><text xy="0 0.2" text="v=0.2"/><text xy="0 0.3" text="v=0.3"/><text xy="0 0.4" text="v=0.4"/></svg>"##),
        ("loop-var/decimal-ids", r##"<svg><loop count="3" loop-var="i" start="0.7" step="0.1"><rect id="r$i" xy="$i 0" wh="1"/></loop></svg>"##,
            r##"<svg><rect id="r0.7" xy="0.7 0" wh="1"/><rect id="r0.8" xy="0.8 0" wh="1"/><rect id="r0.9" xy="0.9 0" wh="1"/></svg>"##),
        ("empty-element/for", r##"<svg><rect wh="1"/><for data="1,2" var="v"/></svg>"##, r##"<svg><rect wh="1"/></svg>"##),
        ("empty-element/loop-if", r##"<svg><rect wh="1"/><loop count="3"/><if test="1"/></svg>"##, r##"<svg><rect wh="1"/></svg>"##),
        ("in-defaults/if-false", r##"<svg><var dark="0"/><defaults><if test="$dark"><rect class="d-fill-black"/></if></defaults><rect wh="20"/></svg>"##, r##"<svg><var dark="0"/><defaults></defaults><rect wh="20"/></svg>"##),
        ("in-defaults/loop", r##"<svg><defaults><loop count="2" loop-var="i"><rect class="c$i"/></loop></defaults><rect wh="20"/></svg>"##, r##"<svg><defaults><rect class="c0"/><rect class="c1"/></defaults><rect wh="20"/></svg>"##),
        ("text-content/if-in-shape", r##"<svg><rect wh="20"><if test="1">hi</if></rect></svg>"##, r##"<svg><rect wh="20">hi</rect></svg>"##),
        ("text-content/if-in-text", r##"<svg><text xy="3"><if test="1">hi</if></text></svg>"##, r##"<svg><text xy="3">hi</text></svg>"##),
        ("deferred-test/reference-in-test", r##"<svg><rect wh="2"/><var k="1"/><if test="gt(#later~w, 5)"><rect xy="^|h 1" wh="$k"/></if><var k="9"/><rect id="later" xy="0 20" wh="10"/></svg>"##,
            r##"<svg><rect wh="2"/><var k="1"/><rect xy="^|h 1" wh="$k"/><var k="9"/><rect id="later" xy="0 20" wh="10"/></svg>"##),
        ("deferred-sibling/if-in-a", r##"<svg><var k="0"/><a><if test="eq($k,0)"><var k="1"/><rect xy="0" wh="5"/></if><rect xy="#later|v 2" wh="5"/></a><rect id="later" xy="0 20" wh="5"/></svg>"##,
            r##"<svg><var k="0"/><a><var k="1"/><rect xy="0" wh="5"/><rect xy="#later|v 2" wh="5"/></a><rect id="later" xy="0 20" wh="5"/></svg>"##),
        // third review round
        ("waiting-unit/assignment-too-late", r##"<svg><var k="1"/><loop count="2"><var k="{{$k+1}}"/><rect xy="#z|h 2" wh="1"/></loop><rect id="z" wh="$k"/></svg>"##,
            r##"<svg><var k="1"/><var k="{{$k+1}}"/><rect xy="#z|h 2" wh="1"/><var k="{{$k+1}}"/><rect xy="#z|h 2" wh="1"/><rect id="z" wh="$k"/></svg>"##),
        ("waiting-unit/later-pass-reference", r##"<svg><loop count="3" loop-var="i"><rect id="r$i" xy="#r{{$i+1}}|h 2" wh="5"/></loop><rect id="r3" wh="5"/></svg>"##,
            r##"<svg><rect id="r0" xy="#r1|h 2" wh="5"/><rect id="r1" xy="#r2|h 2" wh="5"/><rect id="r2" xy="#r3|h 2" wh="5"/><rect id="r3" wh="5"/></svg>"##),
        ("waiting-unit/previous-element-inside", r##"<svg><if test="1"><rect xy="#z|h 2" wh="2"/><rect xy="12 17" wh="1"/></if><rect id="z" xy="^|h 2" wh="1"/></svg>"##,
            r##"<svg><rect xy="#z|h 2" wh="2"/><rect xy="12 17" wh="1"/><rect id="z" xy="^|h 2" wh="1"/></svg>"##),
        ("alternating-loops", r##"<svg><rect id="a0" wh="1"/><loop count="6" loop-var="i" start="1"><rect id="a$i" xy="#b$i|h 2" wh="1"/></loop><loop count="6" loop-var="i" start="1"><rect id="b$i" xy="#a{{$i-1}}|h 2" wh="1"/></loop></svg>"##,
            r##"<svg><rect id="a0" wh="1"/><rect id="a1" xy="#b1|h 2" wh="1"/><rect id="a2" xy="#b2|h 2" wh="1"/><rect id="a3" xy="#b3|h 2" wh="1"/><rect id="a4" xy="#b4|h 2" wh="1"/><rect id="a5" xy="#b5|h 2" wh="1"/><rect id="a6" xy="#b6|h 2" wh="1"/><rect id="b1" xy="#a0|h 2" wh="1"/><rect id="b2" xy="#a1|h 2" wh="1"/><rect id="b3" xy="#a2|h 2" wh="1"/><rect id="b4" xy="#a3|h 2" wh="1"/><rect id="b5" xy="#a4|h 2" wh="1"/><rect id="b6" xy="#a5|h 2" wh="1"/></svg>"##),
        ("deferred-body/reference-within-pass", r##"<svg><rect wh="1"/><loop count="2"><circle cxy="#b@c" r="1"/><rect id="b" xy="^|v 5" wh="6"/></loop></svg>"##,
            r##"<svg><rect wh="1"/><circle cxy="#b@c" r="1"/><rect id="b" xy="^|v 5" wh="6"/><circle cxy="#b@c" r="1"/><rect id="b" xy="^|v 5" wh="6"/></svg>"##),
        // fifth review round
        ("empty-clip-path/if-false", r##"<svg><clipPath id="c"><if test="0"><rect wh="5"/></if></clipPath><rect wh="20" clip-path="url(#c)"/><rect xy="30 0" wh="2"/></svg>"##,
            r##"<svg><clipPath id="c"></clipPath><rect wh="20" clip-path="url(#c)"/><rect xy="30 0" wh="2"/></svg>"##),
        ("empty-clip-path/loop-zero", r##"<svg><clipPath id="c"><loop count="0"><rect wh="5"/></loop></clipPath><rect wh="20" clip-path="url(#c)"/><rect xy="30 0" wh="2"/></svg>"##,
            r##"<svg><clipPath id="c"></clipPath><rect wh="20" clip-path="url(#c)"/><rect xy="30 0" wh="2"/></svg>"##),
        ("word-break-after-empty-control/if-false", "<svg><text xy=\"0\"><tspan>p</tspan><if test=\"0\"><tspan>x</tspan></if>\n<tspan>q</tspan></text></svg>",
            "<svg><text xy=\"0\"><tspan>p</tspan>\n<tspan>q</tspan></text></svg>"),
        ("fractional-step/sixteenth", r##"<svg><loop count="3" loop-var="i" step="0.0625"><rect xy="{{$i * 160}} 0" wh="5"/></loop></svg>"##,
            r##"<svg><rect xy="{{0 * 160}} 0" wh="5"/><rect xy="{{0.0625 * 160}} 0" wh="5"/><rect xy="{{0.125 * 160}} 0" wh="5"/></svg>"##),
        ("loop-variable-digits/large-start", r##"<svg><loop count="2" loop-var="i" start="100000000.1" step="1"><text xy="0" text="$i"/></loop></svg>"##,
            r##"<svg><text xy="0" text="100000000.1"/><text xy="0" text="100000001.1"/></svg>"##),
        ("loop-variable-digits/tiny-start", r##"<svg><loop count="1" loop-var="i" start="0.0000000001"><rect wh="{{$i * 10000000000}}"/></loop></svg>"##,
            r##"<svg><rect wh="{{0.0000000001 * 10000000000}}"/></svg>"##),
        // seventh round (seed C16d): what the opening tag says is worked out once, on entry, even when the body changes a
        // variable it mentions - N copies for the N the loop started with
        ("header-once/count-shrinking", r##"<svg><var n="4"/><loop count="$n"><var n="{{$n - 1}}"/><rect xy="0 {{$n * 10}}" wh="5"/></loop><rect xy="20 {{$n * 10}}" wh="3"/></svg>"##,
            r##"<svg><var n="4"/><var n="{{$n - 1}}"/><rect xy="0 {{$n * 10}}" wh="5"/><var n="{{$n - 1}}"/><rect xy="0 {{$n * 10}}" wh="5"/><var n="{{$n - 1}}"/><rect xy="0 {{$n * 10}}" wh="5"/><var n="{{$n - 1}}"/><rect xy="0 {{$n * 10}}" wh="5"/><rect xy="20 {{$n * 10}}" wh="3"/></svg>"##),
        ("header-once/count-growing", r##"<svg><var n="2"/><loop count="$n"><var n="{{$n + 1}}"/><rect xy="0 {{$n * 10}}" wh="5"/></loop><rect xy="20 {{$n * 10}}" wh="3"/></svg>"##,
            r##"<svg><var n="2"/><var n="{{$n + 1}}"/><rect xy="0 {{$n * 10}}" wh="5"/><var n="{{$n + 1}}"/><rect xy="0 {{$n * 10}}" wh="5"/><rect xy="20 {{$n * 10}}" wh="3"/></svg>"##),
        ("header-once/nested-inner-count", r##"<svg><var left="2"/><loop count="2" loop-var="o"><loop count="$left"><var left="{{$left - 1}}"/><rect xy="{{$o * 20}} {{$left * 10}}" wh="5"/></loop><var left="3"/></loop></svg>"##,
            r##"<svg><var left="2"/><var o="0"/><var left="{{$left - 1}}"/><rect xy="{{$o * 20}} {{$left * 10}}" wh="5"/><var left="{{$left - 1}}"/><rect xy="{{$o * 20}} {{$left * 10}}" wh="5"/><var left="3"/><var o="1"/><var left="{{$left - 1}}"/><rect xy="{{$o * 20}} {{$left * 10}}" wh="5"/><var left="{{$left - 1}}"/><rect xy="{{$o * 20}} {{$left * 10}}" wh="5"/><var left="{{$left - 1}}"/><rect xy="{{$o * 20}} {{$left * 10}}" wh="5"/><var left="3"/></svg>"##),
        ("header-once/count-is-own-loop-variable", r##"<svg><var i="3"/><loop count="$i" loop-var="i"><rect xy="{{$i * 10}} 0" wh="5"/></loop></svg>"##,
            r##"<svg><var i="3"/><var i="0"/><rect xy="{{$i * 10}} 0" wh="5"/><var i="1"/><rect xy="{{$i * 10}} 0" wh="5"/><var i="2"/><rect xy="{{$i * 10}} 0" wh="5"/></svg>"##),
        ("header-once/start-and-step", r##"<svg><var s="1" t="2"/><loop count="3" loop-var="i" start="$s" step="$t"><var s="10" t="20"/><rect xy="{{$i * 10}} 0" wh="5"/></loop></svg>"##,
            r##"<svg><var s="1" t="2"/><var i="1"/><var s="10" t="20"/><rect xy="{{$i * 10}} 0" wh="5"/><var i="3"/><var s="10" t="20"/><rect xy="{{$i * 10}} 0" wh="5"/><var i="5"/><var s="10" t="20"/><rect xy="{{$i * 10}} 0" wh="5"/></svg>"##),
        ("header-once/for-data", r##"<svg><var lst="1, 2, 3"/><for data="$lst" var="v"><var lst="9"/><rect xy="{{$v * 10}} 0" wh="5"/></for></svg>"##,
            r##"<svg><var lst="1, 2, 3"/><var v="1"/><var lst="9"/><rect xy="{{$v * 10}} 0" wh="5"/><var v="2"/><var lst="9"/><rect xy="{{$v * 10}} 0" wh="5"/><var v="3"/><var lst="9"/><rect xy="{{$v * 10}} 0" wh="5"/></svg>"##),
        ("header-once/loop-variable-name", r##"<svg><var nm="a"/><loop count="2" loop-var="$nm"><var nm="b"/><rect xy="{{$a * 10}} 0" wh="5"/></loop></svg>"##,
            r##"<svg><var nm="a"/><var a="0"/><var nm="b"/><rect xy="{{$a * 10}} 0" wh="5"/><var a="1"/><var nm="b"/><rect xy="{{$a * 10}} 0" wh="5"/></svg>"##),
        ("fractional-step/for-items", r##"<svg><for data="0.0625, 0.0004" var="v"><rect xy="{{$v * 10000}} 0" wh="5"/></for></svg>"##,
            r##"<svg><rect xy="{{0.0625 * 10000}} 0" wh="5"/><rect xy="{{0.0004 * 10000}} 0" wh="5"/></svg>"##),
    ]
}

/// The character data of every <text> element (white space runs as one blank): white space between the children
/// of a <text> separates words, so it is compared there although it is layout everywhere else.
fn text_contents(evs: &[Ev]) -> Vec<String> {
    let (mut out, mut depth, mut cur) = (Vec::new(), 0usize, String::new());
    for e in evs {
        match e {
            Ev::Start(n, _) if depth > 0 || n == "text" => {
                depth += 1;
            }
            Ev::End(_) if depth > 0 => {
                depth -= 1;
                if depth == 0 {
                    out.push(cur.split_whitespace().collect::<Vec<_>>().join(" "));
                    cur.clear();
                } else {
                    cur.push('\u{1}'); // (an element boundary: "a</tspan><tspan>b" is one word, "a</tspan> <tspan>b" two)
                }
            }
            Ev::Text(t) | Ev::CData(t) if depth > 0 => cur.push_str(t),
            _ => {}
        }
    }
    out.iter().map(|t| t.replace(" \u{1}", " ").replace("\u{1} ", " ").replace('\u{1}', "")).collect()
}

fn check_pair(name: &str, a: &str, b: &str) -> CaseResult {
    let cfg = Cfg::plain();
    let (oa, ob) = (run_str(a, &cfg), run_str(b, &cfg));
    let case = json!({"scenario": name, "program": a, "unrolled": b});
    let mut viol = None;
    let mut mk = |clause: &str, detail: String| {
        viol = Some(Violation { clause: clause.into(), signature: format!("C16/scenario/{name}/{clause}"), case: case.clone(), detail });
    };
    match (&oa, &ob) {
        (Outcome::Panic(x), _) | (_, Outcome::Panic(x)) => mk("panic", x.clone()),
        (Outcome::Ok(x), Outcome::Ok(y)) => match (xmlref::parse(x, Mode::Document), xmlref::parse(y, Mode::Document)) {
            (Ok(ex), Ok(ey)) => {
                let (tx, ty) = (text_contents(&ex), text_contents(&ey));
                let (sx, sy) = (significant(ex), significant(ey));
                if sx == sy && tx != ty {
                    mk("text-differs-from-unrolling", format!("program:  {a}\nunrolled: {b}\ncharacter data of the <text> elements: {tx:?} against {ty:?}"));
                } else if sx != sy {
                    let at = sx.iter().zip(sy.iter()).position(|(p, q)| p != q).unwrap_or(sx.len().min(sy.len()));
                    mk("differs-from-unrolling", format!("program:  {a}\nunrolled: {b}\nfirst differing event #{at}:\n  program:  {:?}\n  unrolled: {:?}", sx.get(at), sy.get(at)));
                }
            }
            _ => mk("unparsable-output", "output not well-formed".into()),
        },
        (Outcome::Err(_), Outcome::Err(_)) => {}
        (x, y) => mk("one-side-fails", format!("program:  {a}\n  -> {}\nunrolled: {b}\n  -> {}", clip(&x.brief(), 300), clip(&y.brief(), 300))),
    }
    CaseResult { case_hash: hash64(&a), nontrivial: viol.is_none() && oa.is_ok(), outcome_hash: hash64(&format!("{oa:?}")), executions: 2, violation: viol }
}

fn programs(tier: Tier) -> Vec<Program> {
    let mut forms = Vec::new();
    for n in 0..=3u32 {
        forms.push(Form::Count { n, var: None });
        for (s, t) in [(None, None), (Some(2.), None), (Some(-1.5), Some(2.)), (None, Some(-0.5)), (Some(2.), Some(2.))] {
            forms.push(Form::Count { n, var: Some((s, t)) });
        }
    }
    for b in [0, 1, 3] {
        forms.push(Form::While { bound: b });
        forms.push(Form::Until { bound: b });
    }
    for d in 0..FOR_DATA.len() {
        for idx in [false, true] {
            forms.push(Form::For { data: d, idx });
        }
    }
    for t in 0..IF_TESTS.len() {
        forms.push(Form::If { test: t });
    }
    let n = ITEMS.len();
    let mut bodies: Vec<Vec<usize>> = vec![vec![]];
    for a in 0..n {
        bodies.push(vec![a]);
        for b in 0..n {
            bodies.push(vec![a, b]);
            if tier == Tier::Thorough {
                for c in 0..n {
                    bodies.push(vec![a, b, c]);
                }
            }
        }
    }
    let mut v = Vec::new();
    for f in &forms {
        for b in &bodies {
            for wrap in 0..3 {
                v.push(Program { form: f.clone(), body: b.clone(), wrap });
            }
        }
    }
    v
}

pub fn run(tier: Tier) -> i32 {
    let mut rep = Report::new("C16", tier, "translation_validation");
    // the quick tier explores what used to be the thorough space (it takes seconds); `deep` adds the wider bounds
    #[allow(unused_variables)]
    let deep = tier == Tier::Thorough;
    let tier = Tier::Thorough;
    let ps = programs(tier);
    rep.set("rule", json!("Programs = loop/conditional form x body x wrapping. Forms: count 0..3 without and with loop-var under 5 start/step combinations (fractional, negative), while and until over a counter with bound 0/1/3, for over 4 data lists (literal, variable, single, strings) with and without idx-var, if with 4 tests. Bodies: all sequences of <= 2 (thorough 3) items from {shape relative to '^', shape using the loop variable, id built from the loop variable, text using it, accumulating <var>, <g> with a local, nested loop, nested if}. Wrapping: in <svg>, inside <g>, the construct twice in a row (state carried across). Each program is followed by a probe of all variables and a '^'-relative shape. The twin is produced by a mechanical unroller (iteration counts from the generator's own counter arithmetic); both are executed and the whitespace-insensitive canonical event streams (all elements, attributes, text, root viewBox/size) must be equal. Non-trivial = both Ok, equal, more than 8 events."));
    rep.set("also_later", json!("Round 5 added pairs: a clipPath emptied by a control element, fractional loop steps and <for> items, a word break after an empty control element. Round 7 (seed C16d) added 7 pairs on the opening tag being worked out once: count / start / step / <for> data / the loop variable's name mentioning a variable the body changes, also as the inner loop of a nested pair."));
    rep.set("also", json!("Also 7 hand-written (program, unrolling) pairs: <use> chains built by loop and for, a condition value below the output rounding, and four bodies containing a forward reference (if re-tested, var update repeated, while making fewer passes, references within one pass)."));
    let st = run_space(ps.len(), |i| check(&ps[i]));
    rep.set("programs", json!(ps.len()));
    rep.set("disagreements_checked", json!(ps.len()));
    for i in [ps.len() / 4, ps.len() / 2 + 5, ps.len() - 11] {
        rep.sample(json!({"program": original(&ps[i]), "unrolled": unrolled(&ps[i])}));
    }
    rep.absorb("programs", st);
    rep.assume("loop parameters are dyadic so repeated f64 addition of step equals the twin's literal values; the twin assigns the loop variable with <var> before each copy, as the documentation describes");
    let pairs = scenario_pairs();
    let st = run_space(pairs.len(), |i| check_pair(pairs[i].0, pairs[i].1, pairs[i].2));
    rep.absorb("scenarios", st);
    rep.finish()
}

pub fn replay_case(case: &Value) -> Option<Violation> {
    // re-run both recorded documents
    let (a, b) = (case["program"].as_str()?, case["unrolled"].as_str()?);
    let cfg = Cfg::plain();
    let (oa, ob) = (run_str(a, &cfg), run_str(b, &cfg));
    let same = match (&oa, &ob) {
        (Outcome::Ok(x), Outcome::Ok(y)) => match (xmlref::parse(x, Mode::Document), xmlref::parse(y, Mode::Document)) {
            (Ok(ex), Ok(ey)) => significant(ex) == significant(ey),
            _ => false,
        },
        (Outcome::Err(_), Outcome::Err(_)) => true,
        _ => false,
    };
    if same {
        None
    } else {
        Some(Violation { clause: "differs-from-unrolling".into(), signature: "C16/replay".into(), case: case.clone(), detail: format!("{}\nvs\n{}", oa.brief(), ob.brief()) })
    }
}
