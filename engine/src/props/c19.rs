//! C19 — Shape text reaches the output verbatim and at the requested anchor.

use crate::common::*;
use crate::xmlref::{self, Element, Mode, Node};
use serde_json::{json, Value};

// ------------------------------------------------------------------ strings

/// (name, source spelling in an attribute, source spelling in element content, spelling in CDATA, expected text)
struct Atom {
    name: &'static str,
    attr: &'static str,
    content: &'static str,
    cdata: Option<&'static str>,
    expect: &'static str,
}

const ATOMS: &[Atom] = &[
    Atom { name: "a", attr: "a", content: "a", cdata: Some("a"), expect: "a" },
    Atom { name: "blank", attr: " ", content: " ", cdata: Some(" "), expect: " " },
    Atom { name: "amp", attr: "&amp;", content: "&amp;", cdata: Some("&"), expect: "&" },
    Atom { name: "lt", attr: "&lt;", content: "&lt;", cdata: Some("<"), expect: "<" },
    Atom { name: "quot", attr: "&quot;", content: "\"", cdata: Some("\""), expect: "\"" },
    Atom { name: "apos", attr: "'", content: "'", cdata: Some("'"), expect: "'" },
    Atom { name: "eacute", attr: "é", content: "é", cdata: Some("é"), expect: "é" },
    Atom { name: "emoji", attr: "😀", content: "😀", cdata: Some("😀"), expect: "😀" },
    Atom { name: "esc-nl", attr: "\\n", content: "\\n", cdata: Some("\\n"), expect: "\n" },
    Atom { name: "real-nl", attr: "&#10;", content: "\n", cdata: Some("\n"), expect: "\n" },
    Atom { name: "escaped-backslash-n", attr: "\\\\n", content: "\\\\n", cdata: Some("\\\\n"), expect: "\\n" },
    Atom { name: "var", attr: "${v}", content: "${v}", cdata: Some("${v}"), expect: "V&" },
    Atom { name: "expr", attr: "{{1+1}}", content: "{{1+1}}", cdata: Some("{{1+1}}"), expect: "2" },
    Atom { name: "b", attr: "b", content: "b", cdata: Some("b"), expect: "b" },
    Atom { name: "gt", attr: "&gt;", content: ">", cdata: Some(">"), expect: ">" },
    Atom { name: "ampamp", attr: "&amp;amp;", content: "&amp;amp;", cdata: Some("&amp;"), expect: "&amp;" },
    // an escaped '$' protects a variable reference; brackets which are never closed are just text
    Atom { name: "escaped-dollar", attr: "\\$v", content: "\\$v", cdata: Some("\\$v"), expect: "$v" },
    Atom { name: "close-braces", attr: "}} ", content: "}} ", cdata: Some("}} "), expect: "}} " },
    // `{{` without a closing `}}` (only ever used as the last atom of a string)
    Atom { name: "open-braces", attr: "{{ x", content: "{{ x", cdata: Some("{{ x"), expect: "{{ x" },
];

#[derive(Clone, Copy, PartialEq, Debug)]
enum Carrier {
    Attr,
    Content,
    CData,
    TextElAttr,
    TextElContent,
    /// text attribute on a shape written with start and end tags (no content / a line break as content)
    AttrEndTag,
    AttrWsContent,
    /// content interrupted by a comment; content made of a text piece followed by a CDATA section
    ContentComment,
    ContentMixed,
    /// svgdx's own shapes as carriers
    BoxContent,
    PointContent,
}
const CARRIERS: &[Carrier] = &[
    Carrier::Attr, Carrier::Content, Carrier::CData, Carrier::TextElAttr, Carrier::TextElContent, Carrier::AttrEndTag, Carrier::AttrWsContent, Carrier::ContentComment, Carrier::ContentMixed,
    Carrier::BoxContent, Carrier::PointContent,
];

fn strings(max: usize) -> Vec<Vec<usize>> {
    let mut out = vec![];
    let mut frontier: Vec<Vec<usize>> = vec![vec![]];
    for _ in 0..max {
        let mut next = Vec::new();
        for f in &frontier {
            for a in 0..ATOMS.len() {
                let mut g = f.clone();
                g.push(a);
                next.push(g);
            }
        }
        out.extend(next.iter().cloned());
        frontier = next;
    }
    out
}

fn norm_lines(s: &str) -> String {
    // white space before a line break is not significant in SVG text and is tidied by the writer
    s.split('\n').map(|l| l.trim_end_matches([' ', '\t'])).collect::<Vec<_>>().join("\n")
}

fn text_nodes(e: &Element) -> (Vec<String>, String) {
    // (tspan texts in order, own full character data)
    let tspans: Vec<String> = e.elements().filter(|c| c.name == "tspan").map(|c| c.text()).collect();
    (tspans, e.text())
}

fn last_text(nodes: &[Node]) -> Option<&Element> {
    let mut found = None;
    fn walk<'a>(n: &'a [Node], found: &mut Option<&'a Element>) {
        for x in n {
            if let Node::El(e) = x {
                if e.name == "text" {
                    *found = Some(e);
                } else {
                    walk(&e.children, found);
                }
            }
        }
    }
    walk(nodes, &mut found);
    found
}

fn check_string(atoms: &[usize], carrier: Carrier, placement: usize) -> CaseResult {
    let spell = |atoms: &[usize], cdata: bool, attr: bool| -> String {
        atoms.iter().map(|a| if attr { ATOMS[*a].attr } else if cdata { ATOMS[*a].cdata.unwrap() } else { ATOMS[*a].content }).collect()
    };
    let spelled: String = match carrier {
        Carrier::Attr | Carrier::TextElAttr | Carrier::AttrEndTag | Carrier::AttrWsContent => spell(atoms, false, true),
        Carrier::CData => spell(atoms, true, false),
        _ => spell(atoms, false, false),
    };
    let mut expect: String = atoms.iter().map(|a| ATOMS[*a].expect).collect();
    let (extra, vertical, pre) = match placement {
        0 => ("", false, false),
        1 => (" text-loc=\"tl\" class=\"d-text-pre d-red\"", false, true),
        _ => (" text-loc=\"r\" class=\"d-text-vertical d-text-outside\"", true, false),
    };
    let half = atoms.len() / 2;
    let el = match carrier {
        Carrier::Attr => format!("<rect xy=\"10 20\" wh=\"30 10\"{extra} text=\"{spelled}\"/>"),
        Carrier::Content => format!("<rect xy=\"10 20\" wh=\"30 10\"{extra}>{spelled}</rect>"),
        Carrier::CData => format!("<rect xy=\"10 20\" wh=\"30 10\"{extra}><![CDATA[{spelled}]]></rect>"),
        Carrier::TextElAttr => format!("<text xy=\"10 20\"{extra} text=\"{spelled}\"/>"),
        Carrier::TextElContent => format!("<text xy=\"10 20\"{extra}>{spelled}</text>"),
        Carrier::AttrEndTag => format!("<rect xy=\"10 20\" wh=\"30 10\"{extra} text=\"{spelled}\"></rect>"),
        Carrier::AttrWsContent => format!("<rect xy=\"10 20\" wh=\"30 10\"{extra} text=\"{spelled}\">\n  </rect>"),
        Carrier::ContentComment => format!("<rect xy=\"10 20\" wh=\"30 10\"{extra}>{}<!-- a - comment -->{}</rect>", spell(&atoms[..half], false, false), spell(&atoms[half..], false, false)),
        Carrier::ContentMixed => {
            // a text piece which is only white space next to a CDATA section is source layout, not text
            // (judged on the source text of the piece, before escapes such as \n are interpreted)
            let first = spell(&atoms[..half], false, false);
            if first.trim().is_empty() {
                expect = atoms[half..].iter().map(|a| ATOMS[*a].expect).collect();
            }
            format!("<rect xy=\"10 20\" wh=\"30 10\"{extra}>{}<![CDATA[{}]]></rect>", spell(&atoms[..half], false, false), spell(&atoms[half..], true, false))
        }
        Carrier::BoxContent => format!("<box xy=\"10 20\" wh=\"30 10\"{extra}>{spelled}</box>"),
        Carrier::PointContent => format!("<point xy=\"10 20\"{extra}>{spelled}</point>"),
    };
    // Content which is only white space in the source (a blank, a line break between the tags) is layout,
    // not text: nothing is generated for it (judged on the source spelling: an escaped \n is text)
    let layout_only = match carrier {
        Carrier::Content | Carrier::TextElContent | Carrier::BoxContent | Carrier::PointContent | Carrier::ContentComment => spelled.trim().is_empty(),
        Carrier::CData => spelled.trim().is_empty(),
        Carrier::ContentMixed => format!("{}{}", spell(&atoms[..half], false, false), spell(&atoms[half..], true, false)).trim().is_empty(),
        _ => false,
    };
    let doc = format!("<svg><var v=\"V&amp;\"/>{el}</svg>");
    let names: Vec<&str> = atoms.iter().map(|a| ATOMS[*a].name).collect();
    let case = json!({"leg": "strings", "atoms": names, "carrier": format!("{carrier:?}"), "placement": placement, "input": doc, "expected_text": expect});
    let sig_tail = format!("{carrier:?}/{}", names.join("+"));
    let mut viol = None;
    let mut mk = |clause: &str, detail: String| {
        if viol.is_none() {
            viol = Some(Violation { clause: clause.into(), signature: format!("C19/strings/{clause}/{sig_tail}"), case: case.clone(), detail });
        }
    };
    if let Err(e) = xmlref::parse(doc.as_bytes(), Mode::Document) {
        mk("machinery-ill-formed-input", e.to_string());
    }
    let out = run_str(&doc, &Cfg::plain());
    let mut oh = 0;
    let mut ok = false;
    match &out {
        Outcome::Panic(p) => mk("panic", p.clone()),
        Outcome::Err(e) => mk("rejected", format!("text {expect:?} given as {carrier:?} was rejected: {}", clip(e, 300))),
        Outcome::Ok(b) => {
            oh = hash64(b);
            match xmlref::parse_tree(b, Mode::Document) {
                Err(e) => mk("output-ill-formed", format!("{e}\n{}", clip(&String::from_utf8_lossy(b), 500))),
                Ok(tree) if layout_only => {
                    ok = true;
                    match last_text(&tree) {
                        None => {}
                        Some(t) if matches!(carrier, Carrier::TextElContent) && text_nodes(t).1.trim().is_empty() => {}
                        Some(_) => mk("text-generated-for-layout-white-space", clip(&String::from_utf8_lossy(b), 500)),
                    }
                }
                Ok(tree) => match last_text(&tree) {
                    None => mk("no-text-element", clip(&String::from_utf8_lossy(b), 500)),
                    Some(t) => {
                        ok = true;
                        let (tspans, all) = text_nodes(t);
                        let exp_lines: Vec<&str> = expect.lines().collect();
                        let fix = |s: &str| {
                            let s = s.replace('\u{200B}', "");
                            if pre { s.replace('\u{00A0}', " ") } else { s }
                        };
                        if exp_lines.len() > 1 {
                            let mut got: Vec<String> = tspans.iter().map(|s| fix(s)).collect();
                            if vertical {
                                got.reverse();
                            }
                            let want: Vec<String> = exp_lines.iter().map(|s| s.to_string()).collect();
                            if got != want {
                                mk("multiline-text-differs", format!("expected one <tspan> per line {want:?}, observed tspans {got:?} (element character data {all:?})\n{}", clip(&String::from_utf8_lossy(b), 500)));
                            }
                        } else if !tspans.is_empty() && tspans.len() != 1 {
                            mk("unexpected-tspans", format!("single-line text {expect:?} produced {} tspans", tspans.len()));
                        } else if norm_lines(&fix(&all)) != norm_lines(&expect) {
                            mk("text-differs", format!("expected character data {expect:?}, observed {all:?}\n{}", clip(&String::from_utf8_lossy(b), 500)));
                        }
                    }
                },
            }
        }
    }
    // Open finding (KNOWN_FINDINGS.txt): attribute values are evaluated twice (which the indirect-variable
    // feature `$$name` relies on), so the backslash of an escaped `\$v` is consumed by the first pass and the
    // second pass expands `$v`. A case belongs to this class only if it contains the escaped-dollar atom AND
    // what was observed is exactly the expected text with `$v` replaced by the variable's value.
    if let (Some(v), Outcome::Ok(b)) = (viol.as_mut(), &out) {
        if names.contains(&"escaped-dollar") && matches!(v.clause.as_str(), "text-differs" | "multiline-text-differs") {
            let observed = xmlref::parse_tree(b, Mode::Document)
                .ok()
                .and_then(|t| {
                    last_text(&t).map(|e| {
                        let (tspans, all) = text_nodes(e);
                        if tspans.is_empty() { all } else { tspans.join("\n") }
                    })
                })
                .unwrap_or_default();
            // compared as a multiset of lines (vertical text lists its lines in reverse order)
            let lines = |s: &str| -> Vec<String> {
                let mut l: Vec<String> = norm_lines(&s.replace('\u{200B}', "").replace('\u{00A0}', " ")).split('\n').filter(|x| !x.is_empty()).map(|x| x.to_string()).collect();
                l.sort();
                l
            };
            // every way of expanding at least one of the `$v` occurrences
            let parts: Vec<&str> = expect.split("$v").collect();
            let n = parts.len() - 1;
            let mut in_class = false;
            for mask in 1u32..(1 << n.min(8)) {
                let mut cand = String::new();
                for (i, p) in parts.iter().enumerate() {
                    cand.push_str(p);
                    if i < n {
                        cand.push_str(if mask >> i & 1 == 1 { "V&" } else { "$v" });
                    }
                }
                if lines(&cand) == lines(&observed) {
                    in_class = true;
                    break;
                }
            }
            if in_class {
                v.signature = "C19/escaped-dollar-expanded-by-second-evaluation".into();
            }
        }
    }
    CaseResult {
        case_hash: hash64(&doc),
        nontrivial: ok && viol.is_none(),
        outcome_hash: oh,
        executions: 1,
        violation: viol,
    }
}

// ------------------------------------------------------------------ placement

struct Shape {
    name: &'static str,
    src: &'static str, // element source up to (excluding) text attributes and '/>'
    bbox: (f64, f64, f64, f64),
    outside_default: bool,
    phantom: bool,
}

const SHAPES: &[Shape] = &[
    Shape { name: "rect", src: "<rect xy=\"10 20\" wh=\"30 10\" rx=\"2\"", bbox: (10., 20., 40., 30.), outside_default: false, phantom: false },
    Shape { name: "circle", src: "<circle cxy=\"20 30\" r=\"10\"", bbox: (10., 20., 30., 40.), outside_default: false, phantom: false },
    Shape { name: "ellipse", src: "<ellipse cxy=\"-7.25 3\" rxy=\"8 2.5\"", bbox: (-15.25, 0.5, 0.75, 5.5), outside_default: false, phantom: false },
    Shape { name: "line", src: "<line xy1=\"10 20\" xy2=\"40 30\"", bbox: (10., 20., 40., 30.), outside_default: true, phantom: false },
    Shape { name: "polyline", src: "<polyline points=\"0 0 12 8 24 -4\"", bbox: (0., -4., 24., 8.), outside_default: false, phantom: false },
    Shape { name: "text", src: "<text xy=\"10 20\"", bbox: (10., 20., 10., 20.), outside_default: true, phantom: true },
    Shape { name: "box", src: "<box xy=\"2.5 -4\" wh=\"3 12.5\"", bbox: (2.5, -4., 5.5, 8.5), outside_default: false, phantom: true },
    Shape { name: "point", src: "<point xy=\"100 50\"", bbox: (100., 50., 100., 50.), outside_default: true, phantom: true },
];

const LOCS: &[&str] = &["tl", "t", "tr", "r", "br", "b", "bl", "l", "c", "t:25%", "r:3", "b:-2", "l:150%"];

fn loc_point(b: (f64, f64, f64, f64), loc: &str) -> (f64, f64, bool, bool, bool, bool) {
    // returns (x, y, is_top, is_bottom, is_left, is_right)
    let (x1, y1, x2, y2) = b;
    let (cx, cy) = ((x1 + x2) / 2., (y1 + y2) / 2.);
    let off = |len: &str, s: f64, e: f64| -> f64 {
        if let Some(p) = len.strip_suffix('%') {
            s + (e - s) * p.parse::<f64>().unwrap() / 100.
        } else {
            let a: f64 = len.parse().unwrap();
            if a < 0. { e + a } else { s + a }
        }
    };
    match loc {
        "tl" => (x1, y1, true, false, true, false),
        "t" => (cx, y1, true, false, false, false),
        "tr" => (x2, y1, true, false, false, true),
        "r" => (x2, cy, false, false, false, true),
        "br" => (x2, y2, false, true, false, true),
        "b" => (cx, y2, false, true, false, false),
        "bl" => (x1, y2, false, true, true, false),
        "l" => (x1, cy, false, false, true, false),
        "c" => (cx, cy, false, false, false, false),
        s => {
            let (e, len) = s.split_once(':').unwrap();
            match e {
                "t" => (off(len, x1, x2), y1, true, false, false, false),
                "b" => (off(len, x1, x2), y2, false, true, false, false),
                "l" => (x1, off(len, y1, y2), false, false, true, false),
                _ => (x2, off(len, y1, y2), false, false, false, true),
            }
        }
    }
}

const TEXTS: &[(&str, usize)] = &[("one", 1), ("l1\\nl2", 2), ("a\\n\\nb", 3)];

struct Placement {
    shape: usize,
    loc: usize,
    io: usize,   // 0 default, 1 d-text-inside, 2 d-text-outside
    vertical: bool,
    offset: usize, // 0 none, 1 "0", 2 "3"
    dxy: usize,    // 0 none, 1 text-dx=2 text-dy=-1.5, 2 text-dxy="4 0.5", 3 text-dxy="-2"
    text: usize,
    lsp: usize, // 0 none, 1 "2"
}

fn check_placement(p: &Placement) -> CaseResult {
    let sh = &SHAPES[p.shape];
    let loc = LOCS[p.loc];
    let mut classes: Vec<&str> = vec!["d-blue", "d-softshadow", "d-text-bold"];
    match p.io {
        1 => classes.push("d-text-inside"),
        2 => classes.push("d-text-outside"),
        _ => {}
    }
    if p.vertical {
        classes.push("d-text-vertical");
    }
    let mut tattrs = format!(" text=\"{}\" text-loc=\"{loc}\"", TEXTS[p.text].0);
    let offset = match p.offset {
        1 => { tattrs.push_str(" text-offset=\"0\""); 0. }
        2 => { tattrs.push_str(" text-offset=\"3\""); 3. }
        _ => 1.,
    };
    let (dx, dy) = match p.dxy {
        1 => { tattrs.push_str(" text-dx=\"2\" text-dy=\"-1.5\""); (2., -1.5) }
        2 => { tattrs.push_str(" text-dxy=\"4 0.5\""); (4., 0.5) }
        3 => { tattrs.push_str(" text-dxy=\"-2\""); (-2., -2.) }
        _ => (0., 0.),
    };
    let lsp = if p.lsp == 1 { tattrs.push_str(" text-lsp=\"2\""); 2.0 } else { 1.05 };
    let with = format!("<svg>{} class=\"{}\" fill=\"none\"{tattrs}/></svg>", sh.src, classes.join(" "));
    let plain_classes: Vec<&str> = classes.iter().filter(|c| !c.starts_with("d-text-")).cloned().collect();
    let without = format!("<svg>{} class=\"{}\" fill=\"none\"/></svg>", sh.src, plain_classes.join(" "));
    let case = json!({"leg": "placement", "input": with, "shape": sh.name, "loc": loc});
    let sig = format!("{}/{}/io{}{}", sh.name, loc, p.io, if p.vertical { "/vertical" } else { "" });
    let mut viol = None;
    let mut mk = |clause: &str, detail: String| {
        if viol.is_none() {
            viol = Some(Violation { clause: clause.into(), signature: format!("C19/placement/{clause}/{sig}"), case: case.clone(), detail });
        }
    };
    let out = run_str(&with, &Cfg::plain());
    let mut oh = 0;
    let mut ok = false;
    match &out {
        Outcome::Panic(pn) => mk("panic", pn.clone()),
        Outcome::Err(e) => mk("rejected", clip(e, 300)),
        Outcome::Ok(b) => {
            oh = hash64(b);
            let tree = match xmlref::parse_tree(b, Mode::Document) {
                Ok(t) => t,
                Err(e) => {
                    mk("output-ill-formed", e.to_string());
                    vec![]
                }
            };
            if let Some(root) = xmlref::root(&tree) {
                let outside = match p.io {
                    1 => false,
                    2 => true,
                    _ => sh.outside_default,
                };
                let (ax, ay, top, bottom, left, right) = loc_point(sh.bbox, loc);
                let sgn = if outside { -1. } else { 1. };
                let mut ex = ax + dx;
                let mut ey = ay + dy;
                if top { ey += sgn * offset; }
                if bottom { ey -= sgn * offset; }
                if left { ex += sgn * offset; }
                if right { ex -= sgn * offset; }
                match root.elements().filter(|e| e.name == "text").last() {
                    None => mk("no-text-element", clip(&String::from_utf8_lossy(b), 400)),
                    Some(t) => {
                        ok = true;
                        let gx = t.attr("x").and_then(parse_num);
                        let gy = t.attr("y").and_then(parse_num);
                        if !(gx.map(|g| close(g, ex, 1)).unwrap_or(false) && gy.map(|g| close(g, ey, 1)).unwrap_or(false)) {
                            mk("anchor", format!("expected anchor ({ex}, {ey}) = text-loc {loc} of bbox {:?} moved {} by offset {offset} plus ({dx},{dy}); observed x={:?} y={:?}\n{}", sh.bbox, if outside { "outward" } else { "inward" }, t.attr("x"), t.attr("y"), clip(&String::from_utf8_lossy(b), 400)));
                        }
                        // alignment classes
                        let mut want: Vec<&str> = vec!["d-text"];
                        let pick = |inside: &'static str, outs: &'static str| if outside { outs } else { inside };
                        let v = p.vertical;
                        if top { want.push(match (v, outside) { (false, false) => "d-text-top", (false, true) => "d-text-bottom", (true, false) => "d-text-top-vertical", (true, true) => "d-text-bottom-vertical" }); }
                        if bottom { want.push(match (v, outside) { (false, false) => "d-text-bottom", (false, true) => "d-text-top", (true, false) => "d-text-bottom-vertical", (true, true) => "d-text-top-vertical" }); }
                        if left { want.push(match (v, outside) { (false, false) => "d-text-left", (false, true) => "d-text-right", (true, false) => "d-text-left-vertical", (true, true) => "d-text-right-vertical" }); }
                        if right { want.push(match (v, outside) { (false, false) => "d-text-right", (false, true) => "d-text-left", (true, false) => "d-text-right-vertical", (true, true) => "d-text-left-vertical" }); }
                        let _ = pick;
                        let align_all = ["d-text-top", "d-text-bottom", "d-text-left", "d-text-right", "d-text-top-vertical", "d-text-bottom-vertical", "d-text-left-vertical", "d-text-right-vertical"];
                        let got = t.classes();
                        for w in &want {
                            if !got.contains(w) {
                                mk("alignment-class-missing", format!("expected class {w} on the text element, classes are {got:?}"));
                            }
                        }
                        for a in align_all {
                            if got.contains(&a) && !want.contains(&a) {
                                mk("alignment-class-unexpected", format!("class {a} does not match text-loc {loc} ({}), classes are {got:?}", if outside { "outside" } else { "inside" }));
                            }
                        }
                        if !got.contains(&"d-text-bold") || !got.contains(&"d-blue") {
                            mk("text-class-not-moved", format!("d-text-bold / d-blue expected on the text element: {got:?}"));
                        }
                        if got.contains(&"d-softshadow") {
                            mk("shape-only-class-on-text", format!("{got:?}"));
                        }
                        // lines
                        let (tspans, _) = text_nodes(t);
                        let n = TEXTS[p.text].1;
                        if n > 1 && tspans.len() != n {
                            mk("tspan-count", format!("{n} lines expected, {} tspans", tspans.len()));
                        }
                        if n == 1 && !tspans.is_empty() {
                            mk("tspan-count", format!("single line but {} tspans", tspans.len()));
                        }
                        if n > 1 {
                            let attr = if p.vertical { "dx" } else { "dy" };
                            for (i, ts) in t.elements().filter(|c| c.name == "tspan").enumerate() {
                                if i > 0 {
                                    let d = ts.attr(attr).and_then(|s| s.strip_suffix("em")).and_then(parse_num);
                                    if !d.map(|d| close(d, lsp, 0)).unwrap_or(false) {
                                        mk("line-spacing", format!("tspan #{i} {attr}={:?}, expected {lsp}em", ts.attr(attr)));
                                    }
                                }
                            }
                        }
                        for a in ["text", "text-loc", "text-offset", "text-dx", "text-dy", "text-dxy", "text-lsp"] {
                            if root.descendants().iter().any(|e| e.has_attr(a)) {
                                mk("text-attribute-left-behind", format!("attribute {a} appears in the output"));
                            }
                        }
                    }
                }
                // the shape itself: identical to the same document without text
                if !sh.phantom {
                    if let Outcome::Ok(b2) = run_str(&without, &Cfg::plain()) {
                        let t2 = xmlref::parse_tree(&b2, Mode::Document).unwrap_or_default();
                        let s1 = root.elements().find(|e| e.name == sh.name);
                        let s2 = xmlref::root(&t2).and_then(|r| r.elements().find(|e| e.name == sh.name));
                        let norm = |e: Option<&Element>| e.map(|e| { let mut a = e.attrs.clone(); a.sort(); a });
                        if norm(s1) != norm(s2) {
                            mk("shape-changed", format!("shape with text: {:?}\nshape without text: {:?}", s1.map(|e| &e.attrs), s2.map(|e| &e.attrs)));
                        }
                    }
                }
            }
        }
    }
    CaseResult {
        case_hash: hash64(&with),
        nontrivial: ok && viol.is_none(),
        outcome_hash: oh,
        executions: 2,
        violation: viol,
    }
}

pub fn run(tier: Tier) -> i32 {
    let mut rep = Report::new("C19", tier, "exploration");
    // the quick tier explores what used to be the thorough space (it takes seconds); `deep` adds the wider bounds
    #[allow(unused_variables)]
    let deep = tier == Tier::Thorough;
    let tier = Tier::Thorough;
    let k = tier.pick(2, 3);
    let strs = strings(k);
    let mut scases: Vec<(Vec<usize>, Carrier, usize)> = Vec::new();
    let open_braces = ATOMS.len() - 1;
    for s in &strs {
        if s.iter().take(s.len().saturating_sub(1)).any(|a| *a == open_braces) {
            continue;
        }
        for c in CARRIERS {
            if s.last() == Some(&open_braces) && matches!(c, Carrier::ContentComment | Carrier::ContentMixed) && s.len() == 1 {
                // (with a single atom the first piece is empty; nothing special, kept)
            }
            for pl in 0..3 {
                scases.push((s.clone(), *c, pl));
            }
        }
    }
    rep.set("rule", json!(format!("(strings) all sequences of <= {k} atoms from {} text atoms (letters, blank, & < > \" ' as entities/raw, e-acute, emoji, escaped \\n, real newline, \\\\n, ${{v}}, {{{{1+1}}}}, &amp;amp;) x 5 carriers (text attribute, element content, CDATA content, <text> attribute, <text> content) x 3 placements (default; tl + d-text-pre; vertical outside): the unescaped character data of the generated <text>/<tspan>s must equal the author's text after substitution, one <tspan> per line (reversed for vertical text; zero-width space for empty lines, NBSP for pre-formatted blanks; white space before a line break not compared). (placement) 8 shapes x 13 text-loc values (9 locations + 4 edge offsets) x {{default, d-text-inside, d-text-outside}} x {{horizontal, vertical}} x text-offset {{-, 0, 3}} x text-dx/dy/dxy forms x 1/2/3-line texts{}: anchor = text-loc point of the shape's box moved inward/outward by the offset plus dx/dy; alignment classes per the rule table; text classes moved, shape-only classes not; line spacing; no text attribute left; shape element identical to the same document without text.", ATOMS.len(), if tier == Tier::Thorough { " x text-lsp" } else { "" })));
    rep.set("also_later", json!("Rounds 3-5 added scenarios: white space between CDATA pieces, shape text next to a child element, reuse of templates whose text is content or carried by a group parameter, a default text-dx against the element's own text-dxy."));
    rep.set("also", json!("Also carriers: text attribute on an element with an explicit end tag / with a line break as content, content interrupted by a comment, content made of a text piece followed by CDATA, <box> and <point> content; atoms: escaped dollar, '}}' alone, '{{' never closed. Scenarios (second review round; expected character data, anchor, classes, style): adjacent text / CDATA pieces before and after child elements, processing instructions inside content, <defaults> with the text as content / attribute / on <text>, shapes under matrix / rotate / translate transforms, <text> with child elements positioned by xy, text on <use> (attribute and content), <reuse> of a <text> with x / y, text-style next to style."));
    let st = run_space(scases.len(), |i| check_string(&scases[i].0, scases[i].1, scases[i].2));
    rep.sample(json!({"leg": "strings", "atoms": scases[scases.len() / 2].0.iter().map(|a| ATOMS[*a].name).collect::<Vec<_>>(), "carrier": format!("{:?}", scases[scases.len() / 2].1)}));
    rep.absorb("strings", st);
    let mut pcases = Vec::new();
    for shape in 0..SHAPES.len() {
        for loc in 0..LOCS.len() {
            for io in 0..3 {
                for vertical in [false, true] {
                    for offset in 0..3 {
                        for dxy in 0..4 {
                            for text in 0..TEXTS.len() {
                                for lsp in 0..tier.pick(1, 2) {
                                    if tier == Tier::Quick && (offset + dxy + text) % 2 == 1 && loc % 2 == 1 {
                                        continue;
                                    }
                                    pcases.push(Placement { shape, loc, io, vertical, offset, dxy, text, lsp });
                                }
                            }
                        }
                    }
                }
            }
        }
    }
    let st = run_space(pcases.len(), |i| check_placement(&pcases[i]));
    rep.sample(json!({"leg": "placement", "shape": SHAPES[pcases[pcases.len() / 3].shape].name, "loc": LOCS[pcases[pcases.len() / 3].loc]}));
    rep.absorb("placement", st);
    // ---- scenarios from the second review round: (name, document, expected character data of the last <text>,
    // expected anchor, classes the text must carry, attribute fragments which must be present on it)
    type Scn = (&'static str, &'static str, &'static str, Option<(f64, f64)>, &'static [&'static str], &'static [(&'static str, &'static str)]);
    let scenarios: Vec<Scn> = vec![
        ("pieces/pi-between", r##"<svg><rect xy="10 20" wh="30 10">a<?pi x?>b</rect></svg>"##, "ab", Some((25., 25.)), &[], &[]),
        ("pieces/pi-after", r##"<svg><rect xy="10 20" wh="30 10">hi<?pi x?></rect></svg>"##, "hi", Some((25., 25.)), &[], &[]),
        ("pieces/cdata-then-element", r##"<svg><text x="1" y="2">a<![CDATA[b]]><tspan>c</tspan></text></svg>"##, "abc", Some((1., 2.)), &[], &[]),
        ("pieces/text-cdata-text-after-element", r##"<svg><text x="1" y="2"><tspan>c</tspan>d<![CDATA[e]]>f</text></svg>"##, "cdef", Some((1., 2.)), &[], &[]),
        ("pieces/cdata-text-then-element", r##"<svg><text x="1" y="2"><![CDATA[a]]>b<tspan>c</tspan></text></svg>"##, "abc", Some((1., 2.)), &[], &[]),
        ("defaults/content-form", r##"<svg><defaults><rect text-loc="tl" class="d-text-bold"/></defaults><rect xy="20 0" wh="10">own</rect></svg>"##, "own", Some((21., 1.)), &["d-text-bold", "d-text-top", "d-text-left"], &[]),
        ("defaults/attribute-form", r##"<svg><defaults><rect text-loc="tl" class="d-text-bold"/></defaults><rect xy="20 0" wh="10" text="own"/></svg>"##, "own", Some((21., 1.)), &["d-text-bold", "d-text-top", "d-text-left"], &[]),
        ("defaults/text-element-content", r##"<svg><defaults><text class="d-text-bold"/></defaults><text xy="3 4">own</text></svg>"##, "own", Some((3., 4.)), &["d-text-bold"], &[]),
        ("transform/matrix", r##"<svg><rect wh="20 10" transform="matrix(1 0 0 1 100 50)" text="hi"/></svg>"##, "hi", Some((110., 55.)), &[], &[]),
        ("transform/rotate-180", r##"<svg><rect wh="20 10" transform="rotate(180)" text="hi" text-loc="tl"/></svg>"##, "hi", Some((-19., -9.)), &[], &[]),
        ("transform/translate", r##"<svg><rect wh="20 10" transform="translate(100 50)" text="hi"/></svg>"##, "hi", Some((110., 55.)), &[], &[]),
        ("text-with-child/position", r##"<svg><rect id="r" xy="0 0" wh="10"/><text xy="#r@b">a<tspan>b</tspan></text></svg>"##, "ab", Some((5., 10.)), &[], &[]),
        ("on-use/attribute", r##"<svg><rect id="a" wh="10"/><use href="#a" x="15" y="5" text="hi"/></svg>"##, "hi", Some((20., 10.)), &[], &[]),
        ("on-use/content", r##"<svg><rect id="a" wh="10"/><use href="#a" x="15" y="5">hi</use></svg>"##, "hi", Some((20., 10.)), &[], &[]),
        ("reuse-of-text/xy", r##"<svg><specs><text id="t" text="$m"/></specs><reuse href="#t" m="hello" x="5" y="6"/></svg>"##, "hello", Some((5., 6.)), &[], &[]),
        // third review round
        ("pieces/space-between-cdata", r##"<svg><rect xy="10 20" wh="30 10"><![CDATA[a <]]> <![CDATA[> b]]></rect></svg>"##, "a < > b", Some((25., 25.)), &[], &[]),
        ("pieces/space-between-cdata-and-comment", r##"<svg><text xy="0 30"><![CDATA[x]]> <!-- c -->y</text></svg>"##, "x y", Some((0., 30.)), &[], &[]),
        ("pieces/layout-around-cdata", "<svg><rect xy=\"10 20\" wh=\"30 10\">\n  <![CDATA[a]]>\n</rect></svg>", "a", Some((25., 25.)), &[], &[]),
        ("shape-with-child/text-before", r##"<svg><rect xy="10 20" wh="30 10">hello<title>tip</title></rect></svg>"##, "hello", Some((25., 25.)), &[], &[]),
        ("shape-with-child/text-after", r##"<svg><rect xy="10 20" wh="30 10"><title>tip</title>hello</rect></svg>"##, "hello", Some((25., 25.)), &[], &[]),
        ("shape-with-child/cdata", r##"<svg><rect xy="10 20" wh="30 10"><title>tip</title><![CDATA[a & b]]></rect></svg>"##, "a & b", Some((25., 25.)), &[], &[]),
        ("shape-with-child/line", r##"<svg><line xy1="0 60" xy2="10 60" text-loc="c">hello<animate attributeName="x2" to="5"/></line></svg>"##, "hello", Some((5., 60.)), &[], &[]),
        ("reuse-evaluated-once/group-parameter", r##"<svg><var x="9"/><specs><g id="grp" lbl="dflt"><rect wh="20" text="$lbl"/></g></specs><reuse href="#grp" lbl="cost \$x"/></svg>"##, "cost $x", Some((10., 10.)), &[], &[]),
        ("reuse-evaluated-once/template-with-title", r##"<svg><var m="hello"/><specs><rect id="t" wh="20" text="\$m"><title>x</title></rect></specs><reuse href="#t"/></svg>"##, "$m", Some((10., 10.)), &[], &[]),
        ("reuse-template-content/shape", r##"<svg><specs><rect id="t" wh="20">$m and {{1+2}} \$m</rect></specs><reuse href="#t" m="hello"/></svg>"##, "hello and 3 $m", Some((10., 10.)), &[], &[]),
        ("reuse-template-content/text", r##"<svg><specs><text id="t" xy="3 4">$m</text></specs><reuse href="#t" m="hello"/></svg>"##, "hello", Some((3., 4.)), &[], &[]),
        ("defaults/text-dx-vs-own-text-dxy", r##"<svg><defaults><rect text-dx="2"/></defaults><rect wh="20" text-loc="tl" text-dxy="5 5" text="x"/></svg>"##, "x", Some((6., 6.)), &[], &[]),
        ("shape-with-child/blank-between-pieces", r##"<svg><rect xy="10 20" wh="30 10">a<title>t</title> <![CDATA[b]]></rect></svg>"##, "a b", Some((25., 25.)), &[], &[]),
        ("shape-with-child/blank-between-cdata-pieces", r##"<svg><rect xy="10 20" wh="30 10"><![CDATA[a]]> <title>t</title><![CDATA[b]]></rect></svg>"##, "a b", Some((25., 25.)), &[], &[]),
        ("text-style/keeps-style", r##"<svg><text xy="1 2" style="fill:red" text-style="font-weight:bold" text="hi"/></svg>"##, "hi", Some((1., 2.)), &[], &[("style", "fill:red"), ("style", "font-weight:bold")]),
    ];
    let st = run_space(scenarios.len(), |i| {
        let (name, doc, want, anchor, classes, attrs) = scenarios[i];
        let out = run_str(doc, &Cfg::plain());
        let mut problem = None;
        match &out {
            Outcome::Ok(b) => match xmlref::parse_tree(b, Mode::Document).ok().as_deref().and_then(last_text) {
                None => problem = Some("no <text> element in the output".to_string()),
                Some(t) => {
                    let got = t.text().replace('\u{200B}', "");
                    if got.trim() != want {
                        problem = Some(format!("character data {got:?}, expected {want:?}"));
                    }
                    if let (None, Some((x, y))) = (&problem, anchor) {
                        let at = (t.attr("x").and_then(|v| v.parse::<f64>().ok()), t.attr("y").and_then(|v| v.parse::<f64>().ok()));
                        match at {
                            (Some(gx), Some(gy)) if (gx - x).abs() < 0.0011 && (gy - y).abs() < 0.0011 => {}
                            other => problem = Some(format!("anchor {other:?}, expected ({x}, {y})")),
                        }
                    }
                    let cl = t.attr("class").unwrap_or("");
                    for c in classes {
                        if problem.is_none() && !cl.split_whitespace().any(|x| x == *c) {
                            problem = Some(format!("class {c} missing from the text (class=\"{cl}\")"));
                        }
                    }
                    for (k, frag) in attrs {
                        if problem.is_none() && !t.attr(k).unwrap_or("").replace(' ', "").contains(&frag.replace(' ', "")) {
                            problem = Some(format!("attribute {k} = {:?} does not contain {frag:?}", t.attr(k)));
                        }
                    }
                }
            },
            other => problem = Some(other.brief()),
        }
        CaseResult {
            case_hash: hash64(&doc),
            nontrivial: problem.is_none(),
            outcome_hash: hash64(&format!("{out:?}")),
            executions: 1,
            violation: problem.map(|p| Violation { clause: "scenario".into(), signature: format!("C19/scenario/{name}"), case: json!({"leg": "scenario", "input": doc}), detail: format!("{doc}\n{p}\n{}", clip(&out.brief(), 400)) }),
        }
    });
    rep.absorb("scenarios", st);
    rep.assume("white space immediately before a line break inside character data is not compared (collapsed by the SVG text model, tidied by the writer)");
    rep.assume("the first line's dy/dx offset of multi-line text is not asserted (the statement does not define it)");
    rep.finish()
}

pub fn replay_case(case: &Value) -> Option<Violation> {
    match case["leg"].as_str()? {
        "strings" => {
            let atoms: Vec<usize> = case["atoms"].as_array()?.iter().filter_map(|a| ATOMS.iter().position(|x| Some(x.name) == a.as_str())).collect();
            let carrier = *CARRIERS.iter().find(|c| Some(format!("{c:?}").as_str()) == case["carrier"].as_str())?;
            check_string(&atoms, carrier, case["placement"].as_u64()? as usize).violation
        }
        _ => {
            // placement cases are re-derived from the document text
            let doc = case["input"].as_str()?;
            let out = run_str(doc, &Cfg::plain());
            Some(Violation { clause: "placement-replay".into(), signature: "C19/placement/replay".into(), case: case.clone(), detail: out.brief() })
        }
    }
}
