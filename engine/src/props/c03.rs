//! C03 — Real SVG (namespaced root) passes through with an identical XML infoset.
//!
//! Bounded-exhaustive generation of XML documents rooted at a namespaced <svg>,
//! and of such subtrees embedded in svgdx documents; oracle = equality of the
//! event streams produced by the independent strict reader for input and output.

use crate::common::*;
use crate::xmlref::{self, Ev, Mode};
use serde_json::{json, Value};

pub const NS: &str = "http://www.w3.org/2000/svg";

const NAMES: &[&str] = &[
    "rect", "g", "text", "tspan", "path", "use", "style", "foo:bar", "reuse", "loop", "var", "config",
    "specs", "if", "defaults", "point", "box", "line", "svg", "for",
];

const ATTRS: &[&str] = &[
    r#"fill="red""#,
    r#"xy="^|h""#,
    r#"wh="10""#,
    r#"text="t""#,
    r##"surround="#a""##,
    r#"_="c""#,
    r#"__="raw""#,
    r#"class="d-red a""#,
    r#"class="b  a b""#,
    r#"a="x&#10;y&#9;z""#,
    r#"b="&#x20; s &#32;""#,
    r#"id="a""#,
    r##"xlink:href="#a""##,
    r#"xml:space="preserve""#,
    r#"a="x &amp; y""#,
    r#"a="&lt;&quot;&gt;""#,
    r#"a='say "hi"'"#,
    r#"a="it's""#,
    r#"a="&#x41;&#38;&#60;""#,
    r#"a="$v {{1+1}}""#,
    "a=\"é😀\"",
    r#"a=" lead trail ""#,
    r#"style="a: b""#,
    r#"data-src-line="7""#,
    r#"d="M0 0 z 5""#,
    r#"count="3""#,
    r#"transform="scale(-1 1)""#,
    r##"a="{{width}} {{1 +}} {{#missing~w}} ${x""##,
];

const TEXTS: &[&str] = &[
    "plain",
    "a &amp; b",
    "&lt;tag&gt;",
    "&quot;q&quot; &apos;",
    "&#x41;&#66;&#38;",
    "$v {{1+1}}",
    "é😀",
    " lead",
    "x > y",
    "\"quoted\" 'single'",
    "\n  indented\n",
    "two\nlines",
    "trail  \nnext",
];

fn content_atoms() -> Vec<String> {
    let mut v: Vec<String> = Vec::new();
    for t in TEXTS {
        v.push(t.to_string());
    }
    v.push("<!-- c -->".into());
    v.push("<!-- a - b &amp; <x> -->".into());
    v.push("<![CDATA[<&>]]>".into());
    v.push("<![CDATA[ a ]] b ]]>".into());
    v.push("<?pi some data?>".into());
    for n in ["rect", "g", "text", "reuse", "var", "foo:bar"] {
        v.push(format!("<{n}/>"));
    }
    v.push("<rect wh=\"10\" text=\"t\"/>".into());
    v.push("<text>a &amp; b</text>".into());
    v.push("<text x=\"1\">t<tspan>s</tspan>u</text>".into());
    v.push("<style>a > b { x: \"y\"; }</style>".into());
    v.push("<g><rect xy=\"^|h\"/></g>".into());
    v.push("<loop count=\"2\"><rect/></loop>".into());
    v
}

pub fn configs() -> Vec<(String, Cfg)> {
    let d = Cfg::default();
    let mut v = vec![
        ("default".to_string(), d.clone()),
        ("debug".into(), Cfg { debug: true, ..d.clone() }),
        ("metadata".into(), Cfg { add_metadata: true, ..d.clone() }),
        ("no-auto-styles".into(), Cfg { add_auto_styles: false, ..d.clone() }),
        ("local-styles".into(), Cfg { use_local_styles: true, ..d.clone() }),
        ("svg-style".into(), Cfg { svg_style: Some("background: red".into()), ..d.clone() }),
        ("border0-scale2.5".into(), Cfg { border: 0, scale: 2.5, ..d.clone() }),
        ("background".into(), Cfg { background: "red".into(), ..d.clone() }),
        ("font".into(), Cfg { font_family: "A \"B\" & C".into(), font_size: 5.0, ..d.clone() }),
        ("all".into(), Cfg { debug: true, add_metadata: true, use_local_styles: true, svg_style: Some("x: y".into()), border: 13, scale: 0.5, seed: 7, ..d.clone() }),
        ("limits".into(), Cfg { loop_limit: 1, var_limit: 1, depth_limit: 1, ..d.clone() }),
    ];
    for t in ["bold", "fine", "glass", "light", "dark"] {
        v.push((format!("theme-{t}"), Cfg { theme: t.into(), ..d.clone() }));
    }
    v
}

/// Infoset comparison: canonical event lists (attribute order free, adjacent text merged).
/// Declarations/doctype are compared as opaque tokens.
fn same_infoset(a: &[Ev], b: &[Ev]) -> Result<(), String> {
    let (ca, cb) = (xmlref::canonical(a), xmlref::canonical(b));
    if ca == cb {
        return Ok(());
    }
    for (i, (x, y)) in ca.iter().zip(cb.iter()).enumerate() {
        if x != y {
            return Err(format!("event #{i}: input {x:?} / output {y:?}"));
        }
    }
    Err(format!("event count {} / {}: first extra {:?}", ca.len(), cb.len(), ca.get(cb.len()).or(cb.get(ca.len()))))
}

fn family(doc: &str, err: &str) -> String {
    // coarse cause class for the signature: which construct differs
    let e = if err.contains("Text(") {
        "text"
    } else if err.contains("Start(") {
        "attr"
    } else if err.contains("Comment(") {
        "comment"
    } else if err.contains("CData(") {
        "cdata"
    } else if err.contains("Pi(") {
        "pi"
    } else {
        "other"
    };
    let _ = doc;
    e.to_string()
}

/// Check one passthrough document under all configs. `expected_events` = events of the part of the
/// input that must appear verbatim; `extract` picks the corresponding part of the output.
fn check_doc(doc: &str, leg: &str, cfgs: &[(String, Cfg)]) -> CaseResult {
    let in_evs = match xmlref::parse(doc.as_bytes(), Mode::Document) {
        Ok(e) => e,
        Err(e) => {
            // generator bug: every generated document must be well-formed
            return CaseResult {
                case_hash: hash64(&doc),
                nontrivial: false,
                outcome_hash: 0,
                executions: 0,
                violation: Some(Violation {
                    clause: "machinery".into(),
                    signature: "C03/machinery/generator-produced-ill-formed-input".into(),
                    case: json!({"leg": leg, "input": doc}),
                    detail: e.to_string(),
                }),
            };
        }
    };
    let mut viol = None;
    let mut execs = 0;
    let mut oh = 0u64;
    for (cname, cfg) in cfgs {
        let out = run_bytes(doc.as_bytes(), cfg);
        execs += 1;
        let case = json!({"leg": leg, "input": doc, "config": cfg.to_json(), "config_name": cname});
        let mut mk = |clause: &str, fam: &str, detail: String| {
            if viol.is_none() {
                viol = Some(Violation {
                    clause: clause.to_string(),
                    signature: format!("C03/{leg}/{clause}/{fam}"),
                    case: case.clone(),
                    detail,
                });
            }
        };
        match &out {
            Outcome::Panic(p) => mk("panic", "panic", p.clone()),
            Outcome::Err(e) => {
                // open finding: the XML library ends a DOCTYPE at an unbalanced '<' .. '>' even inside a comment,
                // a literal or a PI of the internal subset (class: such a '<' is present AND that is the error)
                let subset = doc.find("<!DOCTYPE").and_then(|a| doc[a..].find('[').map(|b| a + b)).and_then(|a| doc[a..].find("]>").map(|b| &doc[a + 1..a + b])).unwrap_or("");
                let inner_lt = subset.match_indices('<').any(|(i, _)| !subset[i..].starts_with("<!ENTITY") && !subset[i..].starts_with("<!--") && !subset[i..].starts_with("<?"));
                let fam = if e.contains("UnclosedDoctype") && inner_lt { "doctype-with-less-than-in-internal-subset" } else { "err" };
                mk("rejected", fam, format!("well-formed namespaced SVG was rejected: {}", clip(e, 300)))
            }
            Outcome::Ok(b) => {
                oh = hash64(b);
                match xmlref::parse(b, Mode::Document) {
                    Err(e) => mk("output-ill-formed", "xml", format!("{e}\noutput: {}", clip(&String::from_utf8_lossy(b), 600))),
                    Ok(out_evs) => {
                        if let Err(e) = same_infoset(&in_evs, &out_evs) {
                            let fam = family(doc, &e);
                            mk("infoset-differs", &fam, format!("{e}\noutput: {}", clip(&String::from_utf8_lossy(b), 600)));
                        }
                    }
                }
            }
        }
    }
    CaseResult {
        case_hash: hash64(&doc),
        nontrivial: viol.is_none() && in_evs.len() > 2,
        outcome_hash: oh,
        executions: execs,
        violation: viol,
    }
}

fn wrap(attrs: &str, body: &str) -> String {
    format!("<svg xmlns=\"{NS}\"{attrs}>{body}</svg>")
}

fn space_attrs(tier: Tier) -> Vec<String> {
    let mut v = Vec::new();
    for n in NAMES {
        for (i, a) in ATTRS.iter().enumerate() {
            v.push(wrap("", &format!("<{n} {a}/>")));
            if tier == Tier::Quick && i % 3 != 0 {
                continue;
            }
            for (j, b) in ATTRS.iter().enumerate() {
                let (an, bn) = (a.split('=').next().unwrap(), b.split('=').next().unwrap());
                if i == j || an == bn {
                    continue;
                }
                if tier == Tier::Quick && j % 2 != 0 {
                    continue;
                }
                v.push(wrap("", &format!("<{n} {a} {b}>x</{n}>")));
            }
        }
    }
    // attributes on the root itself
    for a in ATTRS {
        v.push(wrap(&format!(" {a}"), "<rect/>"));
        v.push(wrap(&format!(" {a} width=\"10\" viewBox=\"0 0 1 1\""), ""));
    }
    v
}

fn space_content(tier: Tier) -> Vec<String> {
    let atoms = content_atoms();
    let n = atoms.len();
    let max = tier.pick(2, 4);
    let mut v = Vec::new();
    let mut idx = vec![0usize; 0];
    // all sequences of length 1..=max
    fn rec(atoms: &[String], max: usize, cur: &mut Vec<usize>, out: &mut Vec<Vec<usize>>) {
        if !cur.is_empty() {
            out.push(cur.clone());
        }
        if cur.len() == max {
            return;
        }
        for i in 0..atoms.len() {
            cur.push(i);
            rec(atoms, max, cur, out);
            cur.pop();
        }
    }
    let mut seqs = Vec::new();
    rec(&atoms, max, &mut idx, &mut seqs);
    let _ = n;
    for s in seqs {
        let body: String = s.iter().map(|i| atoms[*i].as_str()).collect();
        v.push(wrap("", &body));
        if s.len() <= 2 {
            v.push(wrap("", &format!("<g id=\"o\">{body}</g>")));
            v.push(wrap(" width=\"5cm\"", &format!("\n  <text>{body}</text>\n")));
        }
    }
    v
}

fn space_prolog() -> Vec<String> {
    let mut v = Vec::new();
    let decls = ["", "<?xml version=\"1.0\" encoding=\"UTF-8\"?>\n"];
    let doctypes = ["", "<!DOCTYPE svg PUBLIC \"-//W3C//DTD SVG 1.1//EN\" \"http://www.w3.org/Graphics/SVG/1.1/DTD/svg11.dtd\">\n"];
    let pre = ["", "<!-- pre -->\n", "<?xml-stylesheet href=\"a.css\"?>\n", "<!-- a -->\n<!-- b -->"];
    let post = ["", "\n", "\n<!-- post -->\n", "<?end?>"];
    let bodies = ["<rect/>", "\n  <rect wh=\"1\" text=\"t\"/>\n", "<text>a &amp; b</text>"];
    for d in decls {
        for t in doctypes {
            for p in pre {
                for q in post {
                    for b in bodies {
                        v.push(format!("{d}{t}{p}{}{q}", wrap("", b)));
                    }
                }
            }
        }
    }
    // DOCTYPE with an internal subset: references to its entities in the root start tag, in child attributes
    // and in text are passed through as written (same infoset for a reader which knows the DTD)
    for dt in ["<!DOCTYPE svg [<!ENTITY w \"10\">]>", "<!DOCTYPE svg [\n  <!ENTITY w \"10\">\n  <!ENTITY ns_svg 'http://example.com/ns'>\n]>\n"] {
        for (attrs, body) in [(" width=\"&w;\"", "<rect width=\"5\" height=\"5\"/>"), ("", "<rect width=\"&w;\" a=\"x&w;y\"/>"), (" viewBox=\"0 0 &w; &w;\"", "<text>a &w; b &amp; c</text>"), (" xmlns:x=\"&ns_svg;\"", "<x:y/>")] {
            if attrs.contains("ns_svg") && !dt.contains("ns_svg") {
                continue;
            }
            v.push(format!("{dt}{}", wrap(attrs, body)));
            v.push(format!("<?xml version=\"1.0\"?>\n{dt}{}", wrap(attrs, body)));
        }
    }
    // prefixed namespace declarations before the default one on the root (the order many editors write), with
    // prolog / epilog items which only survive if the document is recognised as real SVG
    for pre in ["", "<?xml version=\"1.0\"?>\n<?xml-stylesheet href=\"a.css\"?>\n<!DOCTYPE svg>\n"] {
        for post in ["", "\n<?end?>"] {
            v.push(format!("{pre}<svg xmlns:xlink=\"http://www.w3.org/1999/xlink\" xmlns=\"{NS}\" width=\"5\"><rect/><use xlink:href=\"#a\"/></svg>{post}"));
            v.push(format!("{pre}<svg xmlns:a=\"urn:a\" xmlns:b=\"urn:b\" a:x=\"1\" xmlns=\"{NS}\"><b:y wh=\"3\"/></svg>{post}"));
            v.push(format!("{pre}<svg version=\"1.1\" id=\"r\" xmlns=\"{NS}\" xmlns:xlink=\"http://www.w3.org/1999/xlink\"><rect wh=\"3\"/></svg>{post}"));
        }
    }
    // '<' inside a comment, a literal or a PI of the internal subset
    for dt in ["<!DOCTYPE svg [<!-- a < b -->]>", "<!DOCTYPE svg [<!ENTITY e \"a<b\">]>", "<!DOCTYPE svg [<?pi < ?>]>"] {
        v.push(format!("{dt}{}", wrap("", "<rect/>")));
    }
    // line-ending / whitespace variants inside the root
    for b in ["\r\n  <rect/>\r\n", "\t<rect/>\t\n", "  <rect/>  ", "\n\n\n<rect/>\n\n\n", "<rect\n   a=\"1\"\n   b='2'\n/>"] {
        v.push(wrap("", b));
    }
    v
}

/// Namespaced subtrees embedded in svgdx documents: the subtree must come out with the same infoset.
fn check_nested(sub: &str, pos: usize) -> CaseResult {
    let doc = match pos {
        0 => format!("<svg>{sub}<rect wh=\"5\"/></svg>"),
        1 => format!("<svg><rect wh=\"5\"/>{sub}<rect xy=\"^|h\" wh=\"5\"/></svg>"),
        2 => format!("<svg><g id=\"k\"><rect wh=\"5\"/>{sub}</g></svg>"),
        3 => format!("<svg><loop count=\"1\">{sub}</loop></svg>"),
        4 => format!("<rect wh=\"5\"/>{sub}"),
        5 => format!("<svg><defaults><svg fill=\"red\" wh=\"3\"/><rect fill=\"blue\"/></defaults>{sub}</svg>"),
        6 => format!("<if test=\"1\">{sub}</if>"),
        7 => format!("<svg><defs>{sub}</defs></svg>"),
        _ => format!("<svg><a href=\"x\">{sub}</a><rect wh=\"2\"/></svg>"),
    };
    let sub_evs = xmlref::parse(sub.as_bytes(), Mode::Document).expect("generated subtree is well-formed");
    let mut viol = None;
    let mut oh = 0;
    let mut execs = 0;
    for (cname, cfg) in [("plain", Cfg::plain()), ("default", Cfg::default()), ("debug+meta", Cfg { debug: true, add_metadata: true, ..Cfg::default() })] {
        let out = run_bytes(doc.as_bytes(), &cfg);
        execs += 1;
        let case = json!({"leg": "nested", "input": doc, "sub": sub, "pos": pos, "config": cfg.to_json(), "config_name": cname});
        let mut mk = |clause: &str, fam: &str, detail: String| {
            if viol.is_none() {
                viol = Some(Violation {
                    clause: clause.to_string(),
                    signature: format!("C03/nested/{clause}/{fam}"),
                    case: case.clone(),
                    detail,
                });
            }
        };
        match &out {
            Outcome::Panic(p) => mk("panic", "panic", p.clone()),
            Outcome::Err(e) => mk("rejected", "err", format!("document with embedded namespaced svg rejected: {}", clip(e, 300))),
            Outcome::Ok(b) => {
                oh = hash64(b);
                match xmlref::parse(b, Mode::Content) {
                    Err(e) => mk("output-ill-formed", "xml", format!("{e}\noutput: {}", clip(&String::from_utf8_lossy(b), 600))),
                    Ok(out_evs) => {
                        // locate the embedded subtree: the Start(svg) carrying xmlns at nesting depth >= 0 that is not the outer root
                        let mut depth = 0usize;
                        let mut start = None;
                        let mut end = None;
                        for (i, ev) in out_evs.iter().enumerate() {
                            match ev {
                                Ev::Start(n, a) => {
                                    let is_outer_root = depth == 0 && i == out_evs.iter().position(|e| matches!(e, Ev::Start(..))).unwrap() && doc.starts_with("<svg>");
                                    if start.is_none() && n == "svg" && a.iter().any(|(k, v)| k == "xmlns" && v == NS) && !is_outer_root {
                                        start = Some((i, depth));
                                    }
                                    depth += 1;
                                }
                                Ev::End(_) => {
                                    depth -= 1;
                                    if let (Some((_, d)), None) = (start, end) {
                                        if d == depth {
                                            end = Some(i);
                                        }
                                    }
                                }
                                _ => {}
                            }
                        }
                        match (start, end) {
                            (Some((s, _)), Some(e)) => {
                                if let Err(err) = same_infoset(&sub_evs, &out_evs[s..=e]) {
                                    let fam = family(sub, &err);
                                    mk("infoset-differs", &fam, format!("{err}\noutput: {}", clip(&String::from_utf8_lossy(b), 600)));
                                }
                            }
                            _ => mk("subtree-missing", "missing", format!("embedded subtree not found in output: {}", clip(&String::from_utf8_lossy(b), 600))),
                        }
                    }
                }
            }
        }
    }
    CaseResult {
        case_hash: hash64(&doc),
        nontrivial: viol.is_none(),
        outcome_hash: oh,
        executions: execs,
        violation: viol,
    }
}

pub fn run(tier: Tier) -> i32 {
    let mut rep = Report::new("C03", tier, "exploration");
    let cfgs = configs();
    rep.set("rule", json!("Bounded-exhaustive XML generation rooted at <svg xmlns=SVG>: (attrs) 20 element names (SVG and svgdx vocabulary) x 24 attribute atoms (svgdx-looking, namespaced, entity/char refs, quotes, unicode, blanks) singly and in ordered pairs, and on the root; (content) all sequences of <= 2 (thorough 4) content atoms from 12 text atoms, comments, CDATA, PI, empty and non-empty elements, directly in the root, inside <g> and inside <text>; (prolog) XML declaration x doctype x comments/PIs before and after the root x line-ending variants; every document under 16 configurations. (nested) every content sequence of <= 2 atoms inside a namespaced <svg> embedded at 5 positions of an svgdx document under 3 configurations. Oracle: the independent strict XML reader yields the same canonical event stream (names, attribute name->value maps, merged character data, comments, CDATA, PIs, in order) for input (sub)tree and output. Non-trivial = accepted, infoset equal and more than an empty root."));
    rep.set("also_later", json!("Rounds 3-5 added a declared-entities leg: real SVG whose namespace is an entity of its own DOCTYPE (also with the Adobe Illustrator header) is passed through byte for byte; an embedded namespaced <svg> using such an entity comes out with the replacement text. Round 7 (seed C03e) added 156 generated documents: a reference-like text inside a CDATA section / comment / processing instruction of an embedded namespaced <svg>, at every distance 0..12 from the end of the region and at its start, stays literal while a real reference next to it is replaced."));
    rep.set("also", json!("Also: embedded namespaced <svg> written as an empty element, with svgdx-looking attributes, in 9 embedding positions (first child, between shapes, in <g>, <loop>, fragment, after <defaults>, in <if>, <defs>, <a>); DOCTYPE with internal-subset entities referenced from the root start tag, child attributes and text; '<' inside comments / literals / PIs of the internal subset."));
    let a = space_attrs(tier);
    let st = run_space(a.len(), |i| check_doc(&a[i], "attrs", &cfgs));
    rep.sample(json!({"leg": "attrs", "doc": a[a.len() / 2]}));
    rep.absorb("attrs", st);
    let c = space_content(tier);
    let st = run_space(c.len(), |i| check_doc(&c[i], "content", &cfgs));
    rep.sample(json!({"leg": "content", "doc": c[c.len() / 3]}));
    rep.absorb("content", st);
    // (fourth review round) references to entities which the document's own DOCTYPE declares
    let edocs: Vec<(&str, String, Option<String>)> = vec![
        // (name, document, None = the output is the input byte for byte / Some(fragment the output must hold))
        ("namespace-by-entity", format!("<!DOCTYPE svg [<!ENTITY ns_svg \"{NS}\">]><svg xmlns=\"&ns_svg;\" width=\"5\"><rect wh=\"3\" class=\"b  a\"/></svg>"), None),
        ("namespace-by-entity/illustrator-header", format!("<?xml version=\"1.0\" encoding=\"utf-8\"?>\n<!DOCTYPE svg PUBLIC \"-//W3C//DTD SVG 1.1//EN\" \"http://www.w3.org/Graphics/SVG/1.1/DTD/svg11.dtd\" [\n\t<!ENTITY ns_svg \"{NS}\">\n\t<!ENTITY ns_xlink \"http://www.w3.org/1999/xlink\">\n]>\n<svg version=\"1.1\" xmlns=\"&ns_svg;\" xmlns:xlink=\"&ns_xlink;\" width=\"5\"><rect wh=\"3\"/></svg>\n"), None),
        // sixth review round
        ("real-svg/quote-entity-in-attribute", format!("<!DOCTYPE svg [<!ENTITY q '\"'>]><svg xmlns=\"{NS}\"><rect a=\"x&q;y\"/></svg>"), None),
        ("real-svg/long-entity-chain", format!("<!DOCTYPE svg [<!ENTITY e0 \"x\">{}]><svg xmlns=\"{NS}\"><text>&e20;</text></svg>", (1..=20).map(|i| format!("<!ENTITY e{i} \"&e{};\">", i - 1)).collect::<String>()), None),
        ("embedded/quote-entity-in-attribute", format!("<!DOCTYPE svg [<!ENTITY q '\"'>]><svg><svg xmlns=\"{NS}\"><rect a=\"x&q;y\"/></svg></svg>"), Some(format!("<svg xmlns=\"{NS}\"><rect a=\"x&quot;y\"/></svg>"))),
        ("embedded/character-reference-in-entity-value", format!("<!DOCTYPE svg [<!ENTITY lt \"&#38;#60;\">]><svg><svg xmlns=\"{NS}\"><text>a &lt; b</text></svg></svg>"), Some(format!("<svg xmlns=\"{NS}\"><text>a &#60; b</text></svg>"))),
        ("embedded/entity-after-pi-with-apostrophe", format!("<!DOCTYPE svg [<?pi it's ?><!ENTITY x \"right\">]><svg><svg xmlns=\"{NS}\"><text>&x;</text></svg></svg>"), Some(format!("<svg xmlns=\"{NS}\"><text>right</text></svg>"))),
        ("embedded/entity-declared-inside-pi-is-not-one", format!("<!DOCTYPE svg [<?pi <!ENTITY x \"WRONG\"> ?><!ENTITY x \"right\">]><svg><svg xmlns=\"{NS}\"><text>&x;</text></svg></svg>"), Some(format!("<svg xmlns=\"{NS}\"><text>right</text></svg>"))),
        ("embedded/entity-in-start-tag", format!("<!DOCTYPE svg [<!ENTITY w \"10\">]><svg><svg xmlns=\"{NS}\" width=\"&w;\"/></svg>"), Some(format!("<svg xmlns=\"{NS}\" width=\"10\"/>"))),
        ("embedded/entity-in-content", format!("<!DOCTYPE svg [<!ENTITY w \"10\">]><svg><svg xmlns=\"{NS}\"><rect width=\"&w;\"/><text>&w;</text></svg></svg>"), Some(format!("<svg xmlns=\"{NS}\"><rect width=\"10\"/><text>10</text></svg>"))),
    ];
    // seventh round (seed C03e): what looks like a reference inside a CDATA section, a comment or a processing instruction
    // of an embedded namespaced <svg> is literal text, wherever in the region it stands (0 .. 12 bytes before its end,
    // and at its very start), for entity names of 1 and 4 characters
    let mut edocs = edocs;
    for ename in ["c", "col4"] {
        for tail in 0..=12usize {
            for (kind, open, close) in [("cdata", "<![CDATA[", "]]>"), ("comment", "<!--", "-->"), ("pi", "<?pi ", "?>")] {
                for at_start in [false, true] {
                    let pad = "xyzxyzxyzxyz";
                    let region = if at_start { format!("{open}&{ename};{}{close}", &pad[..tail]) } else { format!("{open}.a{{fill:&{ename};{}{close}", &pad[..tail]) };
                    let name: &'static str = Box::leak(format!("embedded/literal-region/{kind}/{}{}", if at_start { "at-start-" } else { "" }, if tail < 10 { "near-end" } else { "inside" }).into_boxed_str());
                    edocs.push((
                        name,
                        format!("<!DOCTYPE svg [<!ENTITY {ename} \"red\">]><svg><rect wh=\"10\" fill=\"&{ename};\"/><svg xmlns=\"{NS}\"><style>{region}</style><rect fill=\"&{ename};\"/></svg></svg>"),
                        Some(format!("<style>{region}</style><rect fill=\"red\"/>")),
                    ));
                }
            }
        }
    }
    let st = run_space(edocs.len(), |i| {
        let (name, doc, want) = &edocs[i];
        let out = run_bytes(doc.as_bytes(), &Cfg::plain());
        let problem = match (&out, want) {
            (Outcome::Ok(b), None) if b == doc.as_bytes() => None,
            (Outcome::Ok(b), None) => Some(format!("not passed through as written: {}", clip(&String::from_utf8_lossy(b), 400))),
            (Outcome::Ok(b), Some(w)) if String::from_utf8_lossy(b).contains(w.as_str()) => None,
            (Outcome::Ok(b), Some(w)) => Some(format!("the output does not hold {w}: {}", clip(&String::from_utf8_lossy(b), 400))),
            (other, _) => Some(other.brief()),
        };
        CaseResult {
            case_hash: hash64(doc),
            nontrivial: problem.is_none(),
            outcome_hash: hash64(&format!("{out:?}")),
            executions: 1,
            violation: problem.map(|p| Violation { clause: "declared-entities".into(), signature: format!("C03/declared-entities/{name}"), case: json!({"leg": "declared-entities", "input": doc}), detail: format!("{doc}\n{p}") }),
        }
    });
    rep.absorb("declared-entities", st);
    let p = space_prolog();
    let st = run_space(p.len(), |i| check_doc(&p[i], "prolog", &cfgs));
    rep.sample(json!({"leg": "prolog", "doc": p[p.len() - 7]}));
    rep.absorb("prolog", st);
    // nested
    let atoms = content_atoms();
    let mut subs: Vec<String> = Vec::new();
    for x in &atoms {
        subs.push(wrap("", x));
        for y in &atoms {
            subs.push(wrap(" id=\"n\" width=\"10\"", &format!("{x}{y}")));
        }
    }
    for a in ATTRS {
        subs.push(wrap("", &format!("<rect {a}/>")));
        // attributes on the embedded <svg> start tag itself (never evaluated, whatever they look like)
        subs.push(wrap(&format!(" {a}"), "<rect/>"));
        if !a.starts_with("class=") {
            subs.push(wrap(&format!(" {a} width=\"{{{{width}}}}\" class=\"tpl {{{{kind}}}}\" data-e=\"{{{{1 +}}}} {{{{#missing~w}}}} $nope\""), "t"));
        }
        // the embedded <svg> written as an empty element
        subs.push(format!("<svg xmlns=\"{NS}\" {a}/>"));
        subs.push(format!("<svg {a} xmlns=\"{NS}\" width=\"5\" height=\"5\"/>"));
    }
    subs.push(format!("<svg xmlns=\"{NS}\"/>"));
    let st = run_space(subs.len() * 9, |i| check_nested(&subs[i / 9], i % 9));
    rep.sample(json!({"leg": "nested", "sub": subs[subs.len() / 2], "positions": 9}));
    rep.absorb("nested", st);
    rep.set("configurations", json!(cfgs.iter().map(|c| c.0.clone()).collect::<Vec<_>>()));
    rep.assume("no DTD processing: only predefined entities and character references occur; literal white space in attribute values is normalised by the reader on both sides (XML 3.3.3); character references to tab/newline are in the alphabet and must survive");
    rep.finish()
}

pub fn replay_case(case: &Value) -> Option<Violation> {
    let cfg = Cfg::from_json(&case["config"]);
    match case["leg"].as_str().unwrap_or("") {
        "nested" => check_nested(case["sub"].as_str()?, case["pos"].as_u64()? as usize).violation,
        leg => check_doc(case["input"].as_str()?, leg, &[("replay".to_string(), cfg)]).violation,
    }
}
