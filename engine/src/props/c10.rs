//! C10 — Forward references: geometry is independent of document order.
//!
//! Document order is the evaluation schedule of the retry loop, so every
//! reference DAG within the bound is rendered in ALL n! sibling orders and the
//! outcomes compared with one another (metamorphic oracle: no expected value):
//! same success/failure, and on success identical output per id.

use crate::common::*;
use crate::xmlref::{self, Mode};
use serde_json::{json, Value};
use std::collections::BTreeMap;

const ROOTS: &[(&str, &str)] = &[
    ("rect-xy-wh", r#"<rect id="ID" xy="10 20" wh="30 10"/>"#),
    ("rect-longhand", r#"<rect id="ID" x="10" y="20" width="30" height="10"/>"#),
    ("rect-nopos", r#"<rect id="ID" wh="30 10"/>"#),
    ("circle", r#"<circle id="ID" cxy="20 30" r="10"/>"#),
    ("ellipse-longhand", r#"<ellipse id="ID" cx="-7.25" cy="3" rx="8" ry="2.5"/>"#),
    ("line", r#"<line id="ID" xy1="10 20" xy2="40 30"/>"#),
];

/// forms referring to one target T
const FORMS1: &[(&str, &str)] = &[
    ("rect-h-gap-wh", r##"<rect id="ID" xy="#T|h 2" wh="4 6"/>"##),
    ("rect-v-longhand-size", r##"<rect id="ID" xy="#T|v" width="4" height="6"/>"##),
    ("rect-loc-br", r##"<rect id="ID" xy="#T@br" wh="4"/>"##),
    ("circle-cxy", r##"<circle id="ID" cxy="#T" r="3"/>"##),
    ("rect-wh-ref", r##"<rect id="ID" xy="1 2" wh="#T"/>"##),
    ("line-loc-scalar", r##"<line id="ID" xy1="#T@c" x2="#T~x2" y2="50"/>"##),
    ("rect-expr-scalar", r##"<rect id="ID" xy="3 4" wh="{{#T~w}} 5"/>"##),
    ("rect-surround", r##"<rect id="ID" surround="#T" margin="2"/>"##),
    ("rect-inside", r##"<rect id="ID" inside="#T"/>"##),
    ("connector-to-point", r##"<line id="ID" start="#T" end="100 100"/>"##),
    ("use", r##"<use id="ID" href="#T" x="5"/>"##),
    ("text-v", r##"<text id="ID" xy="#T|v" text="x"/>"##),
    ("circle-H-gap", r##"<circle id="ID" xy="#T|H 1" r="3"/>"##),
    ("ellipse-cxy-loc", r##"<ellipse id="ID" cxy="#T@t" rxy="3 2"/>"##),
    ("rect-h-relsize", r##"<rect id="ID" xy="#T|h" wh="#T 50%"/>"##),
    ("polyline-points", r##"<polyline id="ID" points="#T@tl #T@br 50 50"/>"##),
    ("rect-cxy-dxy", r##"<rect id="ID" cxy="#T@b" wh="4" dxy="1 2"/>"##),
    ("rect-xyloc", r##"<rect id="ID" xy="#T@tl" xy-loc="br" wh="4 2"/>"##),
    ("rect-peraxis", r##"<rect id="ID" x="#T@r 1" y2="#T@b" wh="4"/>"##),
    ("rect-dw", r##"<rect id="ID" xy="#T|V 1" wh="#T" dw="-2" dh="50%"/>"##),
];

/// forms referring to two targets T and U
const FORMS2: &[(&str, &str)] = &[
    ("connector", r##"<line id="ID" start="#T" end="#U"/>"##),
    ("connector-corner", r##"<polyline id="ID" start="#T@r" end="#U@t"/>"##),
    ("surround-2", r##"<rect id="ID" surround="#T #U"/>"##),
    ("mixed-axes", r##"<rect id="ID" x="#T@r" y="#U@b" wh="3"/>"##),
];

fn id_of(i: usize) -> String {
    ["a", "b", "c", "d", "e"][i].to_string()
}

#[derive(Clone, Debug)]
struct Node {
    /// element source with ID / T / U placeholders resolved
    src: String,
    label: String,
}

#[derive(Clone, Debug)]
struct Dag {
    nodes: Vec<Node>,
    /// Some(kind) if the DAG was made unsatisfiable on purpose
    unsat: Option<&'static str>,
}

fn subst(tpl: &str, id: usize, t: Option<usize>, u: Option<usize>) -> String {
    let mut s = tpl.replace("ID", &id_of(id));
    if let Some(t) = t {
        s = s.replace("#T", &format!("#{}", id_of(t)));
    }
    if let Some(u) = u {
        s = s.replace("#U", &format!("#{}", id_of(u)));
    }
    s
}

fn dags(tier: Tier, deep: bool) -> Vec<Dag> {
    let mut v = Vec::new();
    // n = 2 : root x form
    for (rn, r) in ROOTS {
        for (fname, f) in FORMS1 {
            v.push(Dag {
                nodes: vec![
                    Node { src: subst(r, 0, None, None), label: rn.to_string() },
                    Node { src: subst(f, 1, Some(0), None), label: fname.to_string() },
                ],
                unsat: None,
            });
        }
    }
    // n = 3 : root x form(->0) x form(->0|1), and two-target forms
    let root_sel: Vec<usize> = tier.pick(vec![0, 1, 3], (0..ROOTS.len()).collect());
    for &ri in &root_sel {
        let (rn, r) = ROOTS[ri];
        for (f1n, f1) in FORMS1 {
            for (f2n, f2) in FORMS1 {
                for t2 in [0usize, 1] {
                    v.push(Dag {
                        nodes: vec![
                            Node { src: subst(r, 0, None, None), label: rn.to_string() },
                            Node { src: subst(f1, 1, Some(0), None), label: f1n.to_string() },
                            Node { src: subst(f2, 2, Some(t2), None), label: format!("{f2n}->{}", id_of(t2)) },
                        ],
                        unsat: None,
                    });
                }
            }
            for (f2n, f2) in FORMS2 {
                v.push(Dag {
                    nodes: vec![
                        Node { src: subst(r, 0, None, None), label: rn.to_string() },
                        Node { src: subst(f1, 1, Some(0), None), label: f1n.to_string() },
                        Node { src: subst(f2, 2, Some(0), Some(1)), label: f2n.to_string() },
                    ],
                    unsat: None,
                });
            }
        }
    }
    // n = 4 chains and diamonds over a few forms
    let sel: Vec<usize> = if deep { (0..FORMS1.len()).collect() } else { tier.pick(vec![0, 1, 3, 7], vec![0, 1, 2, 3, 4, 7, 10, 12, 17]) };
    for &a in &sel {
        for &b in &sel {
            for &c in &sel {
                for shape in 0..3 {
                    // 0: chain 3->2->1->0 ; 1: star (all ->0) ; 2: diamond 1->0, 2->0, 3->(1 via T) with U... use chain on 2
                    let (t1, t2, t3) = match shape {
                        0 => (0, 1, 2),
                        1 => (0, 0, 0),
                        _ => (0, 0, 1),
                    };
                    v.push(Dag {
                        nodes: vec![
                            Node { src: subst(ROOTS[1].1, 0, None, None), label: ROOTS[1].0.to_string() },
                            Node { src: subst(FORMS1[a].1, 1, Some(t1), None), label: FORMS1[a].0.to_string() },
                            Node { src: subst(FORMS1[b].1, 2, Some(t2), None), label: FORMS1[b].0.to_string() },
                            Node { src: subst(FORMS1[c].1, 3, Some(t3), None), label: FORMS1[c].0.to_string() },
                        ],
                        unsat: None,
                    });
                }
            }
        }
    }
    if tier == Tier::Thorough {
        // n = 5 chains over 3 forms
        for &a in &[0usize, 1, 7] {
            for &b in &[0usize, 3, 7] {
                v.push(Dag {
                    nodes: vec![
                        Node { src: subst(ROOTS[0].1, 0, None, None), label: "root".into() },
                        Node { src: subst(FORMS1[a].1, 1, Some(0), None), label: FORMS1[a].0.into() },
                        Node { src: subst(FORMS1[b].1, 2, Some(1), None), label: FORMS1[b].0.into() },
                        Node { src: subst(FORMS1[a].1, 3, Some(2), None), label: FORMS1[a].0.into() },
                        Node { src: subst(FORMS1[b].1, 4, Some(3), None), label: FORMS1[b].0.into() },
                    ],
                    unsat: None,
                });
            }
        }
    }
    if deep {
        // n = 5 over 5 forms in every position x 4 shapes (chain, star, binary tree, comb): all 120 orders each
        let f5 = [0usize, 1, 3, 7, 12];
        for &a in &f5 {
            for &b in &f5 {
                for &c in &f5 {
                    for &d in &f5 {
                        for shape in 0..4 {
                            let (t1, t2, t3, t4) = match shape {
                                0 => (0, 1, 2, 3),
                                1 => (0, 0, 0, 0),
                                2 => (0, 0, 1, 1),
                                _ => (0, 1, 1, 3),
                            };
                            v.push(Dag {
                                nodes: vec![
                                    Node { src: subst(ROOTS[1].1, 0, None, None), label: ROOTS[1].0.to_string() },
                                    Node { src: subst(FORMS1[a].1, 1, Some(t1), None), label: FORMS1[a].0.into() },
                                    Node { src: subst(FORMS1[b].1, 2, Some(t2), None), label: FORMS1[b].0.into() },
                                    Node { src: subst(FORMS1[c].1, 3, Some(t3), None), label: FORMS1[c].0.into() },
                                    Node { src: subst(FORMS1[d].1, 4, Some(t4), None), label: FORMS1[d].0.into() },
                                ],
                                unsat: None,
                            });
                        }
                    }
                }
            }
        }
    }
    // scenarios with references that the single-target forms above cannot express: elements that are themselves
    // generated (reuse with an id), groups holding a forward reference, forward clip paths, references into and
    // out of a nested container, references to <specs> content
    let sc = |name: &str, nodes: &[&str], unsat: Option<&'static str>| Dag { nodes: nodes.iter().enumerate().map(|(i, n)| Node { src: n.to_string(), label: if i == 0 { name.to_string() } else { format!("n{i}") } }).collect(), unsat };
    v.push(sc("reuse-of-deferred-group-placed-by-size", &[r##"<g id="a"><rect xy="#b|h" wh="10"/></g>"##, r##"<rect id="b" wh="5"/>"##, r##"<reuse id="c" href="#a" cxy="50 50"/>"##], None));
    v.push(sc("reuse-of-deferred-group-placed-by-size", &[r##"<g id="a"><rect xy="#b|h" wh="10"/></g>"##, r##"<rect id="b" wh="5"/>"##, r##"<reuse id="c" href="#a" x2="50" y2="50"/>"##], None));
    v.push(sc("reference-to-deferred-group", &[r##"<g id="a"><rect xy="#b|h" wh="10"/></g>"##, r##"<rect id="b" wh="5"/>"##, r##"<rect id="c" xy="#a|v 2" wh="3"/>"##], None));
    v.push(sc("reference-to-deferred-reuse", &[r##"<rect id="a" wh="10"/>"##, r##"<reuse id="b" href="#a" xy="#d|h 5"/>"##, r##"<rect id="c" xy="#b|v" wh="4"/>"##, r##"<rect id="d" xy="100 100" wh="3"/>"##], None));
    v.push(sc("reference-to-deferred-reuse-abs", &[r##"<rect id="a" xy="#d|h" wh="10"/>"##, r##"<rect id="c" xy="#b|v" wh="4"/>"##, r##"<reuse id="b" href="#a" x="50" y="50"/>"##, r##"<rect id="d" wh="3"/>"##], None));
    v.push(sc("cycle-through-reuse", &[r##"<rect id="a" wh="10"/>"##, r##"<reuse id="b" href="#a" xy="#c|h 5"/>"##, r##"<rect id="c" xy="#b|v 5" wh="4"/>"##], Some("cycle-through-reuse")));
    v.push(sc("self-reference-of-reuse", &[r##"<rect id="a" wh="10"/>"##, r##"<reuse id="b" href="#a" xy="#b|h 5"/>"##], Some("self-reference-of-reuse")));
    v.push(sc("inside-forward-clipped", &[r##"<rect id="a" xy="0" wh="20" clip-path="url(#c)"/>"##, r##"<rect id="b" inside="#a"/>"##, r##"<clipPath id="c"><rect xy="0" wh="10"/></clipPath>"##], None));
    v.push(sc("beside-forward-clipped", &[r##"<rect id="a" xy="0" wh="20" clip-path="url(#c)"/>"##, r##"<rect id="b" xy="#a|h 1" wh="2"/>"##, r##"<clipPath id="c"><rect xy="0" wh="10"/></clipPath>"##], None));
    v.push(sc("reuse-of-forward-clipped-group", &[r##"<g id="a" clip-path="url(#b)"><rect wh="20"/></g>"##, r##"<clipPath id="b"><rect wh="10"/></clipPath>"##, r##"<reuse id="c" href="#a" x2="50" y2="50"/>"##], None));
    v.push(sc("cycle-through-clip-path", &[r##"<rect id="a" xy="0" wh="20" clip-path="url(#b)"/>"##, r##"<clipPath id="b"><rect inside="#a"/></clipPath>"##], Some("cycle-through-clip-path")));
    for (open, close) in [("<g>", "</g>"), ("<if test=\"1\">", "</if>"), ("<loop count=\"1\">", "</loop>"), ("<a href=\"x\">", "</a>"), ("<g id=\"k\" transform=\"translate(1)\">", "</g>")] {
        let inner = format!("{open}<rect id=\"i\" xy=\"#c|h\" wh=\"5\"/><rect id=\"j\" xy=\"#a|v\" wh=\"5\"/>{close}");
        v.push(sc("nested-progress-3", &[r##"<rect id="a" xy="#i|h" wh="5"/>"##, &inner, r##"<rect id="c" wh="5"/>"##], None));
        let inner2 = format!("{open}<rect id=\"i\" wh=\"5\"/><rect id=\"j\" xy=\"#a|v\" wh=\"5\"/>{close}");
        v.push(sc("nested-progress-2", &[r##"<rect id="a" xy="#i|h" wh="5"/>"##, &inner2], None));
    }
    v.push(sc("reference-to-specs-content", &[r##"<specs><rect id="t" xy="#c|h" wh="5"/></specs>"##, r##"<rect id="c" wh="3"/>"##, r##"<rect id="b" xy="#t|v" wh="2"/>"##], None));
    v.push(sc("reuse-of-specs-content", &[r##"<specs><rect id="t" xy="#c|h" wh="5"/></specs>"##, r##"<rect id="c" wh="3"/>"##, r##"<reuse id="b" href="#t"/>"##], None));
    // unsatisfiable variants (n = 3): unknown id, cycle, target without bounding box
    for (f1n, f1) in FORMS1 {
        for (f2n, f2) in FORMS1 {
            let r = ROOTS[0].1;
            // unknown id in the last node
            v.push(Dag {
                nodes: vec![
                    Node { src: subst(r, 0, None, None), label: "root".into() },
                    Node { src: subst(f1, 1, Some(0), None), label: f1n.to_string() },
                    Node { src: subst(f2, 2, Some(0), None).replace("#a", "#nope"), label: format!("{f2n}->#nope") },
                ],
                unsat: Some("unknown-id"),
            });
            // cycle: b -> c, c -> b (a is an innocent bystander)
            v.push(Dag {
                nodes: vec![
                    Node { src: subst(r, 0, None, None), label: "root".into() },
                    Node { src: subst(f1, 1, Some(2), None), label: format!("{f1n}->c") },
                    Node { src: subst(f2, 2, Some(1), None), label: format!("{f2n}->b") },
                ],
                unsat: Some("cycle"),
            });
        }
        // self reference
        v.push(Dag {
            nodes: vec![
                Node { src: subst(ROOTS[0].1, 0, None, None), label: "root".into() },
                Node { src: subst(f1, 1, Some(1), None), label: format!("{f1n}->self") },
            ],
            unsat: Some("self-reference"),
        });
        // target without a bounding box
        for (tn, t) in [
            ("empty-g", r#"<g id="a"/>"#),
            ("defs", r#"<defs id="a"><rect wh="3"/></defs>"#),
            ("unitful-rect", r#"<rect id="a" width="5cm" height="2cm"/>"#),
            ("rect-without-size", r#"<rect id="a" xy="1 2"/>"#),
        ] {
            if *f1n == "use" {
                continue; // <use href> only needs the id to exist, not a bounding box
            }
            v.push(Dag {
                nodes: vec![
                    Node { src: t.to_string(), label: tn.to_string() },
                    Node { src: subst(f1, 1, Some(0), None), label: f1n.to_string() },
                ],
                unsat: Some("target-without-bbox"),
            });
        }
    }
    v
}

fn permutations(n: usize) -> Vec<Vec<usize>> {
    fn rec(cur: &mut Vec<usize>, used: &mut Vec<bool>, n: usize, out: &mut Vec<Vec<usize>>) {
        if cur.len() == n {
            out.push(cur.clone());
            return;
        }
        for i in 0..n {
            if !used[i] {
                used[i] = true;
                cur.push(i);
                rec(cur, used, n, out);
                cur.pop();
                used[i] = false;
            }
        }
    }
    let mut out = Vec::new();
    rec(&mut Vec::new(), &mut vec![false; n], n, &mut out);
    out
}

fn document(d: &Dag, order: &[usize], nested: bool) -> String {
    let mut s = String::from("<svg>");
    for (k, i) in order.iter().enumerate() {
        if nested && k == 0 {
            s.push_str("<g id=\"grp\">");
        }
        s.push_str(&d.nodes[*i].src);
        if nested && k == 0 {
            s.push_str("</g>");
        }
    }
    s.push_str("</svg>");
    s
}

/// id -> (element name, sorted attributes, text, child signature); plus the root's size attributes
type Geometry = BTreeMap<String, String>;

fn geometry(out: &[u8]) -> Result<Geometry, String> {
    let tree = xmlref::parse_tree(out, Mode::Document).map_err(|e| e.to_string())?;
    let root = xmlref::root(&tree).ok_or("no root")?;
    let mut g = Geometry::new();
    g.insert(
        "<root>".into(),
        format!("{:?} {:?} {:?}", root.attr("viewBox"), root.attr("width"), root.attr("height")),
    );
    let all = root.descendants();
    for (idx, e) in all.iter().enumerate() {
        if let Some(id) = e.attr("id") {
            if id == "grp" {
                continue;
            }
            let mut a = e.attrs.clone();
            a.sort();
            // a shape's generated text directly follows it
            let follow = all.get(idx + 1).filter(|n| n.name == "text" && n.attr("id").is_none()).map(|n| {
                let mut a = n.attrs.clone();
                a.sort();
                format!("{a:?}{}", n.text())
            });
            g.insert(id.to_string(), format!("{} {a:?} {:?} {follow:?}", e.name, e.text()));
        }
    }
    Ok(g)
}

fn check(d: &Dag, nested: bool, tight: bool) -> CaseResult {
    let n = d.nodes.len();
    let perms = permutations(n);
    // the second configuration leaves just enough nesting depth for the document itself, so that
    // anything a failed attempt leaves behind (depth, scopes) turns into an order-dependent failure
    let cfg = if tight { Cfg { depth_limit: 6, ..Cfg::plain() } } else { Cfg::plain() };
    let labels: Vec<&str> = d.nodes.iter().map(|x| x.label.as_str()).collect();
    let sig_base = format!("{}{}{}", labels.join(","), if nested { "/nested" } else { "" }, if tight { "/depth-limit-6" } else { "" });
    let mut results: Vec<(Vec<usize>, String, Outcome, Option<Geometry>)> = Vec::new();
    let mut viol: Option<Violation> = None;
    for p in &perms {
        let doc = document(d, p, nested);
        let out = run_str(&doc, &cfg);
        let geo = match &out {
            Outcome::Ok(b) => geometry(b).ok(),
            _ => None,
        };
        results.push((p.clone(), doc, out, geo));
    }
    let case = |doc: &str, other: &str| json!({"input": doc, "other_order": other, "labels": labels, "unsat": d.unsat, "nested": nested, "tight": tight, "nodes": d.nodes.iter().map(|n| n.src.clone()).collect::<Vec<_>>()});
    let mut mk = |clause: &str, doc: &str, other: &str, detail: String| {
        if viol.is_none() {
            viol = Some(Violation { clause: clause.into(), signature: format!("C10/{clause}/{sig_base}"), case: case(doc, other), detail });
        }
    };
    for (_, doc, out, _) in &results {
        if let Outcome::Panic(p) = out {
            mk("panic", doc, "", p.clone());
        }
    }
    if let Some(kind) = d.unsat {
        for (_, doc, out, _) in &results {
            if let Outcome::Ok(b) = out {
                mk(
                    "unsatisfiable-reference-accepted",
                    doc,
                    "",
                    format!("the reference is unsatisfiable ({kind}) yet the transform succeeded:\n{}", clip(&String::from_utf8_lossy(b), 600)),
                );
            }
        }
    } else {
        // reference order for comparison: definition order (every reference points backwards)
        let (_, doc0, out0, geo0) = &results[0];
        for (_, doc, out, geo) in &results[1..] {
            match (out0, out) {
                (Outcome::Ok(_), Outcome::Ok(b)) => match (geo0, geo) {
                    (Some(g0), Some(g1)) => {
                        if g0 != g1 {
                            let diff: Vec<String> = g0
                                .iter()
                                .filter(|(k, v)| g1.get(*k) != Some(v))
                                .map(|(k, v)| format!("  {k}: backward-reference order {v}\n  {k}: this order               {}", g1.get(k).cloned().unwrap_or("(missing)".into())))
                                .collect();
                            mk("geometry-depends-on-order", doc, doc0, format!("order A (all references backward): {doc0}\norder B: {doc}\n{}", diff.join("\n")));
                        }
                    }
                    _ => mk("unparsable-output", doc, doc0, clip(&String::from_utf8_lossy(b), 400)),
                },
                (Outcome::Ok(_), Outcome::Err(e)) => mk("order-dependent-failure", doc, doc0, format!("succeeds when written as {doc0}\nfails when written as    {doc}\n{}", clip(e, 300))),
                (Outcome::Err(e), Outcome::Ok(_)) => mk("order-dependent-failure", doc0, doc, format!("fails when written as    {doc0} ({})\nsucceeds when written as {doc}", clip(e, 200))),
                _ => {}
            }
        }
        // (a DAG that fails in every order - e.g. `inside` a <use> - is consistent; it is counted as trivial)
        // no unresolved reference may leak into geometry
        for (_, doc, out, _) in &results {
            if let Outcome::Ok(b) = out {
                let s = String::from_utf8_lossy(b);
                for a in ["x=\"#", "y=\"#", "cx=\"#", "cy=\"#", "width=\"#", "height=\"#", "x1=\"#", "x2=\"#", "y1=\"#", "y2=\"#", "points=\"#", "r=\"#"] {
                    if s.contains(a) {
                        mk("unresolved-reference-in-output", doc, "", clip(&s, 500));
                    }
                }
            }
        }
    }
    let all_ok = results.iter().all(|r| r.2.is_ok());
    CaseResult {
        case_hash: hash64(&(d.nodes.iter().map(|n| n.src.clone()).collect::<Vec<_>>(), nested, tight)),
        nontrivial: viol.is_none() && (all_ok || d.unsat.is_some()),
        outcome_hash: hash64(&results.iter().map(|r| format!("{:?}", r.3)).collect::<Vec<_>>()),
        executions: results.len() as u64,
        violation: viol,
    }
}

pub fn run(tier: Tier) -> i32 {
    let mut rep = Report::new("C10", tier, "model_checking");
    // the quick tier explores what used to be the thorough space (it takes seconds); `deep` adds the wider bounds
    #[allow(unused_variables)]
    let deep = tier == Tier::Thorough;
    let tier = Tier::Thorough;
    let ds = dags(tier, deep);
    rep.set("rule", json!("Reference DAGs on n = 2..4 labelled sibling elements (thorough tier: chains/stars/diamonds of 4 over ALL forms in every position, and n = 5 chains, stars, binary trees and combs over 5 forms in every position, all 120 orders each): every root spelling (xy+wh, longhand, no position, circle, ellipse, line) x every single-target reference form (20: |h/|v/|H/|V with gap, @loc, cxy, wh=#t, scalar refs, expression scalar, surround, inside, connector, use, text, relative size, points, dxy, xy-loc, per-axis, dw/dh) x every second form and target, two-target forms (connectors, surround of two, mixed axes), chains/stars/diamonds of 4, each rendered in ALL n! document orders (the schedules of the retry loop), plain and with the first element wrapped in <g>, under the default limits and under depth-limit 6 (just enough for the document, so residue of failed attempts becomes visible). State = (DAG, order); transition = one execution. Invariant: all orders agree on success, and on success every id has identical output (element name, all attributes, generated text) and the root extent is identical. Unsatisfiable variants (unknown id, 2-cycle, self reference, target without bounding box: empty g, defs, unitful rect, rect without size) must fail in every order. Non-trivial = all orders Ok (or an unsatisfiable variant failing everywhere)."));
    rep.set("also_later", json!("Round 5 added pairs: a reference inside an id attribute (known and unknown), '^' after an <if> whose last element waited."));
    rep.set("also", json!("Also 20 scenario documents in all orders: <reuse id=..> as a reference target (relative, absolute, in a cycle, self-referencing), groups holding a forward reference as targets of references and of <reuse> placed by size, forward clip paths (shape, group, cycle), references into and out of a nested container (<g>, <if>, <loop>, <a>, transformed <g>), references to and reuse of <specs> content."));
    let st = run_space(ds.len() * 4, |i| check(&ds[i / 4], i % 2 == 1, (i / 2) % 2 == 1));
    rep.set("states", json!(st.evaluations));
    rep.set("transitions", json!(st.evaluations));
    rep.set("traces_validated_against_impl", json!(st.evaluations));
    rep.set("dags", json!(ds.len()));
    for i in [ds.len() / 5, ds.len() / 2, ds.len() - 2] {
        rep.sample(json!({"nodes": ds[i].nodes.iter().map(|n| n.src.clone()).collect::<Vec<_>>(), "unsat": ds[i].unsat, "orders": permutations(ds[i].nodes.len()).len()}));
    }
    rep.absorb("orders", st);
    // second review round: pairs of documents in which only an id-referenced element is moved; every element carries
    // a data-k key and the geometry attributes per key must agree (or both documents must fail)
    let pairs: Vec<(&str, &str, &str)> = vec![
        ("prev-after-deferred/follower", r##"<svg><rect data-k="z" wh="1"/><rect data-k="a" id="a" xy="#b|h" wh="5"/><rect data-k="e" xy="^|v" wh="3"/><rect data-k="b" id="b" xy="20 20" wh="4"/></svg>"##,
            r##"<svg><rect data-k="b" id="b" xy="20 20" wh="4"/><rect data-k="z" wh="1"/><rect data-k="a" id="a" xy="#b|h" wh="5"/><rect data-k="e" xy="^|v" wh="3"/></svg>"##),
        ("prev-after-deferred/self", r##"<svg><rect data-k="z" xy="5 5" wh="10"/><rect data-k="e" xy="^|h" wh="#b"/><rect data-k="b" id="b" xy="50 50" wh="4"/></svg>"##,
            r##"<svg><rect data-k="b" id="b" xy="50 50" wh="4"/><rect data-k="z" xy="5 5" wh="10"/><rect data-k="e" xy="^|h" wh="#b"/></svg>"##),
        // fifth review round
        ("reference-inside-id", r##"<svg><rect data-k="a" id="a{{#z~w}}" wh="5"/><rect data-k="z" id="z" wh="3"/><rect data-k="p" xy="#a3|h 1" wh="1"/></svg>"##,
            r##"<svg><rect data-k="z" id="z" wh="3"/><rect data-k="a" id="a{{#z~w}}" wh="5"/><rect data-k="p" xy="#a3|h 1" wh="1"/></svg>"##),
        ("reference-inside-id/unknown", r##"<svg><rect data-k="a" id="a{{#nope~w}}" wh="5"/></svg>"##,
            r##"<svg><rect data-k="a" id="a{{#nope~w}}" wh="5"/><rect data-k="z" wh="3"/></svg>"##),
        ("prev-after-deferred/last-in-if", r##"<svg><if test="1"><rect data-k="a" id="a" xy="#b|h" wh="3"/><rect data-k="b" id="b" xy="10 10" wh="5"/><rect data-k="l" id="l" xy="#a|v 20" wh="4"/></if><rect data-k="n" xy="^|h 1" wh="2"/></svg>"##,
            r##"<svg><if test="1"><rect data-k="b" id="b" xy="10 10" wh="5"/><rect data-k="a" id="a" xy="#b|h" wh="3"/><rect data-k="l" id="l" xy="#a|v 20" wh="4"/></if><rect data-k="n" xy="^|h 1" wh="2"/></svg>"##),
        ("deferred-state/variable", r##"<svg><var k="1"/><rect data-k="a" id="a" xy="#b|h" wh="$k"/><var k="2"/><rect data-k="b" id="b" wh="5"/></svg>"##,
            r##"<svg><rect data-k="b" id="b" wh="5"/><var k="1"/><rect data-k="a" id="a" xy="#b|h" wh="$k"/><var k="2"/></svg>"##),
        ("deferred-state/defaults", r##"<svg><rect data-k="a" id="a" xy="#b|h"/><defaults><rect wh="7"/></defaults><rect data-k="b" id="b" wh="5"/></svg>"##,
            r##"<svg><rect data-k="b" id="b" wh="5"/><rect data-k="a" id="a" xy="#b|h"/><defaults><rect wh="7"/></defaults></svg>"##),
        ("deferred-side-effects/while-loop", r##"<svg><var n="0"/><loop while="lt($n, 3)"><var n="{{$n+1}}"/><rect data-k="r$n" xy="#b|h $n" wh="2"/></loop><rect data-k="b" id="b" wh="5"/></svg>"##,
            r##"<svg><rect data-k="b" id="b" wh="5"/><var n="0"/><loop while="lt($n, 3)"><var n="{{$n+1}}"/><rect data-k="r$n" xy="#b|h $n" wh="2"/></loop></svg>"##),
        ("deferred-side-effects/random", r##"<svg><rect data-k="a" id="a" xy="#b|h" wh="{{randint(1,100)}}"/><rect data-k="b" id="b" wh="5"/></svg>"##,
            r##"<svg><rect data-k="b" id="b" wh="5"/><rect data-k="a" id="a" xy="#b|h" wh="{{randint(1,100)}}"/></svg>"##),
        ("computed-id-progress/loop", r##"<svg><g><rect data-k="b" id="b" xy="#a1|h" wh="2"/></g><g><rect data-k="c" xy="#b|v" wh="2"/><loop count="2" loop-var="i"><rect data-k="a$i" id="a$i" xy="{{$i * 5}} 0" wh="2"/></loop></g></svg>"##,
            r##"<svg><g><rect data-k="c" xy="#b|v" wh="2"/><loop count="2" loop-var="i"><rect data-k="a$i" id="a$i" xy="{{$i * 5}} 0" wh="2"/></loop></g><g><rect data-k="b" id="b" xy="#a1|h" wh="2"/></g></svg>"##),
        ("computed-id-progress/expression", r##"<svg><g><rect data-k="b" id="b" xy="#a1|h" wh="2"/></g><g><rect data-k="c" xy="#b|v" wh="2"/><rect data-k="a" id="a{{1}}" xy="5 0" wh="2"/></g></svg>"##,
            r##"<svg><g><rect data-k="c" xy="#b|v" wh="2"/><rect data-k="a" id="a{{1}}" xy="5 0" wh="2"/></g><g><rect data-k="b" id="b" xy="#a1|h" wh="2"/></g></svg>"##),
        // third review round
        ("computed-id-progress/alternating-chain", r##"<svg><rect data-k="k" id="k-1" wh="1"/><g><loop count="5" loop-var="i"><rect data-k="a$i" id="a$i" xy="#k{{$i - 1}}|h" wh="2"/></loop></g><g><loop count="5" loop-var="i"><rect data-k="k$i" id="k$i" xy="#a$i|v" wh="2"/></loop></g></svg>"##,
            r##"<svg><rect data-k="k" id="k-1" wh="1"/><g><loop count="5" loop-var="i"><rect data-k="k$i" id="k$i" xy="#a$i|v" wh="2"/></loop></g><g><loop count="5" loop-var="i"><rect data-k="a$i" id="a$i" xy="#k{{$i - 1}}|h" wh="2"/></loop></g></svg>"##),
        ("computed-id-in-own-scope/id-expression", r##"<svg><var n="1"/><rect data-k="r" id="r{{$n + #z~w}}" wh="1"/><var n="5"/><rect data-k="z" id="z" wh="1"/><rect data-k="probe" xy="#r2|h" wh="1"/></svg>"##,
            r##"<svg><rect data-k="z" id="z" wh="1"/><var n="1"/><rect data-k="r" id="r{{$n + #z~w}}" wh="1"/><var n="5"/><rect data-k="probe" xy="#r2|h" wh="1"/></svg>"##),
        ("deferred-random-partial/reference-before-draw", r##"<svg><rect data-k="a" id="a" wh="{{#z~w + randint(1,100)}}"/><rect data-k="n" xy="0 120" wh="{{randint(1,100)}}"/><rect data-k="z" id="z" xy="200 10" wh="6"/></svg>"##,
            r##"<svg><rect data-k="z" id="z" xy="200 10" wh="6"/><rect data-k="a" id="a" wh="{{#z~w + randint(1,100)}}"/><rect data-k="n" xy="0 120" wh="{{randint(1,100)}}"/></svg>"##),
        ("deferred-assignment/var-by-reference", r##"<svg><var w="1"/><var w="{{#b~w}}"/><rect data-k="r" wh="$w"/><rect data-k="b" id="b" xy="20 0" wh="7"/></svg>"##,
            r##"<svg><rect data-k="b" id="b" xy="20 0" wh="7"/><var w="1"/><var w="{{#b~w}}"/><rect data-k="r" wh="$w"/></svg>"##),
        ("literal-id-control", r##"<svg><g><rect data-k="b" id="b" xy="#a1|h" wh="2"/></g><g><rect data-k="c" xy="#b|v" wh="2"/><rect data-k="a" id="a1" xy="5 0" wh="2"/></g></svg>"##,
            r##"<svg><g><rect data-k="c" xy="#b|v" wh="2"/><rect data-k="a" id="a1" xy="5 0" wh="2"/></g><g><rect data-k="b" id="b" xy="#a1|h" wh="2"/></g></svg>"##),
    ];
    let st = run_space(pairs.len(), |i| {
        let (name, a, b) = pairs[i];
        let geom = |d: &str| -> Result<BTreeMap<String, Vec<(String, String)>>, String> {
            match run_str(d, &Cfg::plain()) {
                Outcome::Ok(o) => {
                    let tree = xmlref::parse_tree(&o, Mode::Document).map_err(|e| e.to_string())?;
                    let mut m = BTreeMap::new();
                    if let Some(r) = xmlref::root(&tree) {
                        for e in r.descendants() {
                            if let Some(k) = e.attr("data-k") {
                                let mut at: Vec<(String, String)> = e.attrs.iter().filter(|(n, _)| matches!(n.as_str(), "x" | "y" | "width" | "height" | "cx" | "cy" | "r")).cloned().collect();
                                at.sort();
                                m.entry(k.to_string()).or_insert(at);
                            }
                        }
                    }
                    Ok(m)
                }
                other => Err(other.brief()),
            }
        };
        let (ga, gb) = (geom(a), geom(b));
        let ok = match (&ga, &gb) {
            (Ok(x), Ok(y)) => x == y,
            (Err(_), Err(_)) => true,
            _ => false,
        };
        CaseResult {
            case_hash: hash64(&a),
            nontrivial: ok && ga.is_ok(),
            outcome_hash: hash64(&format!("{ga:?}")),
            executions: 2,
            violation: if ok { None } else { Some(Violation { clause: "geometry-depends-on-order".into(), signature: format!("C10/pair/{name}"), case: json!({"input": a, "other_order": b}), detail: format!("reference written later:  {a}\n  -> {ga:?}\nreference written first: {b}\n  -> {gb:?}") }) },
        }
    });
    rep.absorb("order-pairs", st);
    rep.assume("'^' (previous element) is order-dependent by design and not used; documents are side-effect free (no variables)");
    rep.finish()
}

pub fn replay_case(case: &Value) -> Option<Violation> {
    let nodes: Vec<Node> = case["nodes"].as_array()?.iter().map(|n| Node { src: n.as_str().unwrap_or("").to_string(), label: String::new() }).collect();
    let labels: Vec<String> = case["labels"].as_array()?.iter().map(|l| l.as_str().unwrap_or("").to_string()).collect();
    let nodes: Vec<Node> = nodes.into_iter().zip(labels).map(|(mut n, l)| { n.label = l; n }).collect();
    let unsat = match case["unsat"].as_str() {
        Some("unknown-id") => Some("unknown-id"),
        Some("cycle") => Some("cycle"),
        Some("self-reference") => Some("self-reference"),
        Some("target-without-bbox") => Some("target-without-bbox"),
        _ => None,
    };
    check(&Dag { nodes, unsat }, case["nested"].as_bool().unwrap_or(false), case["tight"].as_bool().unwrap_or(false)).violation
}
