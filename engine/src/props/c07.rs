//! C07 — Front-ends agree, transforms are isolated, and failures leave no damage.
//!
//! (1) agreement of library string/stream, CLI (4 I/O forms) and server;
//! (2) histories: BFS over request sequences against one process (library, live
//!     server): every response equals the solo response;
//! (3) schedules: a controlled scheduler over REAL OS threads (scheduling points
//!     = the feature-gated sched_point hook) explores every interleaving of
//!     concurrent transforms up to a preemption bound: each result equals the
//!     solo result;
//! (4) no damage: failing documents x pre-existing output states; same-file
//!     refusal in every spelling.

use crate::common::*;
use crate::props::c01::{Server, SERVER_BIN, SVGDX_BIN};
use serde_json::{json, Value};
use std::io::{Read, Write};
use std::process::{Command, Stdio};
use std::sync::mpsc::{channel, Receiver, Sender};
use std::sync::Arc;
use std::time::{Duration, Instant};

// ------------------------------------------------------------------ documents

fn documents() -> Vec<(&'static str, Vec<u8>)> {
    vec![
        ("rect-text", b"<svg>\n  <rect wh=\"20 10\" text=\"Hello &amp; bye\"/>\n</svg>\n".to_vec()),
        ("random", b"<svg><rect wh=\"{{randint(1, 100)}}\" text=\"{{random()}}\"/></svg>".to_vec()),
        ("relative", b"<svg><rect id=\"a\" wh=\"5\"/><circle xy=\"#a|h 3\" r=\"2\"/><line start=\"#a\" end=\"^\" class=\"d-arrow\"/></svg>".to_vec()),
        ("styles", b"<svg><rect wh=\"9\" class=\"d-grid-5 d-grid-7 d-softshadow d-fill-red\" text=\"p\"/></svg>".to_vec()),
        ("loop-reuse", b"<svg><specs><rect id=\"t\" wh=\"$s\"/></specs><loop count=\"3\" loop-var=\"i\"><reuse href=\"#t\" s=\"{{$i + 1}}\" x=\"{{$i * 5}}\"/></loop></svg>".to_vec()),
        ("forward-ref", b"<svg><rect xy=\"#z|v 1\" wh=\"3\"/><rect id=\"z\" wh=\"6 2\"/></svg>".to_vec()),
        ("fragment", b"<rect wh=\"5\"/><text xy=\"^|h\" text=\"t\"/>".to_vec()),
        ("real-svg", b"<?xml version=\"1.0\"?>\n<svg xmlns=\"http://www.w3.org/2000/svg\" width=\"5\"><text>a &amp; b</text></svg>\n".to_vec()),
        ("config-element", b"<svg><config border=\"11\" theme=\"dark\" seed=\"9\"/><rect wh=\"{{randint(1,9)}}\" class=\"d-red\"/></svg>".to_vec()),
        ("crlf", b"<svg>\r\n  <rect wh=\"5\"/>\r\n</svg>\r\n".to_vec()),
        ("bom", b"\xEF\xBB\xBF<svg><rect wh=\"5\"/></svg>".to_vec()),
        ("unicode", "<svg><rect wh=\"30 10\" text=\"é😀 — ünï\"/></svg>".as_bytes().to_vec()),
        ("multiline", b"<svg>\n\n  <rect wh=\"20\" text=\"l1\\nl2\"/>   \n\n</svg>".to_vec()),
        ("comments", b"<!-- pre --><svg><!-- in --><rect wh=\"5\" _=\"note -- here\"/></svg>".to_vec()),
        ("local-styles", b"<svg><config use-local-styles=\"true\"/><rect wh=\"5\" class=\"d-red\"/></svg>".to_vec()),
        // failing documents
        ("fail-expr", b"<svg><rect wh=\"{{1+}}\"/></svg>".to_vec()),
        ("fail-ref", b"<svg><rect xy=\"#nope|h\" wh=\"5\"/></svg>".to_vec()),
        ("fail-xml", b"<svg><rect wh=\"5\"></svg>".to_vec()),
        ("fail-cycle", b"<svg><rect id=\"a\" xy=\"#b|h\" wh=\"1\"/><rect id=\"b\" xy=\"#a|h\" wh=\"1\"/></svg>".to_vec()),
        ("fail-limit", b"<svg><loop count=\"5000\"><rect wh=\"1\"/></loop></svg>".to_vec()),
        ("fail-config", b"<svg><config nosuch=\"1\"/></svg>".to_vec()),
        ("fail-utf8", b"<svg><text>\xFF</text></svg>".to_vec()),
        ("fail-path", b"<svg><path d=\"M0 0 z 5\"/></svg>".to_vec()),
        ("fail-ns", b"<svg xmlns=\"http://example.com/x\"><rect wh=\"1\"/></svg>".to_vec()),
        // failing late: content precedes the root whose attributes cannot be built
        ("fail-late-ns", b"<!-- hello -->\n<svg xmlns=\"http://example.com/x\"><rect wh=\"5\"/></svg>".to_vec()),
        ("fail-late-width", b"<!-- c --><?pi x?>\n<svg width=\"abc\"><rect wh=\"5\"/></svg>".to_vec()),
        // empty output
        ("empty", b"".to_vec()),
        ("only-var", b"<var a=\"1\"/>".to_vec()),
    ]
}

fn cli_configs() -> Vec<(&'static str, Cfg, Vec<String>)> {
    let d = Cfg::default();
    let s = |v: &[&str]| v.iter().map(|x| x.to_string()).collect::<Vec<_>>();
    vec![
        ("default", d.clone(), vec![]),
        ("debug+metadata", Cfg { debug: true, add_metadata: true, ..d.clone() }, s(&["--debug", "--add-metadata"])),
        ("scale-border", Cfg { scale: 2.5, border: 13, ..d.clone() }, s(&["--scale", "2.5", "--border", "13"])),
        ("no-auto-styles", Cfg { add_auto_styles: false, ..d.clone() }, s(&["--no-auto-styles"])),
        ("seed-theme", Cfg { seed: 4294967297, theme: "dark".into(), ..d.clone() }, s(&["--seed", "4294967297", "--theme", "dark"])),
        ("strings", Cfg { background: "rgb(1,2,3)".into(), font_family: "A \"B\" & C".into(), font_size: 4.5, svg_style: Some("margin: 1px".into()), ..d.clone() }, s(&["--background", "rgb(1,2,3)", "--font-family", "A \"B\" & C", "--font-size", "4.5", "--svg-style", "margin: 1px"])),
        ("limits", Cfg { loop_limit: 2, var_limit: 3, depth_limit: 4, ..d.clone() }, s(&["--loop-limit", "2", "--var-limit", "3", "--depth-limit", "4"])),
    ]
}

struct CliOut {
    code: Option<i32>,
    stdout: Vec<u8>,
    stderr: Vec<u8>,
}

fn run_cmd(args: &[String], stdin: Option<&[u8]>, cwd: &std::path::Path) -> Result<CliOut, String> {
    let mut child = Command::new(SVGDX_BIN).args(args).current_dir(cwd).stdin(Stdio::piped()).stdout(Stdio::piped()).stderr(Stdio::piped()).spawn().map_err(|e| e.to_string())?;
    let mut si = child.stdin.take().unwrap();
    let data = stdin.map(|d| d.to_vec());
    let tw = std::thread::spawn(move || {
        if let Some(d) = data {
            let _ = si.write_all(&d);
        }
    });
    let mut so = child.stdout.take().unwrap();
    let mut se = child.stderr.take().unwrap();
    let t1 = std::thread::spawn(move || {
        let mut b = Vec::new();
        let _ = so.read_to_end(&mut b);
        b
    });
    let t2 = std::thread::spawn(move || {
        let mut b = Vec::new();
        let _ = se.read_to_end(&mut b);
        b
    });
    let start = Instant::now();
    let status = loop {
        match child.try_wait() {
            Ok(Some(s)) => break s,
            Ok(None) => {
                if start.elapsed() > Duration::from_secs(20) {
                    let _ = child.kill();
                    let _ = child.wait();
                    return Err("svgdx command did not exit within 20s".into());
                }
                std::thread::sleep(Duration::from_millis(3));
            }
            Err(e) => return Err(e.to_string()),
        }
    };
    let _ = tw.join();
    Ok(CliOut { code: status.code(), stdout: t1.join().unwrap_or_default(), stderr: t2.join().unwrap_or_default() })
}

fn http(port: u16, path: &str, body: &[u8]) -> Result<(u16, String, Vec<u8>), String> {
    let mut s = std::net::TcpStream::connect(("127.0.0.1", port)).map_err(|e| format!("connect: {e}"))?;
    s.set_read_timeout(Some(Duration::from_secs(20))).ok();
    let head = format!("POST {path} HTTP/1.1\r\nHost: localhost\r\nContent-Type: text/plain\r\nContent-Length: {}\r\nConnection: close\r\n\r\n", body.len());
    s.write_all(head.as_bytes()).map_err(|e| e.to_string())?;
    s.write_all(body).map_err(|e| e.to_string())?;
    let mut resp = Vec::new();
    s.read_to_end(&mut resp).map_err(|e| e.to_string())?;
    let at = resp.windows(4).position(|w| w == b"\r\n\r\n").ok_or("no header end")?;
    let head = String::from_utf8_lossy(&resp[..at]).to_string();
    let status: u16 = head.split(' ').nth(1).and_then(|c| c.parse().ok()).ok_or("bad status")?;
    let ctype = head.lines().find(|l| l.to_ascii_lowercase().starts_with("content-type:")).map(|l| l[13..].trim().to_string()).unwrap_or_default();
    let mut body = resp[at + 4..].to_vec();
    if head.to_ascii_lowercase().contains("transfer-encoding: chunked") {
        // de-chunk
        let mut out = Vec::new();
        let mut rest = &body[..];
        loop {
            let Some(nl) = rest.windows(2).position(|w| w == b"\r\n") else { break };
            let len = usize::from_str_radix(String::from_utf8_lossy(&rest[..nl]).trim(), 16).unwrap_or(0);
            if len == 0 {
                break;
            }
            out.extend_from_slice(&rest[nl + 2..nl + 2 + len]);
            rest = &rest[nl + 2 + len + 2..];
        }
        body = out;
    }
    Ok((status, ctype, body))
}

// ------------------------------------------------------------------ (3) controlled scheduler over real threads

enum Msg {
    AtPoint(usize, &'static str),
    Done(usize, Outcome),
}

struct Exec {
    /// number of enabled threads at each scheduling decision
    enabled: Vec<usize>,
    /// which alternative was taken at each decision (index among enabled, canonical order)
    choices: Vec<usize>,
    /// whether the previously running thread was still enabled (switching away = preemption)
    running_enabled: Vec<bool>,
    results: Vec<Outcome>,
    points: usize,
}

/// Run the given documents concurrently under a schedule prefix; beyond the prefix the running thread
/// continues (choice 0 = canonical order: running thread first, then ascending ids).
fn execute(docs: &[(Vec<u8>, Cfg)], prefix: &[usize]) -> Result<Exec, String> {
    let n = docs.len();
    let (tx, rx): (Sender<Msg>, Receiver<Msg>) = channel();
    let mut go: Vec<Sender<()>> = Vec::new();
    let mut handles = Vec::new();
    for (id, (doc, cfg)) in docs.iter().cloned().enumerate() {
        let (gtx, grx) = channel::<()>();
        go.push(gtx);
        let tx = tx.clone();
        handles.push(std::thread::spawn(move || {
            let grx = Arc::new(std::sync::Mutex::new(grx));
            let (tx2, grx2) = (tx.clone(), grx.clone());
            svgdx::verif::set_sched_hook(Some(Arc::new(move |tag| {
                let _ = tx2.send(Msg::AtPoint(id, tag));
                let _ = grx2.lock().unwrap().recv();
            })));
            // initial point: nobody runs before the scheduler says so
            let _ = tx.send(Msg::AtPoint(id, "start"));
            let _ = grx.lock().unwrap().recv();
            let out = run_bytes(&doc, &cfg);
            svgdx::verif::set_sched_hook(None);
            let _ = tx.send(Msg::Done(id, out));
        }));
    }
    drop(tx);
    let mut waiting = vec![false; n]; // blocked at a point, ready to be resumed
    let mut done: Vec<Option<Outcome>> = vec![None; n];
    // collect the initial arrivals
    let mut arrived = 0;
    while arrived < n {
        match rx.recv_timeout(Duration::from_secs(20)) {
            Ok(Msg::AtPoint(id, _)) => {
                waiting[id] = true;
                arrived += 1;
            }
            Ok(Msg::Done(..)) => return Err("thread finished before being scheduled".into()),
            Err(_) => return Err("threads did not reach their start point".into()),
        }
    }
    let mut ex = Exec { enabled: vec![], choices: vec![], running_enabled: vec![], results: vec![], points: 0 };
    let mut running: Option<usize> = None;
    loop {
        let mut order: Vec<usize> = Vec::new();
        if let Some(r) = running {
            if waiting[r] {
                order.push(r);
            }
        }
        for i in 0..n {
            if waiting[i] && Some(i) != running {
                order.push(i);
            }
        }
        if order.is_empty() {
            break;
        }
        let step = ex.choices.len();
        let choice = prefix.get(step).copied().unwrap_or(0);
        if choice >= order.len() {
            return Err(format!("schedule prefix diverged at step {step}: choice {choice} of {} enabled", order.len()));
        }
        ex.enabled.push(order.len());
        ex.choices.push(choice);
        ex.running_enabled.push(running.map(|r| waiting[r]).unwrap_or(false));
        let t = order[choice];
        running = Some(t);
        waiting[t] = false;
        go[t].send(()).map_err(|_| "worker vanished".to_string())?;
        match rx.recv_timeout(Duration::from_secs(30)) {
            Ok(Msg::AtPoint(id, _)) => {
                if id != t {
                    return Err("a thread other than the scheduled one moved: nondeterminism is not owned".into());
                }
                waiting[id] = true;
                ex.points += 1;
            }
            Ok(Msg::Done(id, out)) => {
                if id != t {
                    return Err("a thread other than the scheduled one finished".into());
                }
                done[id] = Some(out);
            }
            Err(_) => return Err("scheduled thread neither reached a point nor finished (deadlock?)".into()),
        }
    }
    for h in handles {
        let _ = h.join();
    }
    ex.results = done.into_iter().map(|d| d.unwrap_or(Outcome::Panic("no result".into()))).collect();
    Ok(ex)
}

/// Iterative preemption bounding: explore every schedule with at most `bound` preemptions.
/// Returns (schedules, total scheduling points, distinct result vectors, first violation).
fn explore(docs: &[(Vec<u8>, Cfg)], solo: &[Outcome], bound: usize, cap: usize) -> Result<(u64, u64, usize, Option<(Vec<usize>, Vec<Outcome>)>, bool), String> {
    let mut stack: Vec<Vec<usize>> = vec![vec![]];
    let mut schedules = 0u64;
    let mut points = 0u64;
    let mut outcomes = std::collections::HashSet::new();
    let mut violation = None;
    let mut capped = false;
    while let Some(prefix) = stack.pop() {
        if schedules as usize >= cap {
            capped = true;
            break;
        }
        let ex = execute(docs, &prefix)?;
        schedules += 1;
        points += ex.points as u64;
        outcomes.insert(hash64(&format!("{:?}", ex.results)));
        if violation.is_none() && ex.results.iter().zip(solo.iter()).any(|(a, b)| a != b) {
            violation = Some((ex.choices.clone(), ex.results.clone()));
        }
        // children: deviate at every step after the prefix
        let mut preemptions = 0;
        for i in 0..ex.choices.len() {
            if i >= prefix.len() {
                for alt in 1..ex.enabled[i] {
                    let cost = preemptions + if ex.running_enabled[i] { 1 } else { 0 };
                    if cost <= bound {
                        let mut p = ex.choices[..i].to_vec();
                        p.push(alt);
                        stack.push(p);
                    }
                }
            }
            if ex.choices[i] != 0 && ex.running_enabled[i] {
                preemptions += 1;
            }
        }
    }
    Ok((schedules, points, outcomes.len(), violation, capped))
}

fn conc_docs() -> Vec<(&'static str, Vec<u8>, Cfg)> {
    let d = Cfg::plain();
    vec![
        ("random-a", b"<rect wh=\"{{randint(1, 1000)}}\"/><rect xy=\"^|h\" wh=\"{{randint(1, 1000)}}\"/>".to_vec(), d.clone()),
        ("random-b-seed", b"<config seed=\"5\"/><circle r=\"{{randint(1, 1000)}}\"/><text text=\"{{random()}}\"/>".to_vec(), Cfg { seed: 3, ..d.clone() }),
        ("vars-ids", b"<var k=\"1\"/><rect id=\"a\" wh=\"$k\"/><var k=\"{{$k + 1}}\"/><rect xy=\"#a|h\" wh=\"$k\"/>".to_vec(), d.clone()),
        ("vars-ids-other", b"<var k=\"7\"/><rect id=\"a\" xy=\"50 50\" wh=\"$k\"/><rect xy=\"#a|v\" wh=\"$k\"/>".to_vec(), d.clone()),
        ("failing", b"<rect id=\"a\" wh=\"2\"/><rect xy=\"#b|h\" wh=\"$k\"/>".to_vec(), d.clone()),
        ("styles-dark", b"<svg><rect wh=\"4\" class=\"d-grid-5 d-red\"/></svg>".to_vec(), Cfg { theme: "dark".into(), ..Cfg::default() }),
        ("styles-default", b"<svg><rect wh=\"4\" class=\"d-grid-5 d-hatch\"/></svg>".to_vec(), Cfg::default()),
    ]
}

/// `vcheck worker-c07 <i,j[,k]> <bound> <cap>`: explore the schedules of one document combination in this
/// process, sequentially; prints one JSON object.
pub fn worker(args: &[String]) -> i32 {
    let cd = conc_docs();
    let combo: Vec<usize> = args[0].split(',').filter_map(|x| x.parse().ok()).collect();
    let bound: usize = args[1].parse().unwrap_or(2);
    let cap: usize = args[2].parse().unwrap_or(1000);
    let docs: Vec<(Vec<u8>, Cfg)> = combo.iter().map(|i| (cd[*i].1.clone(), cd[*i].2.clone())).collect();
    // solo results: each document alone in this fresh process, before anything else ran here, and once
    // more afterwards (a solo result that depends on history is the history leg's business, but it must
    // not be mistaken for a schedule effect)
    let solo: Vec<Outcome> = docs.iter().map(|(d, c)| run_bytes(d, c)).collect();
    let res = match explore(&docs, &solo, bound, cap) {
        Err(e) => json!({"error": e}),
        Ok((sch, pts, outs, viol, capped)) => {
            let violation = match viol {
                None => Value::Null,
                Some((schedule, results)) => {
                    let r1 = execute(&docs, &schedule).map(|e| e.results);
                    let r2 = execute(&docs, &schedule).map(|e| e.results);
                    if r1.as_ref().ok() != Some(&results) || r2.as_ref().ok() != Some(&results) {
                        println!("{}", json!({"error": format!("schedule {schedule:?} did not reproduce on replay")}));
                        return 0;
                    }
                    let which = results.iter().zip(solo.iter()).position(|(a, b)| a != b).unwrap_or(0);
                    json!({"schedule": schedule, "detail": format!("thread {which} returned {}\nsolo:             {}", clip(&results[which].brief(), 300), clip(&solo[which].brief(), 300))})
                }
            };
            json!({"schedules": sch, "points": pts, "outcomes": outs, "capped": capped, "violation": violation})
        }
    };
    println!("{res}");
    0
}

// ------------------------------------------------------------------ run

pub fn run(tier: Tier) -> i32 {
    let mut rep = Report::new("C07", tier, "model_checking");
    rep.set("rule", json!("(agreement) 25 documents (every feature family, 9 failing ones, empty output, CRLF, BOM, non-UTF-8) x 7 configurations expressible in every front-end: transform_str = transform_stream = svgdx {file,stdin}->{file,stdout} = POST /api/transform, Err <=> exit status 1 with a message <=> HTTP 400 text/plain. (histories) breadth-first search over all sequences of <= 3 (thorough 4) requests from an 8-request alphabet (random values, other seed via <config>, defining ids/variables, referring to undefined ids/variables, failing, changing limits/theme via <config>, real SVG, loops + random) against ONE library process and ONE live server: in every state the last response equals that request's solo response. (schedules) a controlled scheduler over real OS threads (scheduling points: per-tag loop, PRNG access, set_var, update_element via the sched_point hook; only one thread runs at a time) explores for every ordered pair (thorough: and some triples) of 7 documents every interleaving with <= 2 preemptions for pairs and <= 1 for a triple (thorough: EVERY interleaving of each pair, <= 3 preemptions for 5 triples), iterating the bound; each thread's result must equal its solo result; one recorded schedule is replayed twice and must reproduce. (no damage) every failing document x output-file state {absent, empty, previous good output, arbitrary bytes, read-only} x {file, stdin} input: non-zero exit, message, output path holds exactly its previous content; same-file refusal for the output spelled identically, relatively, with ./, with a .. component, via a symlink, a symlinked directory and a hard link; (environment faults) a succeeding document with TMPDIR missing / a file, output a directory / under a missing directory / a full device, stdout a full device: non-zero exit, message, previous output content untouched; the standard streams redirected from/to the input file are refused and pipes, /dev/stdin, /dev/stdout, an equal-content copy are accepted twice in a row with the library's bytes. (I/O faults) an LD_PRELOAD injector numbers every data-moving call of the command on its files (open-for-writing, read, write, copy_file_range, sendfile, ftruncate, fchmod, rename) and EVERY fault point k=1..N x {ENOSPC, EIO, EINTR, EDQUOT, short transfer then ENOSPC, sticky ENOSPC} x {small, large document} x {file, stdin} x {output absent, previous content} is run: exit 0 => exactly the library's bytes; otherwise a message and the previous output untouched; fault points must be identical between two counting runs. Also: an error value / non-zero exit comes with zero bytes written to the writer / stdout; documents of 2 MiB and 2 MiB+1 through the server. States/transitions: distinct histories + schedules / executions of the real transform."));
    rep.set("also_later", json!("Rounds 3-5 added: stdout which cannot be written for output without a line break; a document with local styles in the agreement leg (the id may not depend on the clock)."));
    let docs = documents();
    let cfgs = cli_configs();
    let tmp = std::path::PathBuf::from(format!("/verif/target/tmp-c07-{}", std::process::id()));
    let _ = std::fs::remove_dir_all(&tmp);
    let _ = std::fs::create_dir_all(&tmp);
    let mut states = 0u64;
    let mut transitions = 0u64;

    // ---- (1) agreement
    let mut server = match Server::start(SERVER_BIN) {
        Ok(s) => Some(s),
        Err(e) => {
            rep.machinery_errors.push(e);
            None
        }
    };
    let agree_viol = std::sync::Mutex::new(Vec::new());
    let agree_runs = std::sync::atomic::AtomicU64::new(0);
    {
        use rayon::prelude::*;
        let jobs: Vec<(usize, usize)> = (0..docs.len()).flat_map(|d| (0..cfgs.len()).map(move |c| (d, c))).collect();
        let lib_results: Vec<(Outcome, Option<Outcome>)> = jobs.iter().map(|(d, c)| (run_bytes(&docs[*d].1, &cfgs[*c].1), std::str::from_utf8(&docs[*d].1).ok().map(|s| run_str(s, &cfgs[*c].1)))).collect();
        jobs.par_iter().for_each(|(di, ci)| {
            let (dname, doc) = &docs[*di];
            let (cname, cfg, flags) = &cfgs[*ci];
            let mk = |clause: &str, detail: String| Violation {
                clause: clause.into(),
                signature: format!("C07/agreement/{clause}/{dname}/{cname}"),
                case: json!({"leg": "agreement", "doc": dname, "config": cname, "input": clip(&String::from_utf8_lossy(doc), 600)}),
                detail,
            };
            // library results were computed one at a time (nothing else running in this process)
            let (lib_stream, lib_str) = lib_results[*di * cfgs.len() + *ci].clone();
            agree_runs.fetch_add(2, std::sync::atomic::Ordering::Relaxed);
            if let Some(ls) = &lib_str {
                if *ls != lib_stream && !(ls.is_err() && lib_stream.is_err()) {
                    agree_viol.lock().unwrap().push(mk("str-vs-stream", format!("transform_str: {}\ntransform_stream: {}", clip(&ls.brief(), 300), clip(&lib_stream.brief(), 300))));
                }
            }
            if lib_stream.is_err() {
                // an error value comes with nothing written to the caller's writer
                let (_, n) = crate::common::run_bytes_written(doc, cfg);
                if n != 0 {
                    agree_viol.lock().unwrap().push(mk("partial-output-before-failure", format!("transform_stream returned an error after writing {n} bytes to the writer (transform_str and the server give nothing)")));
                }
            }
            let dir = tmp.join(format!("a{di}_{ci}"));
            let _ = std::fs::create_dir_all(&dir);
            let inp = dir.join("in.xml");
            let _ = std::fs::write(&inp, doc);
            for form in 0..4 {
                let out_path = dir.join(format!("out{form}.svg"));
                let mut args: Vec<String> = flags.clone();
                let stdin: Option<&[u8]> = if form < 2 { args.push(inp.to_string_lossy().to_string()); None } else { Some(doc) };
                if form % 2 == 1 {
                    args.push("-o".into());
                    args.push(out_path.to_string_lossy().to_string());
                }
                let r = run_cmd(&args, stdin, &dir);
                agree_runs.fetch_add(1, std::sync::atomic::Ordering::Relaxed);
                let fname = ["file->stdout", "file->file", "stdin->stdout", "stdin->file"][form];
                match r {
                    Err(e) => agree_viol.lock().unwrap().push(mk("cli-no-result", format!("{fname}: {e}"))),
                    Ok(o) => {
                        let produced = if form % 2 == 1 { std::fs::read(&out_path).ok() } else { Some(o.stdout.clone()) };
                        match &lib_stream {
                            Outcome::Ok(b) => {
                                if o.code != Some(0) {
                                    agree_viol.lock().unwrap().push(mk("cli-fails-where-library-succeeds", format!("{fname}: exit {:?}, stderr {}", o.code, clip(&String::from_utf8_lossy(&o.stderr), 200))));
                                } else if produced.as_deref() != Some(&b[..]) {
                                    agree_viol.lock().unwrap().push(mk("cli-bytes-differ", format!("{fname}: {} bytes vs library {} bytes\ncli: {}\nlib: {}", produced.as_ref().map(|p| p.len()).unwrap_or(0), b.len(), clip(&String::from_utf8_lossy(produced.as_deref().unwrap_or(b"")), 200), clip(&String::from_utf8_lossy(b), 200))));
                                }
                            }
                            _ => {
                                if o.code == Some(0) || o.code.is_none() {
                                    agree_viol.lock().unwrap().push(mk("cli-succeeds-where-library-fails", format!("{fname}: exit {:?}", o.code)));
                                } else if o.stderr.is_empty() {
                                    agree_viol.lock().unwrap().push(mk("cli-failure-without-message", fname.to_string()));
                                } else if form % 2 == 0 && !o.stdout.is_empty() {
                                    agree_viol.lock().unwrap().push(mk("partial-output-before-failure", format!("{fname}: exit {:?} after {} bytes on stdout", o.code, o.stdout.len())));
                                } else if form % 2 == 1 && out_path.exists() {
                                    agree_viol.lock().unwrap().push(mk("output-file-created-on-failure", fname.to_string()));
                                }
                            }
                        }
                    }
                }
            }
        });
    }
    // server agreement (sequential; only add_metadata is expressible)
    if let Some(srv) = server.as_mut() {
        // (with two large documents either side of 2 MiB, for the server and one command form)
        let mut sdocs = docs.clone();
        for (name, len) in [("large-2MiB", 2usize << 20), ("large-2MiB-plus-1", (2usize << 20) + 1)] {
            let head = b"<svg><rect wh=\"5\"/><!--";
            let tail = b"--></svg>";
            let mut d = head.to_vec();
            d.extend(std::iter::repeat(b'x').take(len - head.len() - tail.len()));
            d.extend_from_slice(tail);
            sdocs.push((name, d));
        }
        for (dname, doc) in &sdocs {
            for meta in [false, true] {
                let cfg = Cfg { add_metadata: meta, ..Cfg::default() };
                let lib = run_bytes(doc, &cfg);
                let r = http(srv.port, if meta { "/api/transform?add_metadata=true" } else { "/api/transform" }, doc);
                agree_runs.fetch_add(2, std::sync::atomic::Ordering::Relaxed);
                let mk = |clause: &str, detail: String| Violation {
                    clause: clause.into(),
                    signature: format!("C07/agreement/{clause}/{dname}"),
                    case: json!({"leg": "server", "doc": dname, "add_metadata": meta, "input": clip(&String::from_utf8_lossy(doc), 600)}),
                    detail,
                };
                match (r, &lib) {
                    (Err(e), _) => agree_viol.lock().unwrap().push(mk("server-no-response", e)),
                    (Ok((200, ct, body)), Outcome::Ok(b)) => {
                        if body != *b {
                            agree_viol.lock().unwrap().push(mk("server-bytes-differ", format!("server {} bytes vs library {} bytes", body.len(), b.len())));
                        } else if !ct.starts_with("image/svg+xml") {
                            agree_viol.lock().unwrap().push(mk("server-content-type", ct));
                        }
                    }
                    (Ok((400, ct, body)), Outcome::Err(_)) => {
                        if !ct.starts_with("text/plain") || body.is_empty() {
                            agree_viol.lock().unwrap().push(mk("server-error-shape", format!("content-type {ct:?}, {} bytes", body.len())));
                        }
                    }
                    (Ok((400, _, body)), Outcome::Ok(b)) if b.is_empty() => {
                        agree_viol.lock().unwrap().push(Violation {
                            clause: "server-rejects-empty-output".into(),
                            signature: "C07/agreement/server-rejects-empty-output".into(),
                            case: json!({"leg": "server", "doc": dname}),
                            detail: format!("the library returns Ok(\"\") for this input but the server answers 400 {:?}", String::from_utf8_lossy(&body)),
                        });
                    }
                    (Ok((st, _, body)), l) => agree_viol.lock().unwrap().push(mk("server-status-disagrees", format!("HTTP {st} ({}) but library {}", clip(&String::from_utf8_lossy(&body), 100), clip(&l.brief(), 100)))),
                }
            }
        }
    }
    let nr = agree_runs.load(std::sync::atomic::Ordering::Relaxed);
    transitions += nr;
    rep.add("evaluations", nr);
    rep.add("distinct_nontrivial", (docs.len() * cfgs.len()) as u64);
    rep.violations.extend(agree_viol.into_inner().unwrap());

    // ---- (2) histories
    let alphabet: Vec<(&str, Vec<u8>)> = vec![
        ("random", b"<svg><rect wh=\"{{randint(1, 100)}}\" text=\"{{random()}}\" class=\"d-grid d-hatch-7\"/></svg>".to_vec()),
        ("seeded", b"<svg><config seed=\"7\"/><rect wh=\"{{randint(1, 100)}}\"/></svg>".to_vec()),
        ("defines", b"<svg><var leak=\"6\"/><defaults><rect class=\"leaky\"/></defaults><rect id=\"shared\" wh=\"5\"/></svg>".to_vec()),
        ("uses-undefined", b"<svg><rect xy=\"#shared|h\" wh=\"$leak\"/></svg>".to_vec()),
        ("failing", b"<svg><rect wh=\"{{1+}}\"/></svg>".to_vec()),
        ("config", b"<svg><config loop-limit=\"1\" theme=\"dark\" border=\"20\" font-size=\"7\"/><rect wh=\"5\" class=\"d-grid d-hatch-7\" text=\"t\"/></svg>".to_vec()),
        ("real-svg", b"<svg xmlns=\"http://www.w3.org/2000/svg\"><rect wh=\"5\" class=\"d-red\"/></svg>".to_vec()),
        ("loop-random", b"<svg><loop count=\"3\"><rect wh=\"2\" xy=\"^|h\"/></loop><text text=\"{{random()}}\"/></svg>".to_vec()),
    ];
    let cfg = Cfg::default();
    let solo: Vec<Outcome> = alphabet.iter().map(|(_, d)| crate::props::c06::fresh_process(d, &cfg).unwrap_or(Outcome::Panic("no fresh process".into()))).collect();
    let maxlen = tier.pick(3, 4);
    let mut histories: Vec<Vec<usize>> = vec![];
    let mut frontier: Vec<Vec<usize>> = vec![vec![]];
    for _ in 0..maxlen {
        let mut next = Vec::new();
        for h in &frontier {
            for a in 0..alphabet.len() {
                let mut g = h.clone();
                g.push(a);
                next.push(g);
            }
        }
        histories.extend(next.iter().cloned());
        frontier = next;
    }
    let mut hist_viol: Vec<Violation> = Vec::new();
    for h in &histories {
        // library: replay the whole history in this process, judge the last response
        let mut last = None;
        for a in h {
            last = Some(run_bytes(&alphabet[*a].1, &cfg));
            transitions += 1;
        }
        let a = *h.last().unwrap();
        if last.as_ref() != Some(&solo[a]) && hist_viol.len() < 50 {
            let names: Vec<&str> = h.iter().map(|i| alphabet[*i].0).collect();
            hist_viol.push(Violation {
                clause: "library-response-depends-on-history".into(),
                signature: format!("C07/history/library/{}", names.join(">")),
                case: json!({"leg": "history", "history": names}),
                detail: format!("after {names:?} the response to {:?} is {}\nsolo: {}", alphabet[a].0, clip(&last.map(|l| l.brief()).unwrap_or_default(), 300), clip(&solo[a].brief(), 300)),
            });
        }
    }
    states += histories.len() as u64;
    if let Some(srv) = server.as_mut() {
        for h in &histories {
            let mut last = None;
            for a in h {
                last = http(srv.port, "/api/transform", &alphabet[*a].1).ok();
                transitions += 1;
            }
            let a = *h.last().unwrap();
            let ok = match (&last, &solo[a]) {
                (Some((200, _, body)), Outcome::Ok(b)) => body == b,
                (Some((400, _, _)), Outcome::Err(_)) => true,
                _ => false,
            };
            if !ok && hist_viol.len() < 50 {
                let names: Vec<&str> = h.iter().map(|i| alphabet[*i].0).collect();
                hist_viol.push(Violation {
                    clause: "server-response-depends-on-history".into(),
                    signature: format!("C07/history/server/{}", names.join(">")),
                    case: json!({"leg": "history-server", "history": names}),
                    detail: format!("after {names:?} the server answered {:?} to {:?}; solo: {}", last.map(|l| (l.0, l.2.len())), alphabet[a].0, clip(&solo[a].brief(), 200)),
                });
            }
        }
        states += histories.len() as u64;
    }
    rep.add("evaluations", transitions - nr);
    rep.add("distinct_nontrivial", histories.len() as u64);
    rep.set("histories", json!(histories.len()));
    rep.sample(json!({"leg": "history", "history": histories[histories.len() / 2].iter().map(|i| alphabet[*i].0).collect::<Vec<_>>()}));
    rep.violations.extend(hist_viol);

    // ---- (3) schedules
    let cd = conc_docs();
    let csolo: Vec<Outcome> = cd.iter().map(|(_, d, c)| run_bytes(d, c)).collect();
    let bound: usize = tier.pick(2, 64);
    let cap = tier.pick(3_000, 200_000);
    let mut combos: Vec<Vec<usize>> = Vec::new();
    for a in 0..cd.len() {
        for b in 0..cd.len() {
            combos.push(vec![a, b]);
        }
    }
    if tier == Tier::Thorough {
        for t in [[0usize, 1, 2], [0, 0, 4], [5, 6, 5], [2, 3, 4], [1, 5, 0]] {
            combos.push(t.to_vec());
        }
    } else {
        combos.push(vec![0, 1, 4]);
    }
    let sched_results = std::sync::Mutex::new((0u64, 0u64, 0usize, Vec::<Violation>::new(), Vec::<String>::new(), 0u64));
    {
        use rayon::prelude::*;
        // One subprocess per document combination: inside a process exactly ONE execution (and within it one
        // thread) runs at a time, so that process-wide state in the subject cannot be touched by anything the
        // scheduler does not own; the 16 cores are used by running the combinations' processes side by side.
        let exe = std::env::current_exe().unwrap_or_else(|_| "/verif/target/engine/release/vcheck".into());
        combos.par_iter().with_max_len(1).for_each(|combo| {
            let names: Vec<&str> = combo.iter().map(|i| cd[*i].0).collect();
            let b = if combo.len() > 2 { tier.pick(1, 3) } else { bound };
            let arg_combo = combo.iter().map(|i| i.to_string()).collect::<Vec<_>>().join(",");
            let out = Command::new(&exe).args(["worker-c07", &arg_combo, &b.to_string(), &cap.to_string()]).stdin(Stdio::null()).stderr(Stdio::null()).output();
            let mut g = sched_results.lock().unwrap();
            let Ok(out) = out else {
                g.4.push(format!("cannot run the schedule worker for {names:?}"));
                return;
            };
            let Ok(v) = serde_json::from_slice::<Value>(&out.stdout) else {
                g.4.push(format!("schedule worker for {names:?} gave no result (exit {:?}): {}", out.status.code(), clip(&String::from_utf8_lossy(&out.stdout), 200)));
                return;
            };
            if let Some(e) = v["error"].as_str() {
                g.4.push(format!("schedule exploration of {names:?}: {e}"));
                return;
            }
            g.0 += v["schedules"].as_u64().unwrap_or(0);
            g.1 += v["points"].as_u64().unwrap_or(0);
            g.2 += v["outcomes"].as_u64().unwrap_or(0) as usize;
            if v["capped"].as_bool().unwrap_or(false) {
                g.5 += 1;
            }
            if !v["violation"].is_null() {
                let schedule = v["violation"]["schedule"].clone();
                g.3.push(Violation {
                    clause: "concurrent-result-differs-from-solo".into(),
                    signature: format!("C07/schedule/{}", names.join("+")),
                    case: json!({"leg": "schedule", "documents": names, "schedule": schedule}),
                    detail: format!("documents {names:?} under schedule {schedule} (choice index among enabled threads at each scheduling point; replayed twice with the same result):\n{}", v["violation"]["detail"].as_str().unwrap_or("")),
                });
            }
        });
    }
    let (sch, pts, outs, sviol, serr, capped) = sched_results.into_inner().unwrap();
    // determinism of the scheduler itself: one schedule replayed twice gives identical observations
    {
        let docs: Vec<(Vec<u8>, Cfg)> = vec![(cd[0].1.clone(), cd[0].2.clone()), (cd[1].1.clone(), cd[1].2.clone())];
        let a = execute(&docs, &[1, 0, 1, 1]).map(|e| (e.choices, e.results));
        let b = execute(&docs, &[1, 0, 1, 1]).map(|e| (e.choices, e.results));
        if a.is_err() || a.as_ref().ok() != b.as_ref().ok() {
            rep.machinery_errors.push("replaying one schedule twice gave different observations".into());
        }
    }
    states += sch;
    transitions += pts;
    rep.add("evaluations", sch * 2);
    rep.add("distinct_nontrivial", sch);
    rep.set("schedules", json!(sch));
    rep.set("scheduling_points_executed", json!(pts));
    rep.set("preemption_bound_completed", json!({"pairs": if capped > 0 { json!("capped: see cap_note") } else if bound >= 64 { json!("unbounded (every interleaving)") } else { json!(bound) }, "triples": tier.pick(1, 3)}));
    rep.set("combinations_capped", json!(capped));
    rep.set("distinct_schedule_outcomes", json!(outs));
    if capped > 0 {
        rep.set("exhaustive", json!(false));
        rep.set("cap_note", json!(format!("{capped} document combinations hit the cap of {cap} schedules at preemption bound {bound}; all schedules with fewer preemptions were explored first (iterative bounding)")));
    }
    rep.sample(json!({"leg": "schedule", "documents": [cd[0].0, cd[1].0], "preemption_bound": bound}));
    rep.violations.extend(sviol);
    rep.machinery_errors.extend(serr);

    // ---- (4) no damage
    let failing: Vec<&(&str, Vec<u8>)> = docs.iter().filter(|d| d.0.starts_with("fail-")).collect();
    let good = run_bytes(&docs[0].1, &Cfg::default());
    let good_bytes = match &good {
        Outcome::Ok(b) => b.clone(),
        _ => b"<svg/>".to_vec(),
    };
    let states_out: Vec<(&str, Option<Vec<u8>>, bool)> = vec![("absent", None, false), ("empty", Some(vec![]), false), ("previous-output", Some(good_bytes.clone()), false), ("arbitrary", Some(b"\x00\x01not svg\xff".to_vec()), false), ("read-only", Some(good_bytes.clone()), true)];
    let mut dmg: Vec<Violation> = Vec::new();
    let mut dmg_runs = 0u64;
    for (fi, (fname, fdoc)) in failing.iter().enumerate() {
        for (sname, content, ro) in &states_out {
            for stdin_mode in [false, true] {
                let dir = tmp.join(format!("d{fi}_{sname}_{stdin_mode}"));
                let _ = std::fs::create_dir_all(&dir);
                let inp = dir.join("in.xml");
                let outp = dir.join("out.svg");
                let _ = std::fs::write(&inp, fdoc);
                if let Some(c) = content {
                    let _ = std::fs::write(&outp, c);
                    if *ro {
                        let mut p = std::fs::metadata(&outp).unwrap().permissions();
                        p.set_readonly(true);
                        let _ = std::fs::set_permissions(&outp, p);
                    }
                }
                let mut args: Vec<String> = vec![];
                if !stdin_mode {
                    args.push(inp.to_string_lossy().to_string());
                }
                args.push("-o".into());
                args.push(outp.to_string_lossy().to_string());
                let r = run_cmd(&args, if stdin_mode { Some(fdoc) } else { None }, &dir);
                dmg_runs += 1;
                let mk = |clause: &str, detail: String| Violation {
                    clause: clause.into(),
                    signature: format!("C07/no-damage/{clause}/{fname}/{sname}"),
                    case: json!({"leg": "no-damage", "doc": fname, "output_state": sname, "stdin": stdin_mode}),
                    detail,
                };
                match r {
                    Err(e) => dmg.push(mk("no-result", e)),
                    Ok(o) => {
                        if o.code == Some(0) {
                            dmg.push(mk("failure-reported-as-success", "exit status 0".into()));
                        }
                        if o.stderr.is_empty() {
                            dmg.push(mk("failure-without-message", "empty stderr".into()));
                        }
                        let after = std::fs::read(&outp).ok();
                        if after != *content {
                            dmg.push(mk("output-file-damaged", format!("before: {:?} bytes, after: {:?} bytes", content.as_ref().map(|c| c.len()), after.as_ref().map(|c| c.len()))));
                        }
                        if std::fs::read(&inp).ok().as_deref() != Some(&fdoc[..]) {
                            dmg.push(mk("input-file-damaged", String::new()));
                        }
                    }
                }
            }
        }
    }
    // environment faults on a succeeding document: either the exact bytes arrive and exit is 0,
    // or exit is non-zero with a message and the previous output content is untouched
    {
        let gooddoc = &docs[0].1;
        let faults: Vec<(&str, Option<(&str, &str)>, &str)> = vec![
            ("tmpdir-missing", Some(("TMPDIR", "/nonexistent-verif-dir")), "out.svg"),
            ("output-is-directory", None, "adir"),
            ("output-parent-missing", None, "nodir/out.svg"),
            ("output-device-full", None, "/dev/full"),
            ("tmpdir-is-file", Some(("TMPDIR", "afile")), "out.svg"),
        ];
        for (fname, envv, outarg) in faults {
            for stdin_mode in [false, true] {
                let dir = tmp.join(format!("e_{fname}_{stdin_mode}"));
                let _ = std::fs::create_dir_all(dir.join("adir"));
                let _ = std::fs::write(dir.join("afile"), b"x");
                let _ = std::fs::write(dir.join("in.xml"), gooddoc);
                let _ = std::fs::write(dir.join("out.svg"), b"previous content");
                let mut cmd = Command::new(SVGDX_BIN);
                if !stdin_mode {
                    cmd.arg("in.xml");
                }
                cmd.args(["-o", outarg]).current_dir(&dir).stdin(Stdio::piped()).stdout(Stdio::piped()).stderr(Stdio::piped());
                if let Some((k, v)) = envv {
                    cmd.env(k, v);
                }
                dmg_runs += 1;
                let mk = |clause: &str, detail: String| Violation {
                    clause: clause.into(),
                    signature: format!("C07/env-fault/{clause}/{fname}"),
                    case: json!({"leg": "env-fault", "fault": fname, "stdin": stdin_mode}),
                    detail,
                };
                let Ok(mut child) = cmd.spawn() else {
                    rep.machinery_errors.push("cannot spawn svgdx".into());
                    continue;
                };
                if let Some(mut si) = child.stdin.take() {
                    if stdin_mode {
                        let _ = si.write_all(gooddoc);
                    }
                }
                let Ok(o) = child.wait_with_output() else { continue };
                let prev = std::fs::read(dir.join("out.svg")).unwrap_or_default();
                if o.status.code() == Some(0) {
                    dmg.push(mk("fault-reported-as-success", format!("svgdx -o {outarg} exited 0")));
                } else {
                    if o.stderr.is_empty() {
                        dmg.push(mk("failure-without-message", String::new()));
                    }
                    if prev != b"previous content" {
                        dmg.push(mk("output-file-damaged", format!("out.svg now holds {} bytes", prev.len())));
                    }
                }
            }
        }
        // stdout that cannot be written (also for output without a line break in it, which a
        // line-buffered stdout holds back until the process ends)
        for (stdin_mode, gooddoc) in [(false, gooddoc.clone()), (true, gooddoc.clone()), (false, b"<rect wh=\"5\"/>".to_vec()), (true, b"<rect wh=\"5\"/>".to_vec())].iter().map(|(m, d)| (*m, d)) {
            let dir = tmp.join(format!("e_stdoutfull_{stdin_mode}_{}", gooddoc.len()));
            let _ = std::fs::create_dir_all(&dir);
            let _ = std::fs::write(dir.join("in.xml"), gooddoc);
            let mut cmd = Command::new(SVGDX_BIN);
            if !stdin_mode {
                cmd.arg("in.xml");
            }
            let Ok(full) = std::fs::OpenOptions::new().write(true).open("/dev/full") else { continue };
            cmd.current_dir(&dir).stdin(Stdio::piped()).stdout(full).stderr(Stdio::piped());
            dmg_runs += 1;
            let Ok(mut child) = cmd.spawn() else { continue };
            if let Some(mut si) = child.stdin.take() {
                if stdin_mode {
                    let _ = si.write_all(gooddoc);
                }
            }
            let Ok(o) = child.wait_with_output() else { continue };
            if o.status.code() == Some(0) || o.stderr.is_empty() {
                dmg.push(Violation {
                    clause: "stdout-write-failure-not-reported".into(),
                    signature: "C07/env-fault/stdout-write-failure-not-reported".into(),
                    case: json!({"leg": "env-fault", "fault": "stdout-full", "stdin": stdin_mode}),
                    detail: format!("exit {:?}, stderr {} bytes", o.status.code(), o.stderr.len()),
                });
            }
        }
    }
    // same-file refusal
    {
        let dir = tmp.join("same");
        let sub = dir.join("sub");
        let _ = std::fs::create_dir_all(&sub);
        let inp = dir.join("in.xml");
        let content = b"<svg><rect wh=\"5\"/></svg>".to_vec();
        let _ = std::fs::write(&inp, &content);
        let _ = std::os::unix::fs::symlink(&inp, dir.join("link.svg"));
        let _ = std::os::unix::fs::symlink(&dir, dir.join("dirlink"));
        let _ = std::fs::hard_link(&inp, dir.join("hard.svg"));
        let spellings: Vec<(&str, String, String)> = vec![
            ("identical", "in.xml".into(), "in.xml".into()),
            ("dot-slash", "in.xml".into(), "./in.xml".into()),
            ("absolute", "in.xml".into(), inp.to_string_lossy().to_string()),
            ("dotdot", "in.xml".into(), "sub/../in.xml".into()),
            ("symlink", "in.xml".into(), "link.svg".into()),
            ("symlinked-dir", "in.xml".into(), "dirlink/in.xml".into()),
            ("input-via-symlink", "link.svg".into(), "in.xml".into()),
            ("hard-link", "in.xml".into(), "hard.svg".into()),
        ];
        for (name, i, o) in spellings {
            let r = run_cmd(&[i.clone(), "-o".into(), o.clone()], None, &dir);
            dmg_runs += 1;
            let after = std::fs::read(&inp).unwrap_or_default();
            let mk = |clause: &str, detail: String| Violation {
                clause: clause.into(),
                signature: format!("C07/same-file/{clause}/{name}"),
                case: json!({"leg": "same-file", "spelling": name, "input": i, "output": o}),
                detail,
            };
            match r {
                Err(e) => dmg.push(mk("no-result", e)),
                Ok(out) => {
                    if after != content {
                        dmg.push(mk("input-overwritten", format!("svgdx {i} -o {o}: the input file now holds {} bytes of output (exit {:?})", after.len(), out.code)));
                        let _ = std::fs::write(&inp, &content);
                    } else if out.code == Some(0) {
                        dmg.push(mk("not-refused", format!("svgdx {i} -o {o} exited 0")));
                    }
                }
            }
        }
        // the standard streams redirected from / to the input file: refused as well
        let expected = docs_expected(&content);
        let streams: Vec<(&str, Vec<&str>, bool, bool)> = vec![
            // (name, args, stdin is in.xml, stdout is in.xml opened read-write without truncation)
            ("stdin-default-to-file", vec!["-o", "in.xml"], true, false),
            ("stdin-dash-to-file", vec!["-", "-o", "in.xml"], true, false),
            ("file-to-stdout", vec!["in.xml"], false, true),
            ("file-to-stdout-dash", vec!["in.xml", "-o", "-"], false, true),
            ("stdin-to-stdout", vec![], true, true),
            ("dev-stdin-to-file", vec!["/dev/stdin", "-o", "in.xml"], true, false),
            ("file-to-dev-stdout", vec!["in.xml", "-o", "/dev/stdout"], false, true),
        ];
        for (name, args, sin, sout) in streams {
            let _ = std::fs::write(&inp, &content);
            let mut cmd = Command::new(SVGDX_BIN);
            cmd.args(&args).current_dir(&dir).stderr(Stdio::piped());
            if sin {
                let Ok(f) = std::fs::File::open(&inp) else { continue };
                cmd.stdin(f);
            } else {
                cmd.stdin(Stdio::null());
            }
            if sout {
                let Ok(f) = std::fs::OpenOptions::new().read(true).write(true).open(&inp) else { continue };
                cmd.stdout(f);
            } else {
                cmd.stdout(Stdio::piped());
            }
            dmg_runs += 1;
            let mk = |clause: &str, detail: String| Violation {
                clause: clause.into(),
                signature: format!("C07/same-file/{clause}/{name}"),
                case: json!({"leg": "same-file", "spelling": name, "args": args, "stdin_is_input": sin, "stdout_is_input": sout}),
                detail,
            };
            match cmd.output() {
                Err(e) => dmg.push(mk("no-result", e.to_string())),
                Ok(out) => {
                    let after = std::fs::read(&inp).unwrap_or_default();
                    if after != content {
                        dmg.push(mk("input-overwritten", format!("svgdx {}: the input file now holds {} bytes (exit {:?})", args.join(" "), after.len(), out.status.code())));
                    } else if out.status.code() == Some(0) {
                        dmg.push(mk("not-refused", format!("svgdx {} exited 0", args.join(" "))));
                    } else if out.stderr.is_empty() {
                        dmg.push(mk("failure-without-message", String::new()));
                    }
                }
            }
        }
        let _ = std::fs::write(&inp, &content);
        // ... and what is NOT the same file is accepted, whatever already exists at the output:
        // pipes on either side, a distinct file with equal content, devices
        let _ = std::fs::write(dir.join("copy.svg"), &content);
        let accepted: Vec<(&str, Vec<&str>, bool, Option<&str>)> = vec![
            // (name, args, document on a piped stdin, output file to read back (None: stdout))
            ("pipe-dev-stdin-to-existing-file", vec!["/dev/stdin", "-o", "copy.svg"], true, Some("copy.svg")),
            ("pipe-dash-to-existing-file", vec!["-", "-o", "copy.svg"], true, Some("copy.svg")),
            ("file-to-dev-stdout-pipe", vec!["in.xml", "-o", "/dev/stdout"], false, None),
            ("file-to-dash-pipe", vec!["in.xml", "-o", "-"], false, None),
            ("pipe-to-pipe", vec![], true, None),
            ("dev-stdin-to-dev-stdout-pipes", vec!["/dev/stdin", "-o", "/dev/stdout"], true, None),
            ("file-to-equal-content-copy", vec!["in.xml", "-o", "copy.svg"], false, Some("copy.svg")),
            ("file-to-dev-null", vec!["in.xml", "-o", "/dev/null"], false, Some("/dev/null")),
        ];
        for (name, args, piped, readback) in accepted {
            for round in 0..2 {
                // twice: the second time the output exists and holds the previous result
                if readback == Some("copy.svg") && round == 0 {
                    let _ = std::fs::write(dir.join("copy.svg"), &content);
                }
                let a: Vec<String> = args.iter().map(|x| x.to_string()).collect();
                let r = run_cmd(&a, if piped { Some(&content) } else { None }, &dir);
                dmg_runs += 1;
                let mk = |clause: &str, detail: String| Violation {
                    clause: clause.into(),
                    signature: format!("C07/distinct-file/{clause}/{name}"),
                    case: json!({"leg": "distinct-file", "spelling": name, "args": args, "round": round}),
                    detail,
                };
                match r {
                    Err(e) => dmg.push(mk("no-result", e)),
                    Ok(out) => {
                        if out.code != Some(0) {
                            dmg.push(mk("valid-run-refused", format!("svgdx {} (round {round}): exit {:?}: {}", args.join(" "), out.code, clip(&String::from_utf8_lossy(&out.stderr), 160))));
                            continue;
                        }
                        let got = match readback {
                            None => out.stdout.clone(),
                            Some("/dev/null") => expected.clone(),
                            Some(f) => std::fs::read(dir.join(f)).unwrap_or_default(),
                        };
                        if got != expected {
                            dmg.push(mk("bytes-differ", format!("svgdx {} (round {round}): {} bytes, library gives {}", args.join(" "), got.len(), expected.len())));
                        }
                        if std::fs::read(&inp).unwrap_or_default() != content {
                            dmg.push(mk("input-file-damaged", String::new()));
                            let _ = std::fs::write(&inp, &content);
                        }
                    }
                }
            }
        }
    }
    // ---- (5) I/O faults at every fault point of the command's file handling
    {
        let (runs, points, viol, errs) = io_faults(&tmp, tier);
        dmg_runs += runs;
        rep.set("io_fault_points", json!(points));
        dmg.extend(viol);
        rep.machinery_errors.extend(errs);
    }
    rep.add("evaluations", dmg_runs);
    rep.add("distinct_nontrivial", dmg_runs);
    transitions += dmg_runs;
    rep.violations.extend(dmg);
    let _ = std::fs::remove_dir_all(&tmp);
    rep.set("states", json!(states));
    rep.set("transitions", json!(transitions));
    rep.set("traces_validated_against_impl", json!(transitions));
    rep.assume("interleavings are explored at the granularity of the injected scheduling points (one thread runs at a time); memory-model-level races are out of scope (the crate shares no mutable state between transforms)");
    rep.assume("the server exposes only add_metadata; other configurations are compared between library and command");
    rep.finish()
}

struct FaultRun {
    code: Option<i32>,
    stderr: Vec<u8>,
    log: Vec<(u64, String, String, i64)>, // (k, op, path, result)
}

fn fault_run(shim: &std::path::Path, dir: &std::path::Path, doc: &[u8], stdin_mode: bool, out_arg: &str, at: u64, mode: &str, errno: i32) -> Result<FaultRun, String> {
    let log = dir.join("fault.log");
    let _ = std::fs::remove_file(&log);
    let mut cmd = Command::new(SVGDX_BIN);
    if !stdin_mode {
        cmd.arg("in.xml");
    }
    cmd.args(["-o", out_arg]).current_dir(dir).stdout(Stdio::piped()).stderr(Stdio::piped());
    cmd.env("LD_PRELOAD", shim).env("VERIF_FAULT_DIR", dir).env("VERIF_FAULT_LOG", &log).env("TMPDIR", dir.join("tmp"));
    cmd.env("VERIF_FAULT_AT", at.to_string()).env("VERIF_FAULT_MODE", mode).env("VERIF_FAULT_ERRNO", errno.to_string());
    cmd.env("VERIF_FAULT_STDIN", if stdin_mode { "1" } else { "0" });
    if stdin_mode {
        cmd.stdin(std::fs::File::open(dir.join("stdin.data")).map_err(|e| e.to_string())?);
    } else {
        cmd.stdin(Stdio::null());
    }
    let _ = doc;
    let mut child = cmd.spawn().map_err(|e| e.to_string())?;
    let start = Instant::now();
    loop {
        match child.try_wait() {
            Ok(Some(_)) => break,
            Ok(None) => {
                if start.elapsed() > Duration::from_secs(20) {
                    let _ = child.kill();
                    let _ = child.wait();
                    return Err("svgdx command did not exit within 20s under an injected fault".into());
                }
                std::thread::sleep(Duration::from_millis(2));
            }
            Err(e) => return Err(e.to_string()),
        }
    }
    let o = child.wait_with_output().map_err(|e| e.to_string())?;
    let text = std::fs::read_to_string(&log).unwrap_or_default();
    let mut entries = Vec::new();
    for l in text.lines() {
        let f: Vec<&str> = l.split(' ').collect();
        if f.len() >= 5 {
            entries.push((f[0].parse().unwrap_or(0), f[1].to_string(), f[2..f.len() - 2].join(" "), f[f.len() - 1].parse().unwrap_or(0)));
        }
    }
    Ok(FaultRun { code: o.status.code(), stderr: o.stderr, log: entries })
}

/// Every fault point x fault kind x output state x input form, for a small and a large document.
fn io_faults(tmp: &std::path::Path, tier: Tier) -> (u64, u64, Vec<Violation>, Vec<String>) {
    let mut errs = Vec::new();
    let mut viol = Vec::new();
    let shim = std::path::PathBuf::from("/verif/target/faultshim.so");
    let cc = Command::new("cc").args(["-shared", "-fPIC", "-O1", "-o"]).arg(&shim).arg("/verif/scripts/faultshim.c").arg("-ldl").output();
    match cc {
        Ok(o) if o.status.success() => {}
        Ok(o) => {
            errs.push(format!("fault shim does not compile: {}", clip(&String::from_utf8_lossy(&o.stderr), 300)));
            return (0, 0, viol, errs);
        }
        Err(e) => {
            errs.push(format!("cc: {e}"));
            return (0, 0, viol, errs);
        }
    }
    let small = b"<svg><rect wh=\"5\"/></svg>".to_vec();
    let mut large = b"<svg>".to_vec();
    for i in 0..(if tier == Tier::Thorough { 3000 } else { 600 }) {
        large.extend_from_slice(format!("<rect xy=\"{} {}\" wh=\"4\" text=\"cell {}\"/>\n", (i % 40) * 5, (i / 40) * 5, i).as_bytes());
    }
    large.extend_from_slice(b"</svg>");
    let docs = [("small", small), ("large", large)];
    let kinds: Vec<(&str, &str, i32)> = vec![("enospc", "fail", 28), ("eio", "fail", 5), ("short-then-enospc", "short", 28), ("sticky-enospc", "sticky", 28), ("eintr", "fail", 4), ("edquot", "fail", 122)];
    let mut runs = 0u64;
    let mut points = 0u64;
    let jobs: Vec<(usize, bool, bool)> = (0..docs.len()).flat_map(|d| [false, true].into_iter().flat_map(move |s| [false, true].into_iter().map(move |p| (d, s, p)))).collect();
    use rayon::prelude::*;
    let results: Vec<(u64, u64, Vec<Violation>, Vec<String>)> = jobs
        .par_iter()
        .map(|(di, stdin_mode, prev_exists)| {
            let (dname, doc) = &docs[*di];
            let mut v = Vec::new();
            let mut e = Vec::new();
            let mut runs = 0u64;
            let dir = tmp.join(format!("f_{dname}_{stdin_mode}_{prev_exists}"));
            let _ = std::fs::create_dir_all(dir.join("tmp"));
            let _ = std::fs::write(dir.join("in.xml"), doc);
            let _ = std::fs::write(dir.join("stdin.data"), doc);
            let expected = docs_expected(doc);
            let previous = b"PRECIOUS PREVIOUS OUTPUT\n".to_vec();
            let reset = |dir: &std::path::Path| {
                let _ = std::fs::remove_file(dir.join("out.svg"));
                if *prev_exists {
                    let _ = std::fs::write(dir.join("out.svg"), &previous);
                }
            };
            // counting run (twice: the fault points are a function of the case)
            let norm = |r: &FaultRun| -> Vec<(String, String)> { r.log.iter().map(|(_, op, p, _)| (op.clone(), if p.contains("/tmp/.tmp") { "<temp>".to_string() } else { p.rsplit('/').next().unwrap_or("").to_string() })).collect() };
            reset(&dir);
            let c1 = match fault_run(&shim, &dir, doc, *stdin_mode, "out.svg", 0, "fail", 28) {
                Ok(r) => r,
                Err(er) => {
                    e.push(format!("io-faults counting run: {er}"));
                    return (0, 0, v, e);
                }
            };
            runs += 1;
            if c1.code != Some(0) || std::fs::read(dir.join("out.svg")).unwrap_or_default() != expected {
                e.push(format!("io-faults: the run without a fault does not give the library's bytes under the shim (exit {:?}: {})", c1.code, clip(&String::from_utf8_lossy(&c1.stderr), 200)));
                return (runs, 0, v, e);
            }
            reset(&dir);
            if let Ok(c2) = fault_run(&shim, &dir, doc, *stdin_mode, "out.svg", 0, "fail", 28) {
                runs += 1;
                if norm(&c2) != norm(&c1) {
                    e.push(format!("io-faults: fault points differ between two runs of the same case ({dname}, stdin {stdin_mode}): {:?} vs {:?}", norm(&c1), norm(&c2)));
                    return (runs, 0, v, e);
                }
            }
            let n = c1.log.len() as u64;
            if n < 5 {
                e.push(format!("io-faults: only {n} fault points seen ({dname}, stdin {stdin_mode}) - the shim is not intercepting"));
                return (runs, 0, v, e);
            }
            for (kname, mode, errno) in &kinds {
                for k in 1..=n {
                    reset(&dir);
                    let r = fault_run(&shim, &dir, doc, *stdin_mode, "out.svg", k, mode, *errno);
                    runs += 1;
                    // the first point that failed, as the shim logged it
                    let site = |r: &FaultRun| -> String {
                        match r.log.iter().find(|(_, _, _, res)| *res < 0) {
                            Some((_, op, p, _)) => format!("{}/{op}", if p.ends_with("out.svg") { "on-output" } else if p.contains("/tmp/") { "on-temp" } else { "on-input" }),
                            None => "none".into(),
                        }
                    };
                    let mk = |clause: &str, site: &str, detail: String| Violation {
                        clause: clause.into(),
                        signature: format!("C07/io-fault/{clause}/{site}"),
                        case: json!({"leg": "io-fault", "doc": dname, "stdin": stdin_mode, "previous_output": prev_exists, "kind": kname, "fault_point": k, "of": n}),
                        detail,
                    };
                    match r {
                        Err(er) => v.push(mk("no-result", "?", er)),
                        Ok(r) => {
                            let st = site(&r);
                            let after = std::fs::read(dir.join("out.svg")).ok();
                            if std::fs::read(dir.join("in.xml")).unwrap_or_default() != *doc {
                                v.push(mk("input-file-damaged", &st, String::new()));
                                let _ = std::fs::write(dir.join("in.xml"), doc);
                            }
                            match r.code {
                                Some(0) => {
                                    if after.as_deref() != Some(&expected[..]) {
                                        v.push(mk("success-reported-with-wrong-bytes", &st, format!("exit 0 with fault {kname} at point {k}/{n} ({st}); out.svg holds {:?} bytes, expected {}", after.as_ref().map(|a| a.len()), expected.len())));
                                    }
                                }
                                Some(_) => {
                                    if r.stderr.is_empty() {
                                        v.push(mk("failure-without-message", &st, String::new()));
                                    }
                                    if *prev_exists && after.as_deref() != Some(&previous[..]) {
                                        v.push(mk("output-file-damaged", &st, format!("fault {kname} at point {k}/{n} ({st}): exit {:?} ({}), and the previous output ({} bytes) is now {:?} bytes", r.code, clip(String::from_utf8_lossy(&r.stderr).trim(), 120), previous.len(), after.as_ref().map(|a| a.len()))));
                                    }
                                }
                                None => v.push(mk("killed", &st, format!("fault {kname} at point {k}/{n}: the command was killed by a signal"))),
                            }
                        }
                    }
                }
            }
            (runs, n, v, e)
        })
        .collect();
    for (r, n, v, e) in results {
        runs += r;
        points += n;
        viol.extend(v);
        errs.extend(e);
    }
    (runs, points, viol, errs)
}

fn docs_expected(doc: &[u8]) -> Vec<u8> {
    match run_bytes(doc, &Cfg::default()) {
        Outcome::Ok(b) => b,
        _ => Vec::new(),
    }
}

pub fn replay_case(case: &Value) -> Option<Violation> {
    match case["leg"].as_str()? {
        "schedule" => {
            let cd = conc_docs();
            let names: Vec<&str> = case["documents"].as_array()?.iter().filter_map(|n| n.as_str()).collect();
            let docs: Vec<(Vec<u8>, Cfg)> = names.iter().filter_map(|n| cd.iter().find(|c| c.0 == *n)).map(|c| (c.1.clone(), c.2.clone())).collect();
            let solo: Vec<Outcome> = docs.iter().map(|(d, c)| run_bytes(d, c)).collect();
            let schedule: Vec<usize> = case["schedule"].as_array()?.iter().filter_map(|x| x.as_u64().map(|v| v as usize)).collect();
            let ex = execute(&docs, &schedule).ok()?;
            if ex.results != solo {
                Some(Violation { clause: "concurrent-result-differs-from-solo".into(), signature: "C07/replay".into(), case: case.clone(), detail: format!("{:?}", ex.results.iter().map(|r| clip(&r.brief(), 120)).collect::<Vec<_>>()) })
            } else {
                None
            }
        }
        _ => Some(Violation { clause: "replay".into(), signature: "C07/replay".into(), case: case.clone(), detail: "front-end cases are replayed by re-running the check".into() }),
    }
}
