//! C17 — Limits reject exactly when exceeded; depth means nesting, not length.
//!
//! Parametric boundary exploration: for every limit value L and every construct
//! that consumes the limit, documents at L-1, L, L+1, 2L (and beyond) are run
//! with a two-sided verdict (Err <=> parameter > L; Ok => nothing truncated),
//! plus the orthogonal "flat length" dimension and the depth-counter probe.

use crate::common::*;
use serde_json::{json, Value};

#[derive(Clone)]
struct Case {
    family: String,
    doc: String,
    cfg: Cfg,
    /// expected: Some(n) = Ok with exactly n marker elements (`<rect`), None = Err
    expect: Option<usize>,
    /// tolerance: the verdict at exactly this boundary is not asserted (see DESIGN: text content re-dispatch)
    unasserted: bool,
    param: i64,
    limit: i64,
}

fn with_limit(kind: &str, l: u32, via_config: bool, body: &str) -> (String, Cfg) {
    let mut cfg = Cfg::plain();
    if via_config {
        let attr = match kind {
            "depth" => "depth-limit",
            "loop" => "loop-limit",
            _ => "var-limit",
        };
        (format!("<config {attr}=\"{l}\"/>{body}"), cfg)
    } else {
        match kind {
            "depth" => cfg.depth_limit = l,
            "loop" => cfg.loop_limit = l,
            _ => cfg.var_limit = l,
        }
        (body.to_string(), cfg)
    }
}

const NESTERS: &[(&str, &str, &str)] = &[
    ("g", "<g>", "</g>"),
    ("a", "<a>", "</a>"),
    ("defs", "<defs>", "</defs>"),
    ("svg", "<svg>", "</svg>"),
    ("symbol", "<symbol>", "</symbol>"),
    ("clipPath", "<clipPath>", "</clipPath>"),
    ("marker", "<marker>", "</marker>"),
    ("switch", "<switch>", "</switch>"),
    ("loop", "<loop count=\"1\">", "</loop>"),
    ("if", "<if test=\"1\">", "</if>"),
    ("for", "<for var=\"q\" data=\"1\">", "</for>"),
];

fn nest(kinds: &[usize], leaf: &str) -> String {
    let mut s = String::new();
    for k in kinds {
        s.push_str(NESTERS[*k].1);
    }
    s.push_str(leaf);
    for k in kinds.iter().rev() {
        s.push_str(NESTERS[*k].2);
    }
    s
}

/// set by run() for the thorough tier: more limit values between the ones every run explores
static DEEP: std::sync::atomic::AtomicBool = std::sync::atomic::AtomicBool::new(false);

fn limits(tier: Tier) -> Vec<u32> {
    let mut v = tier.pick(vec![1, 2, 3, 5, 10], vec![1, 2, 3, 5, 10, 100]);
    if DEEP.load(std::sync::atomic::Ordering::Relaxed) {
        v.extend([4, 7, 16, 33]);
        v.sort();
    }
    v
}

fn params(l: u32) -> Vec<u32> {
    let mut v = vec![l.saturating_sub(1), l, l + 1, 2 * l, 2 * l + 3];
    v.sort();
    v.dedup();
    v
}

fn gen_cases(tier: Tier) -> Vec<Case> {
    let mut v = Vec::new();
    // ---------------- depth: nesting of every container kind (uniform and mixed pairs)
    for &l in &limits(tier) {
        for via in [false, true] {
            for d in params(l) {
                if d == 0 || d > 40 && tier == Tier::Quick {
                    continue;
                }
                // the <config> element itself sits at depth 1 and is always within any limit >= 1
                let nk = NESTERS.len();
                // uniform nesting: d-1 containers + leaf  => nesting depth d
                for k in 0..nk {
                    if d == 1 {
                        continue;
                    }
                    let kinds = vec![k; (d - 1) as usize];
                    let body = nest(&kinds, "<rect wh=\"1\"/>");
                    let (doc, cfg) = with_limit("depth", l, via, &body);
                    // content of defs/symbol/clipPath/marker is still rendered as elements (only bbox ignored)
                    let visible = 1;
                    v.push(Case {
                        family: format!("depth/{}", NESTERS[k].0),
                        doc,
                        cfg,
                        expect: if d > l { None } else { Some(visible) },
                        unasserted: false,
                        param: d as i64,
                        limit: l as i64,
                    });
                }
                // leaves which are shapes with content (text, CDATA, child element, explicit end tag) under groups
                if d >= 1 {
                    let kinds = vec![0usize; (d - 1) as usize];
                    for (ln, leaf, extra_depth) in [
                        ("leaf-text-content", "<rect wh=\"1\">hi</rect>", 0u32),
                        ("leaf-text-element", "<rect wh=\"1\"/><text xy=\"0\">hi</text>", 0),
                        ("leaf-cdata", "<rect wh=\"1\"><![CDATA[c]]></rect>", 0),
                        ("leaf-end-tag", "<rect wh=\"1\" text=\"t\"></rect>", 0),
                        ("leaf-box-content", "<rect wh=\"1\"/><box wh=\"2\">b</box>", 0),
                        ("leaf-with-title", "<rect wh=\"1\"><title>t</title></rect>", 1),
                    ] {
                        let body = nest(&kinds, leaf);
                        let (doc, cfg) = with_limit("depth", l, via, &body);
                        v.push(Case {
                            family: format!("depth/{ln}"),
                            doc,
                            cfg,
                            expect: if d + extra_depth > l { None } else { Some(1) },
                            unasserted: false,
                            param: (d + extra_depth) as i64,
                            limit: l as i64,
                        });
                    }
                }
                // leaf alone at depth 1
                if d == 1 {
                    let (doc, cfg) = with_limit("depth", l, via, "<rect wh=\"1\"/>");
                    v.push(Case {
                        family: "depth/leaf".into(),
                        doc,
                        cfg,
                        expect: if d > l { None } else { Some(1) },
                        unasserted: false,
                        param: 1,
                        limit: l as i64,
                    });
                }
                // mixed: alternate two kinds
                if d >= 3 && d <= 24 {
                    for k1 in 0..nk {
                        for k2 in 0..nk {
                            if k1 == k2 || (tier == Tier::Quick && (k1 + k2) % 3 != 0) {
                                continue;
                            }
                            let kinds: Vec<usize> =
                                (0..d - 1).map(|i| if i % 2 == 0 { k1 } else { k2 }).collect();
                            let body = nest(&kinds, "<rect wh=\"1\"/>");
                            let (doc, cfg) = with_limit("depth", l, via, &body);
                            v.push(Case {
                                family: format!("depth/{}+{}", NESTERS[k1].0, NESTERS[k2].0),
                                doc,
                                cfg,
                                expect: if d > l { None } else { Some(1) },
                                unasserted: false,
                                param: d as i64,
                                limit: l as i64,
                            });
                        }
                    }
                }
                // text with content as the leaf: the element is dispatched twice (content promoted to the
                // text attribute), so the verdict exactly at d == l is not asserted
                if d >= 1 {
                    let kinds = vec![0usize; (d - 1) as usize];
                    let body = nest(&kinds, "<text>hi</text><rect wh=\"1\"/>");
                    let (doc, cfg) = with_limit("depth", l, via, &body);
                    v.push(Case {
                        family: "depth/text-content-leaf".into(),
                        doc,
                        cfg,
                        expect: if d > l { None } else { Some(1) },
                        unasserted: d == l,
                        param: d as i64,
                        limit: l as i64,
                    });
                }
                // reuse chain: r_1 -> r_2 -> ... -> rect ; instantiating counts as nesting into the target
                if d >= 2 && d <= 30 {
                    let mut body = String::from("<specs><rect id=\"t0\" wh=\"1\"/>");
                    for i in 1..(d - 1) {
                        body.push_str(&format!("<reuse id=\"t{i}\" href=\"#t{}\"/>", i - 1));
                    }
                    body.push_str("</specs>");
                    body.push_str(&format!("<reuse href=\"#t{}\"/>", d - 2));
                    let (doc, cfg) = with_limit("depth", l, via, &body);
                    v.push(Case {
                        family: "depth/reuse-chain".into(),
                        doc,
                        cfg,
                        expect: if d > l { None } else { Some(1) },
                        // elements inside <specs> are evaluated one level deeper than the instantiation
                        // itself and their errors are ignored by design; only clear-cut cases are asserted
                        unasserted: d == l || d == l + 1,
                        param: d as i64,
                        limit: l as i64,
                    });
                }
            }
            // self-recursive reuse must be rejected (reuse recursion deeper than depth-limit), never crash
            let body = "<g id=\"r\"><rect wh=\"1\"/><reuse href=\"#r\"/></g>";
            let (doc, cfg) = with_limit("depth", l, via, body);
            v.push(Case {
                family: "depth/recursive-reuse".into(),
                doc,
                cfg,
                expect: None,
                unasserted: false,
                param: i64::MAX,
                limit: l as i64,
            });
        }
    }
    // ---------------- flat length: m siblings of every element kind never trip the depth limit
    let sibs: &[(&str, &str, usize)] = &[
        ("rect", "<rect wh=\"1\"/>", 1),
        ("text-content", "<text>hi</text>", 0),
        ("text-attr", "<text text=\"hi\"/>", 0),
        ("rect-content", "<rect wh=\"1\">hi</rect>", 1),
        ("defs-empty", "<defs></defs>", 0),
        ("defs-child", "<defs><rect wh=\"1\"/></defs>", 1),
        ("g", "<g><rect wh=\"1\"/></g>", 1),
        ("a", "<a><rect wh=\"1\"/></a>", 1),
        ("gradient", "<linearGradient><stop offset=\"0\"/></linearGradient>", 0),
        ("style", "<style>rect { fill: red; }</style>", 0),
        ("title", "<title>t</title>", 0),
        ("svg", "<svg><rect wh=\"1\"/></svg>", 1),
        ("symbol", "<symbol><rect wh=\"1\"/></symbol>", 1),
        ("clipPath", "<clipPath><rect wh=\"1\"/></clipPath>", 1),
        ("loop", "<loop count=\"1\"><rect wh=\"1\"/></loop>", 1),
        ("if", "<if test=\"1\"><rect wh=\"1\"/></if>", 1),
        ("var", "<var q=\"1\"/>", 0),
        ("tspan", "<text><tspan>a</tspan></text>", 0),
        ("cdata", "<text><![CDATA[hi]]></text>", 0),
        ("comment", "<!-- c -->", 0),
    ];
    for &l in &[3u32, 5, 10, 100] {
        if l == 100 && tier == Tier::Quick {
            // default limit: the case from the property statement (about 100 siblings)
        }
        for via in [false, true] {
            for &(name, el, rects) in sibs {
                let ms: Vec<u32> = if l == 100 {
                    vec![99, 100, 101, 250]
                } else {
                    vec![1, l, l + 1, 3 * l, 20 * l]
                };
                for m in ms {
                    for wrap in [0, 1, 2] {
                        if wrap == 2 && l < 5 {
                            continue;
                        }
                        // wrap 0: fragment; 1: inside <svg>; 2: inside <svg><g>
                        let inner: String = el.repeat(m as usize);
                        let body = match wrap {
                            0 => inner,
                            1 => format!("<svg>{inner}</svg>"),
                            _ => format!("<svg><g>{inner}</g></svg>"),
                        };
                        let (doc, cfg) = with_limit("depth", l, via, &body);
                        v.push(Case {
                            family: format!("flat/{name}"),
                            doc,
                            cfg,
                            expect: Some(rects * m as usize),
                            unasserted: false,
                            param: m as i64,
                            limit: l as i64,
                        });
                    }
                }
            }
        }
    }
    // flat chains of forward references: m siblings, each positioned relative to the NEXT one, so the
    // retry loop makes ~m^2/2 failed attempts; none of them may consume nesting depth
    for &l in &[3u32, 5, 10] {
        for via in [false, true] {
            for m in [2u32, l, l + 1, 3 * l] {
                for (name, open, close) in [("plain", "", ""), ("content", ">t</rect", "")] {
                    let mut body = String::from("<svg>");
                    for i in 0..m {
                        if name == "plain" {
                            body.push_str(&format!("<rect id=\"f{i}\" xy=\"#f{}|h\" wh=\"1\"/>", i + 1));
                        } else {
                            body.push_str(&format!("<rect id=\"f{i}\" xy=\"#f{}|h\" wh=\"1\">t</rect>", i + 1));
                        }
                    }
                    let _ = (open, close);
                    body.push_str(&format!("<rect id=\"f{m}\" wh=\"1\"/></svg>"));
                    let (doc, cfg) = with_limit("depth", l, via, &body);
                    v.push(Case {
                        family: format!("flat/forward-chain-{name}"),
                        doc,
                        cfg,
                        expect: Some(m as usize + 1),
                        unasserted: false,
                        param: m as i64,
                        limit: l as i64,
                    });
                }
            }
        }
    }
    // ---------------- loop limit
    for &l in &limits(tier) {
        for via in [false, true] {
            for n in params(l) {
                let forms: Vec<(&str, String, bool)> = vec![
                    ("count", format!("<loop count=\"{n}\"><rect wh=\"1\"/></loop>"), false),
                    ("count-sibling", format!("<rect wh=\"1\"/><loop count=\"{n}\"><rect wh=\"1\"/></loop>"), true),
                    (
                        "while",
                        format!("<var k=\"0\"/><loop while=\"lt($k, {n})\"><var k=\"{{{{$k + 1}}}}\"/><rect wh=\"1\"/></loop>"),
                        false,
                    ),
                    (
                        "while-in-svg",
                        format!("<svg><var k=\"0\"/><loop while=\"lt($k, {n})\"><var k=\"{{{{$k + 1}}}}\"/><rect wh=\"1\"/></loop></svg>"),
                        false,
                    ),
                    (
                        "until",
                        format!("<var k=\"0\"/><loop until=\"ge($k, {n})\"><var k=\"{{{{$k + 1}}}}\"/><rect wh=\"1\"/></loop>"),
                        false,
                    ),
                    (
                        "for",
                        format!(
                            "<for var=\"q\" data=\"{}\"><rect wh=\"1\"/></for>",
                            (0..n).map(|i| i.to_string()).collect::<Vec<_>>().join(", ")
                        ),
                        false,
                    ),
                    (
                        "loop-var",
                        format!("<loop count=\"{n}\" loop-var=\"i\"><rect x=\"$i\" wh=\"1\"/></loop>"),
                        false,
                    ),
                ];
                for (name, body, extra) in forms {
                    if n == 0 && (name == "until" || name == "for") {
                        continue; // until runs at least once; empty for data is a different case
                    }
                    let (doc, cfg) = with_limit("loop", l, via, &body);
                    let rects = n as usize + if extra { 1 } else { 0 };
                    v.push(Case {
                        family: format!("loop/{name}"),
                        doc,
                        cfg,
                        expect: if n > l { None } else { Some(rects) },
                        unasserted: false,
                        param: n as i64,
                        limit: l as i64,
                    });
                }
                // nested loops each within the limit: n x n is fine when n <= l even if n*n > l
                if n >= 1 && n <= 12 {
                    let body = format!("<loop count=\"{n}\"><loop count=\"{n}\"><rect wh=\"1\"/></loop></loop>");
                    let (doc, cfg) = with_limit("loop", l, via, &body);
                    v.push(Case {
                        family: "loop/nested".into(),
                        doc,
                        cfg,
                        expect: if n > l { None } else { Some((n * n) as usize) },
                        unasserted: false,
                        param: n as i64,
                        limit: l as i64,
                    });
                }
                // a loop that is re-entered because it contains a forward reference
                if n >= 1 {
                    let body = format!(
                        "<loop count=\"{n}\"><rect xy=\"#z|h\" wh=\"1\"/></loop><rect id=\"z\" wh=\"1\"/>"
                    );
                    let (doc, cfg) = with_limit("loop", l, via, &body);
                    v.push(Case {
                        family: "loop/retried".into(),
                        doc,
                        cfg,
                        expect: if n > l { None } else { Some(n as usize + 1) },
                        unasserted: false,
                        param: n as i64,
                        limit: l as i64,
                    });
                }
            }
        }
    }
    // ---------------- a loop whose body waits for a forward reference stays within its limits
    for (name, body, rects) in [
        ("until", "<var i=\"0\"/><loop until=\"eq($i, 1)\"><var i=\"{{$i+1}}\"/><rect xy=\"#z|h\" wh=\"1\"/></loop><rect id=\"z\" wh=\"1\"/>", 2usize),
        ("var-growth", "<var s=\"ab\"/><loop count=\"1\"><var s=\"$s$s\"/><rect xy=\"#z|h\" wh=\"1\"/></loop><rect id=\"z\" wh=\"1\"/>", 2),
    ] {
        let cfg = if name == "until" { Cfg::plain() } else { Cfg { var_limit: 4, ..Cfg::plain() } };
        v.push(Case { family: format!("deferred-loop-body/{name}"), doc: body.to_string(), cfg, expect: Some(rects), unasserted: false, param: 1, limit: if name == "until" { 1000 } else { 4 } });
    }
    // ---------------- variable length
    for &l in &limits(tier) {
        for via in [false, true] {
            for n in params(l) {
                let lit = "a".repeat(n as usize);
                let forms: Vec<(&str, String)> = vec![
                    ("literal", format!("<var v=\"{lit}\"/><rect wh=\"1\"/>")),
                    ("literal-in-svg", format!("<svg><rect wh=\"1\"/><var v=\"{lit}\"/></svg>")),
                    ("copy", format!("<g w=\"{lit}\"><var v=\"$w\"/><rect wh=\"1\"/></g>")),
                    ("two", format!("<var a=\"b\" v=\"{lit}\"/><rect wh=\"1\"/>")),
                    // the length is counted in characters; every kind of variable is limited
                    ("multibyte", format!("<var v=\"{}\"/><rect wh=\"1\"/>", "\u{e9}".repeat(n as usize))),
                    ("for-var", format!("<for data=\"'{lit}'\" var=\"v\"><rect wh=\"1\"/></for>")),
                    ("for-var-second-item", format!("<rect wh=\"1\"/><for data=\"'a', '{lit}'\" var=\"v\"><g/></for>")),
                    ("loop-var", format!("<loop count=\"1\" loop-var=\"i\" start=\"1{}\"><rect wh=\"1\"/></loop>", "1".repeat((n as usize).saturating_sub(1)))),
                ];
                for (name, body) in forms {
                    let (doc, cfg) = with_limit("var", l, via, &body);
                    v.push(Case {
                        family: format!("var/{name}"),
                        doc,
                        cfg,
                        expect: if n > l { None } else { Some(1) },
                        unasserted: false,
                        param: n as i64,
                        limit: l as i64,
                    });
                }
            }
            // growth by self-concatenation: after j doublings the length is 2^j
            for j in 0..8u32 {
                let body = format!(
                    "<var v=\"a\"/><loop count=\"{j}\"><var v=\"$v$v\"/></loop><rect wh=\"1\"/>"
                );
                let (doc, cfg) = with_limit("var", l, via, &body);
                let len = 1u32 << j;
                v.push(Case {
                    family: "var/growth".into(),
                    doc,
                    cfg,
                    expect: if len > l { None } else { Some(1) },
                    unasserted: false,
                    param: len as i64,
                    limit: l as i64,
                });
            }
        }
    }
    // ---------------- second review round
    // a flat chain of clip paths each clipped by the previous one: reference length is not nesting depth
    for &(l, via) in &[(2u32, true), (3, false), (100, false)] {
        for n in [l - 1, l, l + 1, 3 * l] {
            let mut body = String::from("<clipPath id=\"c0\"><rect wh=\"50\"/></clipPath>");
            for i in 1..=n {
                body.push_str(&format!("<clipPath id=\"c{i}\" clip-path=\"url(#c{})\"><rect wh=\"{}\"/></clipPath>", i - 1, 50 + i));
            }
            body.push_str(&format!("<rect wh=\"60\" clip-path=\"url(#c{n})\"/>"));
            let (doc, cfg) = with_limit("depth", l.max(2), via, &body);
            v.push(Case { family: "depth/flat-clip-chain".into(), doc, cfg, expect: Some(n as usize + 2), unasserted: false, param: n as i64, limit: l as i64 });
        }
    }
    // a limit set by a LATER <config> does not apply to an element written before it, also when that element waits
    // for a forward reference (and a limit lifted later does not excuse it)
    for (name, body, expect) in [
        ("loop-limit-lowered-later", "<loop count=\"5\"><rect xy=\"#z|h\" wh=\"1\"/></loop><config loop-limit=\"2\"/><rect id=\"z\" wh=\"1\"/>", Some(6usize)),
        ("loop-limit-lifted-later", "<config loop-limit=\"3\"/><loop count=\"5\"><rect xy=\"#z|h\" wh=\"1\"/></loop><config loop-limit=\"2000\"/><rect id=\"z\" wh=\"1\"/>", None),
        ("depth-limit-lowered-later", "<g><g><rect xy=\"#z|h\" wh=\"1\"/></g></g><config depth-limit=\"2\"/><rect id=\"z\" wh=\"1\"/>", Some(2)),
        ("var-limit-lowered-later", "<g q=\"abcdef\"><rect xy=\"#z|h\" wh=\"1\"/></g><config var-limit=\"2\"/><rect id=\"z\" wh=\"1\"/>", Some(2)),
        // (fourth review round) ... and a limit configured between a waiting element and what it waits for stays in
        // force when that element, which has a <config> of its own, is done
        ("limit-configured-meanwhile/lifted", "<g><g><config border=\"1\"/><rect xy=\"#z|h\" wh=\"1\"/></g><config loop-limit=\"2000\"/><rect id=\"z\" wh=\"1\"/></g><loop count=\"1500\"><rect wh=\"1\"/></loop>", Some(1502)),
        ("limit-configured-meanwhile/lowered", "<g><g><config border=\"1\"/><rect xy=\"#z|h\" wh=\"1\"/></g><config loop-limit=\"3\"/><rect id=\"z\" wh=\"1\"/></g><loop count=\"5\"><rect wh=\"1\"/></loop>", None),
        ("limit-configured-meanwhile/var", "<g><g><config border=\"1\"/><rect xy=\"#z|h\" wh=\"1\"/></g><config var-limit=\"3\"/><rect id=\"z\" wh=\"1\"/></g><var a=\"12345\"/>", None),
        ("limit-configured-meanwhile/depth", "<g><g><config border=\"1\"/><rect xy=\"#z|h\" wh=\"1\"/></g><config depth-limit=\"3\"/><rect id=\"z\" wh=\"1\"/></g><g><g><g><rect wh=\"1\"/></g></g></g>", None),
        // a limit configured inside an element which has to wait is in force for what is written after it
        ("limit-configured-in-waiting-element/loop", "<g><config loop-limit=\"1\"/><rect xy=\"#z|h\" wh=\"1\"/></g><loop count=\"2\"><rect wh=\"1\"/></loop><rect id=\"z\" wh=\"1\"/>", None),
        ("limit-configured-in-waiting-element/var", "<g><config var-limit=\"1\"/><rect xy=\"#z|h\" wh=\"1\"/></g><var a=\"123\"/><rect id=\"z\" wh=\"1\"/>", None),
        ("control-no-forward-reference", "<loop count=\"5\"><rect wh=\"1\"/></loop><config loop-limit=\"2\"/><rect id=\"z\" wh=\"1\"/>", Some(6)),
    ] {
        v.push(Case { family: format!("deferred-config/{name}"), doc: body.to_string(), cfg: Cfg::plain(), expect, unasserted: false, param: 5, limit: 2 });
    }
    // the _ / __ comment attributes are not variables
    for via in [false, true] {
        for holder in ["<g _=\"@\"><rect wh=\"1\"/></g>", "<g __=\"@\"><rect wh=\"1\"/></g>", "<specs><rect id=\"t\" wh=\"1\"/></specs><reuse href=\"#t\" _=\"@\"/>", "<rect wh=\"1\" _=\"@\"/>", "<var _=\"@\" a=\"1\"/><rect wh=\"1\"/>"] {
            let (doc, cfg) = with_limit("var", 4, via, &holder.replace('@', "a comment longer than four characters"));
            v.push(Case { family: "var/comment-attribute".into(), doc, cfg, expect: Some(1), unasserted: false, param: 37, limit: 4 });
        }
    }
    // an element at the depth boundary is counted whatever it is: a passed-through <svg xmlns=..> too
    for &l in &[1u32, 2, 3] {
        for (form, el) in [("empty", "<svg xmlns=\"http://www.w3.org/2000/svg\"/>"), ("end-tag", "<svg xmlns=\"http://www.w3.org/2000/svg\"></svg>"), ("content", "<svg xmlns=\"http://www.w3.org/2000/svg\"><rect width=\"1\" height=\"1\"/></svg>")] {
            for k in [l - 1, l, l + 1] {
                // k groups around the element: its own depth is k + 1
                let body = format!("{}{el}{}", "<g>".repeat(k as usize), "</g>".repeat(k as usize));
                let cfg = Cfg { depth_limit: l, ..Cfg::plain() };
                let rects = if form == "content" { 1 } else { 0 };
                // (at the top it is the document, which as real SVG is not processed at all)
                if k == 0 {
                    continue;
                }
                // (its content is nested one deeper)
                let depth = if form == "content" { k + 2 } else { k + 1 };
                v.push(Case { family: format!("depth/passed-through-svg-{form}"), doc: body, cfg, expect: if depth > l { None } else { Some(rects) }, unasserted: false, param: depth as i64, limit: l as i64 });
            }
        }
    }
    // ... and the content of <defaults>, which is nesting like any other
    for &l in &[1u32, 2, 3] {
        for k in [l - 1, l, l + 1] {
            // k - 1 groups inside <defaults> around the <rect>, which is then at depth k + 1
            if k == 0 {
                continue;
            }
            let body = format!("<defaults>{}<rect fill=\"red\"/>{}</defaults><rect wh=\"1\"/>", "<g>".repeat(k as usize - 1), "</g>".repeat(k as usize - 1));
            let cfg = Cfg { depth_limit: l, ..Cfg::plain() };
            v.push(Case { family: "depth/defaults-content".into(), doc: body, cfg, expect: if k + 1 > l { None } else { Some(1) }, unasserted: false, param: (k + 1) as i64, limit: l as i64 });
        }
    }
    v
}

fn check(c: &Case) -> CaseResult {
    let (out, probe) = run_probe(c.doc.as_bytes(), &c.cfg);
    let case = json!({"family": c.family, "input": c.doc, "config": c.cfg.to_json(),
        "expect": c.expect, "unasserted": c.unasserted, "param": c.param, "limit": c.limit});
    let mk = |clause: &str, detail: String| {
        Some(Violation {
            clause: clause.to_string(),
            signature: format!("C17/{}/{}", c.family, clause.split(':').next().unwrap_or(clause).replace(' ', "-")),
            case: case.clone(),
            detail,
        })
    };
    let mut viol = None;
    match (&out, c.expect) {
        (Outcome::Panic(p), _) => viol = mk("panic", p.clone()),
        _ if c.unasserted => {}
        (Outcome::Ok(b), None) => {
            viol = mk(
                "accepted-over-limit",
                format!("parameter {} exceeds limit {} but the transform succeeded:\n{}", c.param, c.limit, clip(&String::from_utf8_lossy(b), 500)),
            )
        }
        (Outcome::Err(e), Some(_)) => {
            viol = mk(
                "rejected-within-limit",
                format!("parameter {} is within limit {} but the transform failed: {}", c.param, c.limit, clip(e, 300)),
            )
        }
        (Outcome::Ok(b), Some(n)) => {
            let s = String::from_utf8_lossy(b);
            let got = s.matches("<rect").count();
            if got != n {
                viol = mk(
                    "truncated",
                    format!("expected {n} rendered <rect> elements, found {got}:\n{}", clip(&s, 500)),
                );
            }
        }
        (Outcome::Err(_), None) => {}
    }
    if viol.is_none() {
        if let Some(p) = &probe {
            let depth_err = matches!(&out, Outcome::Err(e) if e.contains("epth"));
            if !depth_err && p.current_depth != 0 {
                viol = mk(
                    "depth-counter-not-restored",
                    format!("depth counter is {} after the transform ended ({})", p.current_depth, out.brief()),
                );
            }
        }
    }
    CaseResult {
        case_hash: hash64(&(&c.doc, c.cfg.to_json().to_string())),
        nontrivial: !c.unasserted && (c.param + 1 >= c.limit || c.family.starts_with("flat/")),
        outcome_hash: hash64(&(c.family.as_str(), out.is_ok(), c.param > c.limit)),
        executions: 1,
        violation: viol,
    }
}

pub fn run(tier: Tier) -> i32 {
    let mut rep = Report::new("C17", tier, "model_checking");
    // the quick tier explores what used to be the thorough space (it takes seconds); `deep` adds the wider bounds
    let deep = tier == Tier::Thorough;
    DEEP.store(deep, std::sync::atomic::Ordering::Relaxed);
    let tier = Tier::Thorough;
    let cases = gen_cases(tier);
    rep.set("rule", json!("Parametric boundary exploration: limit kinds {depth, loop, var} x L in {1,2,3,5,10,100} (thorough tier: also 4,7,16,33) set through the API and through <config> x parameter in {L-1, L, L+1, 2L, 2L+3} x every construct that consumes the limit (11 nesting elements uniform and in alternating pairs, reuse chains, recursive reuse; count/while/until/for loops, nested and retried loops; literal, copied and self-doubling variables) plus the flat-length dimension (m siblings of 20 element kinds, m up to 20L / 250 at the default limit, at three wrapping levels). State = (document, configuration); transition = one execution of the real transform with the depth probe. Two-sided verdict: Err <=> parameter > L, Ok => exact count of rendered marker elements (no truncation), depth counter back to 0. Non-trivial = parameter within 1 of the boundary or a flat-length case."));
    rep.set("also_later", json!("Rounds 4-5 added: limits configured between a waiting element and what it waits for, and inside a waiting element; nesting inside a passed-through <svg> and inside <defaults>."));
    rep.set("also", json!("Also: leaves which are shapes with text content, a separate <text>, CDATA, an explicit end tag, <box> content or a <title> child at every depth boundary; variable length counted in characters (multi-byte) and applied to for / loop variables; loops whose body waits for a forward reference."));
    let st = run_space(cases.len(), |i| check(&cases[i]));
    rep.set("states", json!(st.distinct_inputs));
    rep.set("transitions", json!(st.evaluations));
    rep.set("traces_validated_against_impl", json!(st.evaluations));
    for i in [0usize, cases.len() / 3, cases.len() / 2, cases.len() - 1] {
        let c = &cases[i];
        rep.sample(json!({"family": c.family, "doc": clip(&c.doc, 300), "limit": c.limit, "param": c.param, "expect": c.expect.map(|n| format!("Ok with {n} <rect>")).unwrap_or("Err".into())}));
    }
    rep.absorb("boundaries", st);
    rep.assume("text content is re-dispatched through the text attribute (one extra level), so the verdict exactly at depth == L is not asserted for that leaf; reuse chains through <specs> are asserted only two or more levels away from the boundary");
    rep.assume("error wording is not matched; any Err on an otherwise valid document counts as a rejection by the limit");
    rep.finish()
}

pub fn replay_case(case: &Value) -> Option<Violation> {
    let c = Case {
        family: case["family"].as_str().unwrap_or("").to_string(),
        doc: case["input"].as_str().unwrap_or("").to_string(),
        cfg: Cfg::from_json(&case["config"]),
        expect: case["expect"].as_u64().map(|n| n as usize),
        unasserted: case["unasserted"].as_bool().unwrap_or(false),
        param: case["param"].as_i64().unwrap_or(0),
        limit: case["limit"].as_i64().unwrap_or(0),
    };
    check(&c).violation
}
