//! C04 — Standard SVG content inside svgdx documents is accepted and preserved.
//!
//! Table-driven bounded-exhaustive generation from the SVG 1.1 vocabulary:
//! (a) element x attribute x value grammar, (b) path / points / transform
//! grammars, (c) parent/child structure; oracle = the output element tree
//! equals the input tree (numbers to 3 decimals) apart from root attributes and
//! the documented text-content reinterpretation.

use crate::common::*;
use crate::xmlref::{self, Element, Mode, Node};
use serde_json::{json, Value};

/// (element, numeric/length attributes, other (attribute, value) pairs that make it well-formed)
const ELEMENTS: &[(&str, &[&str], &[(&str, &str)])] = &[
    ("rect", &["x", "y", "width", "height", "rx", "ry"], &[("width", "30"), ("height", "20")]),
    ("circle", &["cx", "cy", "r"], &[("r", "7")]),
    ("ellipse", &["cx", "cy", "rx", "ry"], &[("rx", "7"), ("ry", "4")]),
    ("line", &["x1", "y1", "x2", "y2"], &[("x1", "1"), ("y1", "2"), ("x2", "30"), ("y2", "20")]),
    ("image", &["x", "y", "width", "height"], &[("width", "30"), ("height", "20"), ("href", "a.png")]),
    ("text", &["x", "y", "dx", "dy", "rotate", "textLength"], &[]),
    ("tspan", &["x", "y", "dx", "dy"], &[]),
    ("svg", &["x", "y", "width", "height"], &[("viewBox", "0 0 10 10")]),
    ("foreignObject", &["x", "y", "width", "height"], &[("width", "30"), ("height", "20")]),
    ("linearGradient", &["x1", "y1", "x2", "y2"], &[("id", "lg")]),
    ("radialGradient", &["cx", "cy", "r", "fx", "fy"], &[("id", "rg")]),
    ("stop", &["offset"], &[("stop-color", "red")]),
    ("marker", &["markerWidth", "markerHeight", "refX", "refY"], &[("id", "mk"), ("orient", "auto")]),
    ("pattern", &["x", "y", "width", "height"], &[("id", "pt"), ("patternUnits", "userSpaceOnUse")]),
    ("mask", &["x", "y", "width", "height"], &[("id", "ms")]),
    ("filter", &["x", "y", "width", "height"], &[("id", "fl")]),
    ("feGaussianBlur", &["stdDeviation"], &[("in", "SourceAlpha")]),
    ("feOffset", &["dx", "dy"], &[]),
    ("use", &["x", "y", "width", "height"], &[("href", "#tgt")]),
];

const NUMBERS: &[&str] = &["10", "-10", "+10", ".5", "5.", "1e1", "1E-1", "-.5e+1", "010", "0", "2.5"];
const UNITS: &[&str] = &["", "px", "mm", "cm", "in", "pt", "pc", "em", "ex", "%"];

const PRESENTATION: &[(&str, &str)] = &[
    ("fill", "#ff0000"), ("stroke", "rgb(1, 2, 3)"), ("stroke-width", "2.5"), ("opacity", ".5"), ("fill", "url(#lg)"), ("transform", "rotate(45 10 10)"),
    ("stroke-dasharray", "1 2, 3"), ("font-size", "12px"), ("style", "fill: none; stroke: blue"), ("class", "mine other"), ("id", "own"), ("clip-rule", "evenodd"),
    ("visibility", "hidden"), ("display", "none"), ("xml:space", "preserve"), ("data-custom", "a b c"), ("tabindex", "0"), ("pointer-events", "none"),
    ("clip-path", "none"), ("clip-path", "circle(40%)"), ("clip-path", "inherit"), ("mask", "none"), ("filter", "none"), ("marker-end", "none"), ("fill", "none"),
];

fn parse_number(s: &str) -> Option<f64> {
    // SVG number grammar: optional sign, digits with optional fraction (or fraction only), optional exponent
    let t = s.trim();
    let b = t.as_bytes();
    let mut i = 0;
    if i < b.len() && (b[i] == b'+' || b[i] == b'-') {
        i += 1;
    }
    let ds = i;
    while i < b.len() && b[i].is_ascii_digit() {
        i += 1;
    }
    let mut digits = i - ds;
    if i < b.len() && b[i] == b'.' {
        i += 1;
        let fs = i;
        while i < b.len() && b[i].is_ascii_digit() {
            i += 1;
        }
        digits += i - fs;
    }
    if digits == 0 {
        return None;
    }
    if i < b.len() && (b[i] == b'e' || b[i] == b'E') {
        let mut j = i + 1;
        if j < b.len() && (b[j] == b'+' || b[j] == b'-') {
            j += 1;
        }
        let es = j;
        while j < b.len() && b[j].is_ascii_digit() {
            j += 1;
        }
        if j > es {
            i = j;
        }
    }
    if i != b.len() {
        return None;
    }
    t.trim_start_matches('+').parse::<f64>().ok().or_else(|| {
        // "5." style
        t.trim_start_matches('+').trim_end_matches('.').parse::<f64>().ok()
    })
}

fn same_value(a: &str, b: &str) -> bool {
    if a == b {
        return true;
    }
    match (parse_number(a), parse_number(b)) {
        (Some(x), Some(y)) => (x - y).abs() <= 0.00051 + 1e-6 * x.abs(),
        _ => {
            // lists of numbers (points, dasharray, viewBox, path data) are compared token-wise
            let split = |s: &str| -> Vec<String> { s.split(|c: char| c == ',' || c.is_whitespace()).filter(|t| !t.is_empty()).map(|t| t.to_string()).collect() };
            let (ta, tb) = (split(a), split(b));
            ta.len() == tb.len()
                && !ta.is_empty()
                && ta.iter().zip(tb.iter()).all(|(x, y)| {
                    x == y
                        || match (parse_number(x), parse_number(y)) {
                            (Some(p), Some(q)) => (p - q).abs() <= 0.00051 + 1e-6 * p.abs(),
                            _ => false,
                        }
                })
        }
    }
}

/// without leading and trailing XML white space (U+00A0 and the like are characters, not white space)
fn xtrim(s: &str) -> &str {
    s.trim_matches(|c| matches!(c, ' ' | '\t' | '\n' | '\r'))
}

fn significant(nodes: &[Node]) -> Vec<&Node> {
    // (comments are not part of the property: it speaks of elements, attributes, text and tree position)
    nodes.iter().filter(|n| !matches!(n, Node::Text(t) if xtrim(t).is_empty()) && !matches!(n, Node::Comment(_))).collect()
}

/// Compare an input element with the output element; `root` allows the synthesised root attributes.
fn same_tree(inp: &Element, out: &Element, root: bool, path: &str) -> Result<(), String> {
    if inp.name != out.name {
        return Err(format!("{path}: element <{}> became <{}>", inp.name, out.name));
    }
    for (k, v) in &inp.attrs {
        match out.attr(k) {
            None => return Err(format!("{path}/<{}>: attribute {k}=\"{v}\" is missing from the output ({:?})", inp.name, out.attrs)),
            Some(o) if !same_value(v, o) => return Err(format!("{path}/<{}>: attribute {k}=\"{v}\" became \"{o}\"", inp.name)),
            _ => {}
        }
    }
    for (k, v) in &out.attrs {
        if inp.attr(k).is_none() {
            // (the documented reinterpretation: character-only content of a <text> is re-emitted as generated text, which carries svgdx's text class)
            let generated_text = inp.name == "text" && k == "class" && v == "d-text" && inp.children.iter().all(|c| matches!(c, Node::Text(_) | Node::CData(_)));
            let allowed = generated_text || (root && matches!(k.as_str(), "version" | "xmlns" | "width" | "height" | "viewBox"));
            if !allowed {
                return Err(format!("{path}/<{}>: attribute {k}=\"{v}\" was added", inp.name));
            }
        }
    }
    let (ci, co) = (significant(&inp.children), significant(&out.children));
    if ci.len() != co.len() {
        return Err(format!("{path}/<{}>: {} child nodes became {}", inp.name, ci.len(), co.len()));
    }
    for (a, b) in ci.iter().zip(co.iter()) {
        match (a, b) {
            (Node::El(x), Node::El(y)) => same_tree(x, y, false, &format!("{path}/{}", inp.name))?,
            (Node::Text(x), Node::Text(y)) | (Node::CData(x), Node::CData(y)) | (Node::Comment(x), Node::Comment(y)) => {
                if xtrim(x) != xtrim(y) {
                    return Err(format!("{path}/<{}>: character data {x:?} became {y:?}", inp.name));
                }
            }
            (x, y) => return Err(format!("{path}/<{}>: node {x:?} became {y:?}", inp.name)),
        }
    }
    Ok(())
}

fn check(doc: &str, leg: &str, class: &str) -> CaseResult {
    let case = json!({"leg": leg, "input": doc});
    let mut viol = None;
    let mut mk = |clause: &str, detail: String| {
        if viol.is_none() {
            viol = Some(Violation { clause: clause.into(), signature: format!("C04/{leg}/{clause}/{class}"), case: case.clone(), detail });
        }
    };
    let rooted = doc.starts_with("<svg");
    let mode = if rooted { Mode::Document } else { Mode::Content };
    let inp = match xmlref::parse_tree(doc.as_bytes(), mode) {
        Ok(t) => t,
        Err(e) => {
            mk("machinery-ill-formed-input", e.to_string());
            vec![]
        }
    };
    let out = run_str(doc, &Cfg::plain());
    let mut ok = false;
    match &out {
        Outcome::Panic(p) => mk("panic", p.clone()),
        Outcome::Err(e) => mk("standard-svg-rejected", format!("{doc}\n{}", clip(e, 300))),
        Outcome::Ok(o) => match xmlref::parse_tree(o, mode) {
            Err(e) => mk("output-ill-formed", format!("{e}\n{}", clip(&String::from_utf8_lossy(o), 300))),
            Ok(t) => {
                let (ii, oo) = (significant(&inp), significant(&t));
                if ii.len() != oo.len() {
                    mk("not-preserved", format!("{doc}\n{} top-level nodes became {}\n{}", ii.len(), oo.len(), clip(&String::from_utf8_lossy(o), 400)));
                } else {
                    ok = true;
                    for (a, b) in ii.iter().zip(oo.iter()) {
                        if let (Node::El(x), Node::El(y)) = (a, b) {
                            if let Err(e) = same_tree(x, y, rooted, "") {
                                mk("not-preserved", format!("{doc}\n{e}\noutput: {}", clip(&String::from_utf8_lossy(o), 400)));
                            }
                        }
                    }
                }
            }
        },
    }
    if let Some(v) = viol.as_mut() {
        // open finding: a <line> with an omitted coordinate (SVG: defaults to 0) - see KNOWN_FINDINGS.txt
        if class == "special/defs" && doc.contains("<circle id=\"tc\"") && v.clause == "not-preserved" && v.detail.contains("<use>: attribute x=") {
            v.signature = "C04/use-of-centred-shape-repositioned".into();
        }
        if leg == "references" && (class.contains("/circle/") || class.contains("/ellipse/")) && v.clause == "not-preserved" && (v.detail.contains("<use>: attribute x=") || v.detail.contains("<use>: attribute y=")) {
            v.signature = "C04/use-of-centred-shape-repositioned".into();
        }
        if class.starts_with("line-omitted-coordinate/") && v.clause == "not-preserved" && v.detail.contains("was added") {
            v.signature = "C04/line-omitted-coordinate-not-defaulted-to-zero".into();
        }
    }
    CaseResult { case_hash: hash64(&doc), nontrivial: ok && viol.is_none(), outcome_hash: hash64(&format!("{out:?}")), executions: 1, violation: viol }
}

fn wrap(el: &str, attrs: &str, root: bool) -> String {
    // give each element a plausible standard context
    let inner = match el {
        "stop" => format!("<defs><linearGradient id=\"g1\"><stop {attrs}/></linearGradient></defs>"),
        "tspan" => format!("<text x=\"1\" y=\"2\">a<tspan {attrs}>b</tspan>c</text>"),
        "feGaussianBlur" | "feOffset" => format!("<defs><filter id=\"f1\"><{el} {attrs}/></filter></defs>"),
        "linearGradient" | "radialGradient" => format!("<defs><{el} {attrs}><stop offset=\"0\" stop-color=\"red\"/></{el}></defs>"),
        "marker" | "pattern" | "mask" | "filter" => format!("<defs><{el} {attrs}><rect x=\"0\" y=\"0\" width=\"3\" height=\"3\"/></{el}></defs>"),
        "text" => format!("<text {attrs}><tspan>t</tspan></text>"),
        "use" => format!("<defs><rect id=\"tgt\" x=\"0\" y=\"0\" width=\"4\" height=\"3\"/></defs><use {attrs}/>"),
        "svg" => format!("<svg {attrs}><rect x=\"0\" y=\"0\" width=\"4\" height=\"3\"/></svg>"),
        "foreignObject" => format!("<foreignObject {attrs}><p xmlns=\"http://www.w3.org/1999/xhtml\">x</p></foreignObject>"),
        _ => format!("<{el} {attrs}/>"),
    };
    if root {
        format!("<svg>{inner}</svg>")
    } else {
        inner
    }
}

fn attrs_with(base: &[(&str, &str)], name: &str, value: &str) -> String {
    let mut v: Vec<String> = base.iter().filter(|(k, _)| *k != name).map(|(k, v)| format!("{k}=\"{v}\"")).collect();
    v.push(format!("{name}=\"{value}\""));
    v.join(" ")
}

const PATH_CMDS: &[(&str, usize)] = &[
    ("M", 2), ("m", 2), ("L", 2), ("l", 2), ("H", 1), ("h", 1), ("V", 1), ("v", 1), ("C", 6), ("c", 6), ("S", 4), ("s", 4), ("Q", 4), ("q", 4), ("T", 2), ("t", 2),
    ("A", 7), ("a", 7), ("Z", 0), ("z", 0),
];

/// one command with its arguments in a given spelling style
fn path_cmd(ci: usize, style: usize) -> String {
    let (c, n) = PATH_CMDS[ci];
    if n == 0 {
        return c.to_string();
    }
    let arc = c == "A" || c == "a";
    let nums: Vec<&str> = if arc { vec!["5", "3", "0", "1", "0", "10", "-20"] } else { vec!["10", "-20", ".5", "3", "1e1", "2"][..n].to_vec() };
    match style {
        0 => format!("{c} {}", nums.join(" ")),
        1 => format!("{c}{}", nums.join(",")),
        2 => {
            // sign-separated / packed: "10-20.5 3..." no separator before a sign or a second dot
            let mut s = c.to_string();
            for (i, x) in nums.iter().enumerate() {
                if i > 0 && !x.starts_with('-') && !(x.starts_with('.') && nums[i - 1].contains('.')) {
                    s.push(' ');
                }
                s.push_str(x);
            }
            s
        }
        3 => {
            // implicit repetition of the argument group
            if n == 0 { c.to_string() } else { format!("{c} {} {}", nums.join(" "), nums.join(" ")) }
        }
        _ => {
            if arc {
                // packed arc flags "a5 3 0 1010-20"
                format!("{c}5 3 0 10 10-20")
            } else {
                format!("{c}\n  {}\n", nums.join("\n  "))
            }
        }
    }
}

pub fn run(tier: Tier) -> i32 {
    let mut rep = Report::new("C04", tier, "exploration");
    // the quick tier explores what used to be the thorough space (it takes seconds); `deep` adds the wider bounds
    #[allow(unused_variables)]
    let deep = tier == Tier::Thorough;
    let tier = Tier::Thorough;
    rep.set("rule", json!("(values) 19 SVG 1.1 elements with geometry attributes, each in its standard context (gradients with stops inside defs, filter primitives inside filter, tspan inside text, use with its target, ...), x each of its numeric attributes x 11 number spellings (sign, leading/trailing dot, exponents, leading zero) x 10 units, inside a root <svg> and as a fragment; every element x 18 presentation/generic attributes. (paths) all sequences of <= 2 (thorough 3) of the 20 path commands after an initial moveto x 5 argument spellings (spaces, commas, sign/dot-separated, implicit repetition, packed arc flags / newlines); points lists and transform lists in their separator/arity variants. (structure) every parent/child pair of a 16 x 20 container/content table, author style/title/desc text, foreign content, use with href and xlink:href. (references) 12 target kinds x 6 size spellings x 8 id spellings (XML names such as a.b, ns:b, non-ASCII) x 5 use forms x {defs, sibling, forward, nested namespaced svg}; 8 IRI forms x 8 referencing elements. (white space) every table element with start/end tags around 6 kinds of layout white space, and shapes without a user-unit box. (text positioning) dx/dy/x/y lists on tref, altGlyph, tspan, glyphRef, feDropShadow. Oracle: transform Ok and the output element tree equals the input tree - same names, positions, attribute sets and values (numbers and number lists compared numerically to 3 decimals, everything else exactly), same character data - apart from synthesised root attributes; character-only content of a shape or text element is expected as generated text. Non-trivial = accepted and preserved."));
    rep.set("also_later", json!("Rounds 3-5 added: characters which look blank but are not XML white space (also before a line break) are content; documents using entities of their own DOCTYPE give the output of the same document with the replacement text written out; the root's own style survives a configured svg-style; x / y of a plain <use> (nested svg target, origins with a fourth decimal, circle) stay as written."));
    rep.set("also", json!("Also: attributes of the root element itself (presentation attributes, class, id, aria / event attributes) preserved; clip-path / mask / filter / marker values none, inherit and basic shapes; transform lists with white space before the bracket and sign- or dot-separated arguments; <text> with character content under every standard x / y form (absent, number, list, unit, percent, in defs, in a fragment)."));

    // ---- (a) values
    let mut docs: Vec<(String, String)> = Vec::new();
    for (el, num_attrs, base) in ELEMENTS {
        for a in *num_attrs {
            for n in NUMBERS {
                for u in UNITS {
                    if *a == "stdDeviation" && !u.is_empty() || (*a == "offset" && !(u.is_empty() || *u == "%")) || (*a == "rotate" && !u.is_empty()) {
                        continue;
                    }
                    if tier == Tier::Quick && !u.is_empty() && (n.len() + u.len()) % 2 == 1 {
                        continue;
                    }
                    let attrs = attrs_with(base, a, &format!("{n}{u}"));
                    docs.push((wrap(el, &attrs, true), format!("{el}/{a}/{}", if u.is_empty() { "number" } else { "unit" })));
                    if u.is_empty() {
                        docs.push((wrap(el, &attrs, false), format!("{el}/{a}/fragment")));
                    }
                }
            }
        }
        for (k, v) in PRESENTATION {
            let attrs = attrs_with(base, k, v);
            docs.push((wrap(el, &attrs, true), format!("{el}/presentation/{k}")));
        }
        // lists of lengths on text
        if *el == "text" || *el == "tspan" {
            for v in ["1 2 3", "1,2,3", "1em 2em", "10% 20%"] {
                docs.push((wrap(el, &attrs_with(base, "x", v), true), format!("{el}/x/list")));
                docs.push((wrap(el, &attrs_with(base, "dy", v), true), format!("{el}/dy/list")));
            }
        }
    }
    let st = run_space(docs.len(), |i| check(&docs[i].0, "values", &docs[i].1));
    rep.sample(json!({"leg": "values", "doc": docs[docs.len() / 2].0}));
    rep.absorb("values", st);

    // ---- (b) paths, points, transforms
    let mut pdocs: Vec<(String, String)> = Vec::new();
    let nc = PATH_CMDS.len();
    let mut seqs: Vec<Vec<usize>> = Vec::new();
    for a in 0..nc {
        seqs.push(vec![a]);
        for b in 0..nc {
            seqs.push(vec![a, b]);
            if tier == Tier::Thorough {
                for c in 0..nc {
                    if (a + b + c) % 3 == 0 {
                        seqs.push(vec![a, b, c]);
                    }
                }
            }
        }
    }
    for s in &seqs {
        for style in 0..5 {
            for first in ["M0 0", "M 1,2", "m3-4"] {
                if tier == Tier::Quick && s.len() == 2 && (s[0] + s[1] + style) % 2 == 1 {
                    continue;
                }
                let d = format!("{first} {}", s.iter().map(|c| path_cmd(*c, style)).collect::<Vec<_>>().join(if style == 1 { "" } else { " " }));
                let class = format!("path/style{style}/{}", s.iter().map(|c| PATH_CMDS[*c].0).collect::<Vec<_>>().join(""));
                pdocs.push((format!("<svg><path d=\"{}\"/></svg>", d.replace('\n', "&#10;")), class));
            }
        }
    }
    for pts in ["0,0 10,5 20,0", "0 0 10 5 20 0", "0,0,10,5,20,0", " 0 , 0  10 , 5 ", "0,0 10,5 20", "1e1,5 -3-4 .5.5", "0,0\n10,5\n20,0"] {
        for el in ["polyline", "polygon"] {
            pdocs.push((format!("<svg><{el} points=\"{}\"/></svg>", pts.replace('\n', "&#10;")), format!("{el}/points")));
        }
    }
    let tfs = [
        "translate(10)", "translate(10,20)", "translate(10 20)", "scale(2)", "scale(2,3)", "rotate(45)", "rotate(45,10,10)", "rotate(45 10 10)", "skewX(10)", "skewY(-10)",
        "matrix(1 0 0 1 5 5)", "matrix(1,0,0,1,5,5)", "translate(1e1,-.5)", "translate( 10 , 20 )",
        "translate (10)", "translate\t( 10 )", " translate(10) ", "translate(10-5)", "scale(.5.5)", "rotate(45,10 10)", "scale(2)\ttranslate(1)",
    ];
    for a in tfs {
        for el in ["rect width=\"5\" height=\"5\"", "g", "circle r=\"3\"", "path d=\"M0 0 L5 5\"", "text"] {
            let (open, name) = (el, el.split(' ').next().unwrap());
            let body = if name == "g" { "<rect x=\"0\" y=\"0\" width=\"2\" height=\"2\"/>" } else if name == "text" { "<tspan>t</tspan>" } else { "" };
            pdocs.push((format!("<svg><{open} transform=\"{a}\">{body}</{name}></svg>"), format!("transform/{name}")));
            for b in ["scale(2)", "rotate(5 1 1)"] {
                for sep in [" ", ",", ", ", ""] {
                    pdocs.push((format!("<svg><{open} transform=\"{a}{sep}{b}\">{body}</{name}></svg>"), format!("transform-list/{name}")));
                }
            }
        }
    }
    let st = run_space(pdocs.len(), |i| check(&pdocs[i].0, "grammars", &pdocs[i].1));
    rep.sample(json!({"leg": "grammars", "doc": pdocs[pdocs.len() / 3].0}));
    rep.absorb("grammars", st);

    // ---- (c) structure
    let parents: &[(&str, &str)] = &[
        ("g", ""), ("defs", ""), ("a", " href=\"http://example.com/?a=1&amp;b=2\""), ("switch", ""), ("marker", " id=\"m1\" markerWidth=\"4\" markerHeight=\"4\""),
        ("pattern", " id=\"p1\" width=\"4\" height=\"4\" patternUnits=\"userSpaceOnUse\""), ("clipPath", " id=\"c1\""), ("mask", " id=\"k1\""), ("symbol", " id=\"s1\" viewBox=\"0 0 10 10\""),
        ("svg", " x=\"1\" y=\"2\" width=\"20\" height=\"10\""), ("g", " transform=\"translate(3 4)\" opacity=\"0.5\""), ("g", " id=\"layer1\" class=\"a b\""),
    ];
    let children: &[&str] = &[
        "<rect x=\"1\" y=\"2\" width=\"3\" height=\"4\"/>", "<circle cx=\"5\" cy=\"5\" r=\"2\"/>", "<ellipse cx=\"5\" cy=\"5\" rx=\"2\" ry=\"1\"/>", "<line x1=\"0\" y1=\"0\" x2=\"5\" y2=\"5\"/>",
        "<polyline points=\"0,0 5,5\"/>", "<polygon points=\"0,0 5,5 0,5\"/>", "<path d=\"M0 0 L5 5 Z\"/>", "<text x=\"1\" y=\"2\"><tspan>t</tspan></text>",
        "<image x=\"0\" y=\"0\" width=\"5\" height=\"5\" href=\"i.png\"/>", "<use href=\"#r0\"/>", "<g><rect x=\"0\" y=\"0\" width=\"1\" height=\"1\"/></g>", "<title>a title</title>",
        "<desc>a &amp; description</desc>", "<style>rect { fill: red; }</style>", "<linearGradient id=\"g2\"><stop offset=\"0\" stop-color=\"#fff\"/><stop offset=\"1\" stop-color=\"#000\"/></linearGradient>",
        "<filter id=\"f2\"><feGaussianBlur stdDeviation=\"2\"/><feOffset dx=\"1\" dy=\"1\"/><feMerge><feMergeNode/><feMergeNode in=\"SourceGraphic\"/></feMerge></filter>",
        "<text x=\"1\" y=\"2\"><textPath href=\"#pp\">along</textPath></text>", "<foreignObject x=\"0\" y=\"0\" width=\"5\" height=\"5\"><div xmlns=\"http://www.w3.org/1999/xhtml\"><b>x</b> y</div></foreignObject>",
        "<animate attributeName=\"x\" from=\"0\" to=\"5\" dur=\"1s\"/>", "<metadata><rdf:RDF xmlns:rdf=\"http://www.w3.org/1999/02/22-rdf-syntax-ns#\"/></metadata>",
    ];
    let mut sdocs: Vec<(String, String)> = Vec::new();
    for (p, pa) in parents {
        for (ci, c) in children.iter().enumerate() {
            sdocs.push((format!("<svg><defs><rect id=\"r0\" x=\"0\" y=\"0\" width=\"2\" height=\"2\"/><path id=\"pp\" d=\"M0 0 H9\"/></defs><{p}{pa}>{c}</{p}></svg>"), format!("{p}/child{ci}")));
            sdocs.push((format!("<defs><rect id=\"r0\" x=\"0\" y=\"0\" width=\"2\" height=\"2\"/><path id=\"pp\" d=\"M0 0 H9\"/></defs><{p}{pa}>{c}</{p}>"), format!("{p}/child{ci}/fragment")));
            for (c2i, c2) in children.iter().enumerate() {
                if (ci + c2i) % tier.pick(5, 2) == 0 {
                    sdocs.push((format!("<svg><defs><rect id=\"r0\" x=\"0\" y=\"0\" width=\"2\" height=\"2\"/><path id=\"pp\" d=\"M0 0 H9\"/></defs><{p}{pa}>\n  {c}\n  {c2}\n</{p}></svg>"), format!("{p}/child{ci}+child{c2i}")));
                }
            }
        }
    }
    for (k, l) in ["<line x2=\"30\" y2=\"20\"/>", "<line x1=\"10\" x2=\"30\" y2=\"20\"/>", "<line y1=\"5\" x2=\"30\"/>", "<line x1=\"3\" y1=\"4\"/>"].iter().enumerate() {
        sdocs.push((format!("<svg>{l}</svg>"), format!("line-omitted-coordinate/{k}")));
    }
    for u in [
        "<defs><circle id=\"tc\" cx=\"0\" cy=\"0\" r=\"2\"/></defs><use href=\"#tc\" x=\"10\" y=\"20\"/>",
        "<defs><rect id=\"tr\" x=\"0\" y=\"0\" width=\"4\" height=\"3\"/></defs><use xlink:href=\"#tr\" x=\"10\" y=\"20\"/>",
        "<defs><rect id=\"tr\" x=\"0\" y=\"0\" width=\"4\" height=\"3\"/></defs><use xmlns:xlink=\"http://www.w3.org/1999/xlink\" xlink:href=\"#tr\"/>",
        "<defs><symbol id=\"ts\" viewBox=\"0 0 4 4\"><rect x=\"0\" y=\"0\" width=\"4\" height=\"4\"/></symbol></defs><use href=\"#ts\" x=\"1\" y=\"2\" width=\"8\" height=\"8\"/>",
        "<defs><g id=\"tg\"><rect x=\"0\" y=\"0\" width=\"4\" height=\"3\"/></g></defs><use href=\"#tg\" transform=\"translate(5)\"/>",
        "<image xlink:href=\"i.png\" x=\"0\" y=\"0\" width=\"5\" height=\"5\"/>",
        "<a xlink:href=\"http://example.com\"><rect x=\"0\" y=\"0\" width=\"5\" height=\"5\"/></a>",
        "<rect x=\"0\" y=\"0\" width=\"5\" height=\"5\"><title>tooltip</title></rect>",
        "<rect x=\"0\" y=\"0\" width=\"5\" height=\"5\"><animate attributeName=\"x\" to=\"5\" dur=\"1s\"/></rect>",
        "<circle cx=\"1\" cy=\"1\" r=\"1\"><desc>d</desc><title>t</title></circle>",
        "<text x=\"1\" y=\"2\">a<tspan dy=\"1\">b</tspan>c</text>",
        "<text x=\"1\" y=\"2\" text-anchor=\"middle\" font-family=\"serif\"><tspan x=\"1\" dy=\"1.2em\">l1</tspan><tspan x=\"1\" dy=\"1.2em\">l2</tspan></text>",
        "<clipPath id=\"cq\"><circle cx=\"5\" cy=\"5\" r=\"5\"/></clipPath><rect x=\"0\" y=\"0\" width=\"10\" height=\"10\" clip-path=\"url(#cq)\"/>",
        "<rect x=\"0\" y=\"0\" width=\"10\" height=\"10\" mask=\"url(#mm)\" filter=\"url(#ff)\" marker-end=\"url(#me)\"/>",
    ] {
        sdocs.push((format!("<svg>{u}</svg>"), format!("special/{}", &u[1..u.find(|c: char| c == ' ' || c == '>').unwrap_or(5)])));
    }
    let st = run_space(sdocs.len(), |i| check(&sdocs[i].0, "structure", &sdocs[i].1));
    rep.sample(json!({"leg": "structure", "doc": sdocs[sdocs.len() / 2].0}));
    rep.absorb("structure", st);

    // ---- (c2) attributes of the root element itself are preserved
    let mut rdocs: Vec<(String, String)> = Vec::new();
    for (k, v) in PRESENTATION {
        if *k == "transform" && *v == "none" {
            continue;
        }
        rdocs.push((format!("<svg {k}=\"{v}\"><rect x=\"0\" y=\"0\" width=\"5\" height=\"5\"/></svg>"), format!("root/{k}")));
        rdocs.push((format!("<svg {k}=\"{v}\" viewBox=\"0 0 9 9\" width=\"90\" height=\"90\"><g {k}=\"{v}\"><circle cx=\"2\" cy=\"2\" r=\"1\"/></g></svg>"), format!("root+g/{k}")));
    }
    for extra in ["preserveAspectRatio=\"xMidYMid meet\"", "xmlns:xlink=\"http://www.w3.org/1999/xlink\"", "lang=\"en\"", "role=\"img\" aria-label=\"a &amp; b\"", "onclick=\"f()\"", "baseProfile=\"full\"", "x=\"3\" y=\"4\""] {
        rdocs.push((format!("<svg {extra}><rect x=\"0\" y=\"0\" width=\"5\" height=\"5\"/></svg>"), format!("root/{}", extra.split('=').next().unwrap_or(""))));
    }
    let st = run_space(rdocs.len(), |i| check(&rdocs[i].0, "root", &rdocs[i].1));
    rep.sample(json!({"leg": "root", "doc": rdocs[rdocs.len() / 2].0}));
    rep.absorb("root", st);

    // ---- (e) references: every target kind x size spelling x id spelling x referencing form
    let targets: &[(&str, &str)] = &[
        // (element, attributes with @ standing for the size spelling)
        ("rect", "x=\"0\" y=\"0\" width=\"@\" height=\"@\""), ("circle", "cx=\"5\" cy=\"5\" r=\"@\""), ("ellipse", "cx=\"5\" cy=\"5\" rx=\"@\" ry=\"3\""),
        ("line", "x1=\"@\" y1=\"1\" x2=\"47\" y2=\"15\""), ("image", "href=\"i.png\" width=\"@\" height=\"@\""), ("svg", "width=\"@\" height=\"@\""),
        ("pattern", "width=\"@\" height=\"4\""), ("symbol", "viewBox=\"0 0 @ 4\""), ("g", "data-n=\"@\""), ("path", "d=\"M0 0 H@\""), ("polygon", "points=\"0,0 @,5 0,5\""), ("text", "x=\"@\" y=\"2\""),
    ];
    let sizes: &[&str] = &["10", "100%", "1cm", "70in", "2.5em", "1e1px"];
    let ids: &[&str] = &["t", "a.b", "ns:b", "a-b", "_x", "\u{e9}t\u{e9}", "t.1-2_3", "X"];
    let mut edocs: Vec<(String, String)> = Vec::new();
    for (te, ta) in targets {
        for sz in sizes {
            // unit spellings only where the attribute is a length; plain numbers elsewhere
            if !sz.chars().all(|c| c.is_ascii_digit()) && matches!(*te, "symbol" | "path" | "polygon") {
                continue;
            }
            for id in ids {
                let tgt = match *te {
                    "g" | "svg" | "pattern" | "symbol" => format!("<{te} id=\"{id}\" {}><rect x=\"0\" y=\"0\" width=\"2\" height=\"2\"/></{te}>", ta.replace('@', sz)),
                    "text" => format!("<{te} id=\"{id}\" {}><tspan>t</tspan></{te}>", ta.replace('@', sz)),
                    _ => format!("<{te} id=\"{id}\" {}/>", ta.replace('@', sz)),
                };
                let class = format!("{te}/{}/{}", if sz.chars().all(|c| c.is_ascii_digit()) { "number" } else { "unit" }, if *id == "t" || *id == "X" || *id == "_x" || *id == "a-b" { "plain-id" } else { "xml-name-id" });
                for (ri, r) in ["<use href=\"#ID\"/>", "<use href=\"#ID\" x=\"1\" y=\"2\"/>", "<use xlink:href=\"#ID\" x=\"1\" y=\"2\" width=\"8\" height=\"8\"/>", "<clipPath id=\"cp\"><use href=\"#ID\"/></clipPath><polyline points=\"1,2 3,4\" clip-path=\"url(#cp)\"/>", "<g><use href=\"#ID\" transform=\"translate(3)\"/></g>"].iter().enumerate() {
                    let r = r.replace("ID", id);
                    edocs.push((format!("<svg><defs>{tgt}</defs>{r}</svg>"), format!("use{ri}/defs/{class}")));
                    if ri < 2 {
                        edocs.push((format!("<svg>{tgt}{r}</svg>"), format!("use{ri}/sibling/{class}")));
                        edocs.push((format!("<svg>{r}{tgt}</svg>"), format!("use{ri}/forward/{class}")));
                        // the target inside a nested SVG document fragment carrying the namespace (an icon pasted in)
                        edocs.push((format!("<svg><svg xmlns=\"http://www.w3.org/2000/svg\" width=\"10\" height=\"10\">{tgt}</svg>{r}</svg>"), format!("use{ri}/in-namespaced-svg/{class}")));
                    }
                }
            }
        }
    }
    // references that are not same-document element references are plain IRIs
    for (k, h) in ["sprites.svg#icon", "http://example.com/lib.svg#i", "other.svg", "#", "data:image/svg+xml;base64,AAAA", "../up/one.svg#a.b", "#xpointer(id('a'))", "#svgView(viewBox(0,0,5,5))"].iter().enumerate() {
        for (ei, e) in ["<use href=\"H\" x=\"1\" y=\"2\"/>", "<use xlink:href=\"H\"/>", "<image href=\"H\" x=\"0\" y=\"0\" width=\"5\" height=\"5\"/>", "<a href=\"H\"><rect x=\"0\" y=\"0\" width=\"5\" height=\"5\"/></a>", "<text x=\"1\" y=\"2\"><textPath href=\"H\">along</textPath></text>", "<defs><linearGradient id=\"lg2\" href=\"H\"/></defs>", "<defs><pattern id=\"pt2\" xlink:href=\"H\"/></defs>", "<rect x=\"0\" y=\"0\" width=\"5\" height=\"5\" clip-path=\"url(H)\" fill=\"url(H)\"/>"].iter().enumerate() {
            if ei == 7 && h.starts_with('#') {
                continue; // a same-document url(#..) which names no element is an error in SVG itself
            }
            edocs.push((format!("<svg>{}</svg>", e.replace('H', h)), format!("iri{k}/el{ei}")));
        }
    }
    // ids of a nested namespaced <svg> referenced through clip-path / mask / fill / marker
    for (k, d) in [
        "<svg xmlns=\"http://www.w3.org/2000/svg\" width=\"10\" height=\"10\"><defs><clipPath id=\"cc\"><rect width=\"1\" height=\"1\"/></clipPath></defs></svg><rect x=\"0\" y=\"0\" width=\"5\" height=\"5\" clip-path=\"url(#cc)\"/>",
        "<svg xmlns=\"http://www.w3.org/2000/svg\" width=\"10\" height=\"10\"><defs><linearGradient id=\"gg\"><stop offset=\"0\" stop-color=\"red\"/></linearGradient></defs></svg><rect x=\"0\" y=\"0\" width=\"5\" height=\"5\" fill=\"url(#gg)\"/>",
        "<rect x=\"0\" y=\"0\" width=\"5\" height=\"5\" clip-path=\"url(#cc)\"/><svg xmlns=\"http://www.w3.org/2000/svg\" width=\"10\" height=\"10\"><clipPath id=\"cc\"><rect width=\"1\" height=\"1\"/></clipPath></svg>",
    ].iter().enumerate() {
        edocs.push((format!("<svg>{d}</svg>"), format!("namespaced-svg-ids/{k}")));
    }
    // (fifth review round) the x / y of a plain <use> are kept as written whatever its target is and wherever that is drawn
    for (k, d) in [
        "<svg id=\"s\"><rect x=\"10\" y=\"20\" width=\"5\" height=\"5\"/></svg><use x=\"1\" y=\"2\" href=\"#s\"/>",
        "<svg id=\"s\" width=\"100%\"><rect x=\"10\" y=\"20\" width=\"5\" height=\"5\"/></svg><use x=\"1\" y=\"2\" href=\"#s\"/>",
        "<path id=\"p\" d=\"M74.9795 84.4881L120 130\"/><use href=\"#p\" x=\"1\" y=\"2.5\"/>",
        "<rect id=\"r\" x=\"10\" y=\"3\" width=\"7\" height=\"5\" transform=\"rotate(31)\"/><use href=\"#r\" x=\"1\" y=\"2\"/>",
        "<polygon id=\"q\" points=\"39.9583 7.1234 50 20 30 20\"/><use href=\"#q\" x=\"39.96\" y=\"0.5\"/>",
        "<circle id=\"c\" cx=\"3.3333\" cy=\"4.4444\" r=\"2.2222\"/><use href=\"#c\" x=\"10\" y=\"20\"/>",
    ].iter().enumerate() {
        edocs.push((format!("<svg>{d}</svg>"), format!("plain-use-position/{k}")));
    }
    let st = run_space(edocs.len(), |i| check(&edocs[i].0, "references", &edocs[i].1));
    rep.sample(json!({"leg": "references", "doc": edocs[edocs.len() / 2].0}));
    rep.absorb("references", st);

    // ---- (f) layout white space (and comments) between the tags of an element is not character content:
    // every element of the tables written with separate start and end tags
    let ws: &[&str] = &["\n", " ", "\n    ", "\t\n", "\n<!-- nothing -->\n", "\r\n"];
    let mut wdocs: Vec<(String, String)> = Vec::new();
    for (el, _, base) in ELEMENTS {
        let attrs = attrs_with(base, "data-k", "1");
        for (wi, w) in ws.iter().enumerate() {
            for root in [true, false] {
                let doc = wrap(el, &attrs, root);
                // turn the element's own empty tag into a start/end pair holding the white space
                let needle = format!("<{el} {attrs}/>");
                if !doc.contains(&needle) {
                    continue;
                }
                wdocs.push((doc.replace(&needle, &format!("<{el} {attrs}>{w}</{el}>")), format!("{el}/ws{wi}")));
            }
        }
    }
    for (k, e) in [
        "<rect width=\"100%\" height=\"100%\" fill=\"red\">\n</rect>", "<circle r=\"1cm\">\n</circle>", "<path>\n</path>", "<image href=\"i.png\">\n</image>", "<line x2=\"100%\">\n</line>",
        "<polyline>\n</polyline>", "<path d=\"M0 0L5 5\">\n  <!-- nothing -->\n</path>", "<defs><rect id=\"r\" width=\"1\" height=\"1\"/></defs><use href=\"#r\">\n</use>",
        "<rect x=\"0\" y=\"0\" width=\"5\" height=\"5\">\n  <title>tip</title>\n</rect>", "<ellipse rx=\"50%\" ry=\"1\">\n\n</ellipse>", "<text x=\"1\" y=\"2\">\n</text>", "<text>\n  <tspan>t</tspan>\n</text>",
    ].iter().enumerate() {
        wdocs.push((format!("<svg>{e}</svg>"), format!("no-user-unit-box/{k}")));
    }
    // (characters which look blank but are not XML white space are content)
    for (k, e) in ["<text x=\"1\" y=\"2\">&#160;</text>", "<text x=\"1\" y=\"8\">&#x2003;</text>", "<text x=\"1\" y=\"2\"><tspan>&#160;</tspan></text>", "<rect width=\"5\" height=\"5\"><title>&#160;</title></rect>", "<text x=\"1\" y=\"2\"><tspan>a</tspan>&#160;\n<tspan>b</tspan></text>", "<rect width=\"5\" height=\"5\"><desc>one&#x2003;\ntwo</desc></rect>"].iter().enumerate() {
        wdocs.push((format!("<svg>{e}</svg>"), format!("blank-characters-are-content/{k}")));
    }
    let st = run_space(wdocs.len(), |i| check(&wdocs[i].0, "whitespace-content", &wdocs[i].1));
    rep.sample(json!({"leg": "whitespace-content", "doc": wdocs[wdocs.len() / 2].0}));
    rep.absorb("whitespace-content", st);

    // ---- (f1) references to entities declared in the document's own DOCTYPE: the document is read as an XML processor
    // reads it, i.e. as the same document with the replacement text written out
    let entdocs = [
        ("<!DOCTYPE svg [<!ENTITY w \"10\">]><svg><rect width=\"&w;\" height=\"5\"/></svg>", "<svg><rect width=\"10\" height=\"5\"/></svg>"),
        ("<!DOCTYPE svg [<!ENTITY copy \"&#169;\">]><svg><rect width=\"5\" height=\"5\"><title>&copy; t</title></rect><text x=\"1\" y=\"2\">&copy; 2020</text></svg>", "<svg><rect width=\"5\" height=\"5\"><title>&#169; t</title></rect><text x=\"1\" y=\"2\">&#169; 2020</text></svg>"),
        ("<!DOCTYPE svg [<!ENTITY c 'red'> <!ENTITY d \"M0 0 L&w; 5\"> <!ENTITY w '7'>]>\n<svg><path d=\"&d;\" fill=\"&c;\"/></svg>", "<svg><path d=\"M0 0 L7 5\" fill=\"red\"/></svg>"),
        ("<!DOCTYPE svg [<!ENTITY w \"10\">]><svg><text x=\"1\" y=\"2\"><![CDATA[&w;]]></text><!-- &w; --></svg>", "<svg><text x=\"1\" y=\"2\"><![CDATA[&w;]]></text><!-- &w; --></svg>"),
    ];
    let st = run_space(entdocs.len(), |i| {
        let (with, written_out) = entdocs[i];
        let (a, b) = (run_str(with, &Cfg::plain()), run_str(written_out, &Cfg::plain()));
        let strip = |o: &Outcome| match o {
            Outcome::Ok(x) => Ok(String::from_utf8_lossy(x).trim().to_string()),
            other => Err(other.brief()),
        };
        let ok = strip(&a).is_ok() && strip(&a) == strip(&b);
        CaseResult {
            case_hash: hash64(&with),
            nontrivial: ok,
            outcome_hash: hash64(&format!("{a:?}")),
            executions: 2,
            violation: (!ok).then(|| Violation { clause: "declared-entities".into(), signature: format!("C04/declared-entities/{i}"), case: json!({"leg": "declared-entities", "input": with, "written_out": written_out}), detail: format!("{with}\n -> {}\n{written_out}\n -> {}", a.brief(), b.brief()) }),
        }
    });
    rep.absorb("declared-entities", st);

    // ---- (f2) the root element's own style is kept when a style for the root is configured as well
    let sdocs: Vec<(&str, &str)> = vec![
        ("<svg style=\"background:red\"><rect width=\"5\" height=\"5\"/></svg>", "background:red"),
        ("<svg style=\"fill: blue;\" width=\"10\" height=\"10\"><rect width=\"5\" height=\"5\"/></svg>", "fill: blue"),
        ("<svg><rect width=\"5\" height=\"5\"/></svg>", ""),
    ];
    let st = run_space(sdocs.len(), |i| {
        let (doc, own) = sdocs[i];
        let mut cfg = Cfg::plain();
        cfg.svg_style = Some("border:1px solid".to_string());
        let out = run_str(doc, &cfg);
        let mut problem = None;
        match &out {
            Outcome::Ok(o) => match xmlref::parse_tree(o, Mode::Document).ok().as_deref().and_then(xmlref::root).map(|r| r.attr("style").unwrap_or("").to_string()) {
                None => problem = Some("no root element in the output".to_string()),
                Some(style) => {
                    for want in [own, "border:1px solid"] {
                        if !style.contains(want) {
                            problem = Some(format!("the root's style {style:?} does not hold {want:?}"));
                        }
                    }
                }
            },
            other => problem = Some(other.brief()),
        }
        CaseResult {
            case_hash: hash64(&doc),
            nontrivial: problem.is_none(),
            outcome_hash: hash64(&format!("{out:?}")),
            executions: 1,
            violation: problem.map(|p| Violation { clause: "root-style".into(), signature: "C04/root-style/own-style-replaced-by-configured".into(), case: json!({"leg": "root-style", "input": doc, "svg_style": "border:1px solid"}), detail: format!("{doc}\n{p}") }),
        }
    });
    rep.absorb("root-style", st);

    // ---- (g) dx / dy (and x / y lists) on the other SVG 1.1 text-positioning elements
    let mut gdocs: Vec<(String, String)> = Vec::new();
    for el in ["tref", "altGlyph", "tspan", "textPath"] {
        for (ai, a) in ["dx=\"1\" dy=\"2\"", "dx=\"1 2 3\"", "x=\"1\" y=\"2\" dx=\"3\" dy=\"4\"", "dy=\"1.2em\"", "x=\"1 2\" y=\"3 4\" rotate=\"5\""].iter().enumerate() {
            let inner = if el == "tref" { format!("<tref xlink:href=\"#t\" {a}/>") } else if el == "altGlyph" { format!("<altGlyph xlink:href=\"#g\" {a}>A</altGlyph>") } else if el == "textPath" { format!("<textPath href=\"#pp\" startOffset=\"3\">p</textPath><tspan {a}>q</tspan>") } else { format!("<tspan {a}>s</tspan>") };
            gdocs.push((format!("<svg><defs><text id=\"t\" x=\"0\" y=\"0\"><tspan>ref</tspan></text><path id=\"pp\" d=\"M0 0 H9\"/></defs><text x=\"1\" y=\"2\">{inner}</text></svg>"), format!("{el}/a{ai}")));
        }
    }
    for (k, e) in ["<defs><altGlyphDef id=\"g\"><glyphRef xlink:href=\"#gl\" dx=\"1\" dy=\"2\" x=\"3\" y=\"4\"/></altGlyphDef></defs>", "<defs><filter id=\"f\"><feDropShadow dx=\"1\" dy=\"2\" stdDeviation=\"1\"/><feOffset dx=\"1\" dy=\"-2.5\"/></filter></defs>", "<defs><font><glyph unicode=\"a\" horiz-adv-x=\"5\" d=\"M0 0 H5\"/><hkern u1=\"a\" u2=\"b\" k=\"1\"/></font></defs>"].iter().enumerate() {
        gdocs.push((format!("<svg>{e}</svg>"), format!("other/{k}")));
    }
    let st = run_space(gdocs.len(), |i| check(&gdocs[i].0, "text-positioning", &gdocs[i].1));
    rep.sample(json!({"leg": "text-positioning", "doc": gdocs[gdocs.len() / 2].0}));
    rep.absorb("text-positioning", st);

    // ---- (h) magnitudes: coordinates as large as maps / CAD exports use, next to small sizes
    let large: &[&str] = &["30000.5", "100000.123", "500000.25", "1234567.891", "16777217", "4e9", "-30000.5"];
    let small: &[&str] = &["0.3", "0.35", "10", "5"];
    let mut mdocs: Vec<(String, String)> = Vec::new();
    for (el, nums, base) in ELEMENTS {
        for a in nums.iter() {
            for (li, l) in large.iter().enumerate() {
                for (si, sm) in small.iter().enumerate() {
                    // the chosen attribute is large, every other numeric attribute of the base is the small value
                    let mut attrs: Vec<String> = base.iter().filter(|(k, _)| k != a).map(|(k, v)| if nums.contains(k) { format!("{k}=\"{sm}\"") } else { format!("{k}=\"{v}\"") }).collect();
                    attrs.push(format!("{a}=\"{l}\""));
                    mdocs.push((wrap(el, &attrs.join(" "), true), format!("{el}/{a}/l{li}s{si}")));
                }
            }
        }
    }
    let st = run_space(mdocs.len(), |i| {
        let mut r = check(&mdocs[i].0, "magnitude", &mdocs[i].1);
        if let Some(v) = r.violation.as_mut() {
            // Open finding: positions and sizes are recomputed in f32. A case belongs to it only if the document is
            // accepted and EVERY differing attribute is numeric and within f32 resolution at the element's largest magnitude.
            if v.clause == "not-preserved" {
                if let Outcome::Ok(o) = run_str(&mdocs[i].0, &Cfg::plain()) {
                    if let (Ok(ti), Ok(to)) = (xmlref::parse_tree(mdocs[i].0.as_bytes(), Mode::Document), xmlref::parse_tree(&o, Mode::Document)) {
                        fn flat<'a>(n: &'a [Node], out: &mut Vec<&'a Element>) {
                            for x in n {
                                if let Node::El(e) = x {
                                    out.push(e);
                                    flat(&e.children, out);
                                }
                            }
                        }
                        let (mut ei, mut eo) = (Vec::new(), Vec::new());
                        flat(&ti, &mut ei);
                        flat(&to, &mut eo);
                        let eo: Vec<&Element> = eo.into_iter().filter(|e| e.name != "style" && !(e.name == "defs" && e.children.is_empty())).collect();
                        let mut only_precision = ei.len() == eo.len();
                        if only_precision {
                            for (a, b) in ei.iter().zip(eo.iter()).skip(1) {
                                if a.name != b.name || a.attrs.len() != b.attrs.len() {
                                    only_precision = false;
                                    break;
                                }
                                let mag = a.attrs.iter().filter_map(|(_, v)| parse_number(v)).fold(1.0f64, |m, x| m.max(x.abs()));
                                for (k, v) in &a.attrs {
                                    match b.attr(k) {
                                        Some(o) if same_value(v, o) => {}
                                        Some(o) => match (parse_number(v), parse_number(o)) {
                                            (Some(x), Some(y)) if (x - y).abs() <= mag * 4.0 / 8388608.0 => {}
                                            _ => only_precision = false,
                                        },
                                        None => only_precision = false,
                                    }
                                }
                            }
                        }
                        if only_precision {
                            v.signature = "C04/magnitude/f32-precision".into();
                        }
                    }
                }
            }
        }
        r
    });
    rep.sample(json!({"leg": "magnitude", "doc": mdocs[mdocs.len() / 2].0}));
    rep.absorb("magnitude", st);

    // ---- (d) the documented reinterpretation: character-only content becomes generated text
    let tdocs = [
        ("<svg><text x=\"3\" y=\"4\">hello</text></svg>", "text", "hello"),
        ("<svg><rect x=\"0\" y=\"0\" width=\"10\" height=\"10\">label</rect></svg>", "rect", "label"),
        ("<svg><circle cx=\"5\" cy=\"5\" r=\"5\">c &amp; d</circle></svg>", "circle", "c & d"),
        ("<svg><text>no position</text></svg>", "text", "no position"),
        ("<svg><text x=\"3\">only x</text></svg>", "text", "only x"),
        ("<svg><text x=\"10 20 30\" y=\"5\">abc</text></svg>", "text", "abc"),
        ("<svg><text x=\"10,20,30\" y=\"5 6 7\">abc</text></svg>", "text", "abc"),
        ("<svg><text x=\"10mm\" y=\"5\">unit</text></svg>", "text", "unit"),
        ("<svg><text x=\"50%\" y=\"50%\">percent</text></svg>", "text", "percent"),
        ("<svg><text x=\"1em\" y=\"2ex\" dx=\"1 2\">em</text></svg>", "text", "em"),
        ("<svg><text x=\"3\" y=\"4\" dx=\"1 2 3\" rotate=\"10 20\">lists</text></svg>", "text", "lists"),
        ("<svg><text x=\"3\" y=\"4\" textLength=\"30\" lengthAdjust=\"spacing\">tl</text></svg>", "text", "tl"),
        ("<svg><defs><text id=\"dt\" x=\"1 2\" y=\"3\">in defs</text></defs></svg>", "text", "in defs"),
        ("<text x=\"1 2\" y=\"3\">fragment</text>", "text", "fragment"),
    ];
    let st = run_space(tdocs.len(), |i| {
        let (doc, el, txt) = tdocs[i];
        let out = run_str(doc, &Cfg::plain());
        let mut viol = None;
        match &out {
            Outcome::Ok(o) => {
                let tree = xmlref::parse_tree(o, Mode::Content).unwrap_or_default();
                let mut all: Vec<&Element> = Vec::new();
                for n in &tree {
                    if let Node::El(e) = n {
                        all.push(e);
                        all.extend(e.descendants());
                    }
                }
                let texts: Vec<String> = all.iter().filter(|e| e.name == "text").map(|e| e.text()).collect();
                let has_shape = el == "text" || all.iter().any(|e| e.name == el);
                if !has_shape || !texts.iter().any(|t| t.trim() == txt) {
                    viol = Some(format!("{doc}\nexpected the {el} and a generated <text> containing {txt:?}\n{}", clip(&String::from_utf8_lossy(o), 300)));
                }
            }
            other => viol = Some(format!("{doc}\n{}", other.brief())),
        }
        CaseResult {
            case_hash: hash64(&doc),
            nontrivial: viol.is_none(),
            outcome_hash: hash64(&format!("{out:?}")),
            executions: 1,
            violation: viol.map(|d| Violation { clause: "text-content-reinterpretation".into(), signature: format!("C04/text-content/{el}"), case: json!({"leg": "text-content", "input": doc}), detail: d }),
        }
    });
    rep.absorb("text-content", st);
    rep.assume("element tables cover the SVG 1.1 static vocabulary listed above; animation elements and metadata appear as children only");
    rep.finish()
}

pub fn replay_case(case: &Value) -> Option<Violation> {
    check(case["input"].as_str()?, case["leg"].as_str().unwrap_or("values"), "replay").violation
}
