//! C09 — Relative positioning places elements exactly where the relspec says.
//!
//! Bounded-exhaustive product of reference elements x dependent elements x
//! relspec forms (and chains of them), each checked against an independent
//! reference model of the documented layout rules evaluated on known boxes.

use crate::common::*;
use crate::geom::{self, BBox};
use crate::xmlref::{self, Mode};
use serde_json::{json, Value};

/// reference elements with a known bounding box
struct RefEl {
    name: &'static str,
    src: &'static str, // contains id="r"
    bbox: (f64, f64, f64, f64), // x1 y1 x2 y2
}

const REFS: &[RefEl] = &[
    RefEl { name: "rect", src: r#"<rect id="r" xy="10 20" wh="30 10"/>"#, bbox: (10., 20., 40., 30.) },
    RefEl { name: "rect-neg-frac", src: r#"<rect id="r" x="-7.25" y="3" width="20" height="4"/>"#, bbox: (-7.25, 3., 12.75, 7.) },
    RefEl { name: "rect-tall", src: r#"<rect id="r" xy="2.5 -4" wh="3 12.5"/>"#, bbox: (2.5, -4., 5.5, 8.5) },
    RefEl { name: "circle", src: r#"<circle id="r" cxy="20 30" r="10"/>"#, bbox: (10., 20., 30., 40.) },
    RefEl { name: "ellipse", src: r#"<ellipse id="r" cxy="-7.25 3" rxy="8 2.5"/>"#, bbox: (-15.25, 0.5, 0.75, 5.5) },
    RefEl { name: "line", src: r#"<line id="r" xy1="40 20" xy2="10 30"/>"#, bbox: (10., 20., 40., 30.) },
    RefEl { name: "box", src: r#"<box id="r" xy="100 50" wh="1 3"/>"#, bbox: (100., 50., 101., 53.) },
    RefEl { name: "point", src: r#"<point id="r" xy="5 -6"/>"#, bbox: (5., -6., 5., -6.) },
    RefEl { name: "group", src: r#"<g id="r"><rect xy="0 0" wh="4 2"/><rect xy="10 6" wh="2 6"/></g>"#, bbox: (0., 0., 12., 12.) },
];

#[derive(Clone, Copy, PartialEq, Debug)]
enum Dep {
    Rect,
    Circle,
    Ellipse,
    /// svgdx's invisible shapes: observed through two probe elements placed at their corners
    Box,
    Point,
}

/// size attributes of the dependent element and its (w, h)
fn dep_size(d: Dep, which: usize) -> (&'static str, f64, f64) {
    match (d, which) {
        (Dep::Rect, 0) => (r#"wh="4 2""#, 4., 2.),
        (Dep::Rect, _) => (r#"width="3" height="3""#, 3., 3.),
        (Dep::Circle, 0) => (r#"r="2""#, 4., 4.),
        (Dep::Circle, _) => (r#"r="1.5""#, 3., 3.),
        (Dep::Ellipse, 0) => (r#"rxy="2 1""#, 4., 2.),
        (Dep::Ellipse, _) => (r#"rx="1.5" ry="1.5""#, 3., 3.),
        (Dep::Box, 0) => (r#"wh="4 2""#, 4., 2.),
        (Dep::Box, _) => (r#"width="3" height="3""#, 3., 3.),
        (Dep::Point, _) => ("", 0., 0.),
    }
}

fn dep_name(d: Dep) -> &'static str {
    match d {
        Dep::Rect => "rect",
        Dep::Circle => "circle",
        Dep::Ellipse => "ellipse",
        Dep::Box => "box",
        Dep::Point => "point",
    }
}

const LOCS: &[&str] = &[
    "tl", "t", "tr", "r", "br", "b", "bl", "l", "c", "t:5", "t:-5", "t:25%", "t:150%", "t:-10%", "r:5", "r:-5", "r:25%", "b:5", "b:150%", "b:-10%", "l:-5", "l:25%", "l:150%",
];
/// (source suffix, dx, dy)
const DXDY: &[(&str, f64, f64)] = &[("", 0., 0.), (" 2", 2., 2.), (" 2 -3", 2., -3.), (" 2, -3", 2., -3.), (" -1.5 0", -1.5, 0.)];
const GAPS: &[(&str, f64)] = &[("", 0.), (" 0", 0.), (" 3", 3.), (" -2.5", -2.5)];
const ANCHORS: &[&str] = &["xy", "cxy", "xy-loc:t", "xy-loc:tr", "xy-loc:r", "xy-loc:br", "xy-loc:b", "xy-loc:bl", "xy-loc:l", "xy-loc:c"];

/// expected top-left of an element of size (w,h) whose `anchor` point is placed at (px,py)
fn place_anchor(anchor: &str, px: f64, py: f64, w: f64, h: f64) -> (f64, f64) {
    let loc = match anchor {
        "xy" => "tl",
        "cxy" => "c",
        a => a.strip_prefix("xy-loc:").unwrap(),
    };
    let (ax, ay) = BBox::xywh(0., 0., w, h).loc(loc).unwrap();
    (px - ax, py - ay)
}

#[derive(Clone, Debug)]
enum Form {
    Dir { d: char, gap: usize },
    Loc { loc: usize, dxdy: usize, anchor: usize },
    /// per-axis attribute with a location: x="#r@LOC dx", y...; attrs is a pair of (attr, loc, dxdy)
    PerAxis { xa: &'static str, ya: &'static str, loc: usize, dxdy: usize },
    /// per-axis attribute with a scalar reference
    Scalar { xa: &'static str, xs: &'static str, ya: &'static str, ys: &'static str, delta: usize },
    /// position by bare reference (no locspec): anchored on the attribute's own side
    Bare { anchor: usize },
    Size { form: usize },
}

const DELTAS: &[(&str, Option<(bool, f64)>)] = &[("", None), (" 3", Some((false, 3.))), (" 50%", Some((true, 0.5))), (" -1.5", Some((false, -1.5)))];

fn adjust(v: f64, d: Option<(bool, f64)>) -> f64 {
    match d {
        None => v,
        Some((true, r)) => v * r,
        Some((false, a)) => v + a,
    }
}

/// Build the dependent element source and its expected box, given the reference box `rb`.
/// Returns None when the form does not apply to the element kind.
fn build(form: &Form, dep: Dep, size: usize, rb: &BBox, rref: &str, id: &str) -> Option<(String, BBox)> {
    let (size_src, w, h) = dep_size(dep, size);
    let el = dep_name(dep);
    match form {
        Form::Dir { d, gap } => {
            let (gs, g) = GAPS[*gap];
            let (x, y) = match d {
                'h' => (rb.x2 + g, rb.cy() - h / 2.),
                'H' => (rb.x1 - g - w, rb.cy() - h / 2.),
                'v' => (rb.cx() - w / 2., rb.y2 + g),
                _ => (rb.cx() - w / 2., rb.y1 - g - h),
            };
            Some((format!("<{el} id=\"{id}\" xy=\"{rref}|{d}{gs}\" {size_src}/>"), BBox::xywh(x, y, w, h)))
        }
        Form::Loc { loc, dxdy, anchor } => {
            let (p, (ds, dx, dy)) = (rb.loc(LOCS[*loc])?, DXDY[*dxdy]);
            let a = ANCHORS[*anchor];
            let (x, y) = place_anchor(a, p.0 + dx, p.1 + dy, w, h);
            let attrs = match a {
                "xy" | "cxy" => format!("{a}=\"{rref}@{}{ds}\"", LOCS[*loc]),
                a => format!("xy=\"{rref}@{}{ds}\" xy-loc=\"{}\"", LOCS[*loc], a.strip_prefix("xy-loc:").unwrap()),
            };
            Some((format!("<{el} id=\"{id}\" {attrs} {size_src}/>"), BBox::xywh(x, y, w, h)))
        }
        Form::PerAxis { xa, ya, loc, dxdy } => {
            let (p, (ds, dx, dy)) = (rb.loc(LOCS[*loc])?, DXDY[*dxdy]);
            let px = p.0 + dx;
            let py = p.1 + dy;
            let x = match *xa {
                "x" => px,
                "x2" => px - w,
                _ => px - w / 2.,
            };
            let y = match *ya {
                "y" => py,
                "y2" => py - h,
                _ => py - h / 2.,
            };
            Some((
                format!("<{el} id=\"{id}\" {xa}=\"{rref}@{}{ds}\" {ya}=\"{rref}@{}{ds}\" {size_src}/>", LOCS[*loc], LOCS[*loc]),
                BBox::xywh(x, y, w, h),
            ))
        }
        Form::Scalar { xa, xs, ya, ys, delta } => {
            let (dsrc, d) = DELTAS[*delta];
            let vx = adjust(rb.scalar(xs)?, d);
            let vy = adjust(rb.scalar(ys)?, d);
            let x = match *xa {
                "x" => vx,
                "x2" => vx - w,
                _ => vx - w / 2.,
            };
            let y = match *ya {
                "y" => vy,
                "y2" => vy - h,
                _ => vy - h / 2.,
            };
            Some((format!("<{el} id=\"{id}\" {xa}=\"{rref}~{xs}{dsrc}\" {ya}=\"{rref}~{ys}{dsrc}\" {size_src}/>"), BBox::xywh(x, y, w, h)))
        }
        Form::Bare { anchor } => {
            // xy="#r" -> top-left on top-left; cxy="#r" -> centre on centre (layout.md example `cxy="^"`)
            let a = ["xy", "cxy"][*anchor % 2];
            let (x, y) = if a == "xy" { (rb.x1, rb.y1) } else { (rb.cx() - w / 2., rb.cy() - h / 2.) };
            Some((format!("<{el} id=\"{id}\" {a}=\"{rref}\" {size_src}/>"), BBox::xywh(x, y, w, h)))
        }
        Form::Size { form } => {
            if dep != Dep::Rect {
                // relative sizes of circles/ellipses go through r/rx/ry conventions the statement does not spell out
                return None;
            }
            let (attrs, ew, eh) = match form {
                0 => (format!("wh=\"{rref}\""), rb.w(), rb.h()),
                1 => (format!("wh=\"{rref} 50%\""), rb.w() * 0.5, rb.h() * 0.5),
                2 => (format!("wh=\"{rref} 2 3\""), rb.w() + 2., rb.h() + 3.),
                3 => (format!("width=\"{rref}~h\" height=\"{rref}~w 25%\""), rb.h(), rb.w() * 0.25),
                4 => (format!("wh=\"{rref}\" dw=\"2\" dh=\"-1\""), rb.w() + 2., rb.h() - 1.),
                5 => (format!("wh=\"{rref}\" dwh=\"50%\""), rb.w() * 0.5, rb.h() * 0.5),
                6 => (format!("wh=\"{rref}\" dwh=\"1 200%\""), rb.w() + 1., rb.h() * 2.),
                _ => (format!("width=\"{rref}\" height=\"{rref}~rx\""), rb.w(), rb.w() / 2.),
            };
            if ew <= 0. || eh <= 0. {
                return None;
            }
            // positioned relative to the reference too, so size feeds placement
            let x = rb.x2 + 1.;
            let y = rb.cy() - eh / 2.;
            Some((format!("<rect id=\"{id}\" xy=\"{rref}|h 1\" {attrs}/>"), BBox::xywh(x, y, ew, eh)))
        }
    }
}

fn forms(tier: Tier) -> Vec<Form> {
    let mut v = Vec::new();
    for d in ['h', 'H', 'v', 'V'] {
        for gap in 0..GAPS.len() {
            v.push(Form::Dir { d, gap });
        }
    }
    for loc in 0..LOCS.len() {
        for dxdy in 0..DXDY.len() {
            for anchor in 0..ANCHORS.len() {
                if tier == Tier::Quick && loc >= 9 && (dxdy + anchor) % 3 != 0 {
                    continue;
                }
                v.push(Form::Loc { loc, dxdy, anchor });
            }
        }
    }
    for (xa, ya) in [("x", "y"), ("x2", "y2"), ("cx", "cy"), ("x", "cy"), ("x2", "y"), ("cx", "y2")] {
        for loc in 0..LOCS.len() {
            for dxdy in 0..DXDY.len() {
                if tier == Tier::Quick && (loc + dxdy) % 2 == 1 {
                    continue;
                }
                v.push(Form::PerAxis { xa, ya, loc, dxdy });
            }
        }
        for (xs, ys) in [("x", "y"), ("x2", "y2"), ("cx", "cy"), ("w", "h"), ("r", "ry"), ("rx", "y"), ("y2", "x"), ("h", "w"), ("x1", "y1")] {
            for delta in 0..DELTAS.len() {
                v.push(Form::Scalar { xa, xs, ya, ys, delta });
            }
        }
    }
    for a in 0..2 {
        v.push(Form::Bare { anchor: a });
    }
    for f in 0..8 {
        v.push(Form::Size { form: f });
    }
    v
}

fn observe(out: &[u8], id: &str) -> Result<BBox, String> {
    let tree = xmlref::parse_tree(out, Mode::Content).map_err(|e| e.to_string())?;
    for n in &tree {
        if let xmlref::Node::El(e) = n {
            if let Some(el) = e.find_id(id) {
                let native = geom::native_bbox(el).ok_or_else(|| format!("element #{id} has no native geometry: {:?}", el.attrs))?;
                // (an element placed by a translation is drawn where that takes it)
                let shift = el.attr("transform").and_then(|t| t.trim().strip_prefix("translate(")).and_then(|t| t.strip_suffix(')')).map(|t| t.split(|c: char| c == ',' || c.is_whitespace()).filter(|p| !p.is_empty()).filter_map(|p| p.parse::<f64>().ok()).collect::<Vec<_>>());
                return Ok(match shift.as_deref() {
                    Some([dx]) => BBox::new(native.x1 + dx, native.y1, native.x2 + dx, native.y2),
                    Some([dx, dy]) => BBox::new(native.x1 + dx, native.y1 + dy, native.x2 + dx, native.y2 + dy),
                    _ => native,
                });
            }
        }
    }
    Err(format!("element #{id} not in output"))
}

/// How the dependent element is written: 0 empty element, 1 explicit end tag, 2 with a <title> child,
/// 3 with a comment as content, 4 white space before the reference in the attribute value
const SPELLINGS: usize = 5;

fn respell(src: &str, spelling: usize) -> Option<String> {
    let open = src.strip_suffix("/>")?;
    let name = src[1..].split(' ').next()?;
    Some(match spelling {
        0 => src.to_string(),
        1 => format!("{open}></{name}>"),
        2 => format!("{open}><title>tip</title></{name}>"),
        3 => format!("{open}><!-- note --></{name}>"),
        _ => {
            let at = src.find("=\"#").or_else(|| src.find("=\"^"))?;
            format!("{}=\"\n   {}", &src[..at], &src[at + 2..])
        }
    })
}

fn check_single(ri: usize, by_prev: bool, dep: Dep, size: usize, form: &Form, spelling: usize) -> Option<CaseResult> {
    let r = &REFS[ri];
    let rb = BBox::new(r.bbox.0, r.bbox.1, r.bbox.2, r.bbox.3);
    let rref = if by_prev { "^" } else { "#r" };
    let (src, exp) = build(form, dep, size, &rb, rref, "e")?;
    let src = respell(&src, spelling)?;
    if matches!(dep, Dep::Box | Dep::Point) {
        // invisible: two probes at its corners show where it is
        let doc = format!("{}{}<rect id=\"p1\" xy=\"#e@tl\" wh=\"1\"/><rect id=\"p2\" xy=\"#e@br\" wh=\"1\"/>", r.src, src);
        let probes = [("p1", BBox::xywh(exp.x1, exp.y1, 1., 1.)), ("p2", BBox::xywh(exp.x2, exp.y2, 1., 1.))];
        return Some(verify(&doc, &probes, &format!("{}/{}/{}{}", r.name, dep_name(dep), form_class(form), if spelling == 0 { String::new() } else { format!("/spelling{spelling}") }), 2));
    }
    let doc = format!("{}{}", r.src, src);
    Some(verify(&doc, &[("e", exp)], &format!("{}/{}/{}{}", r.name, dep_name(dep), form_class(form), if spelling == 0 { String::new() } else { format!("/spelling{spelling}") }), 1))
}

fn form_class(f: &Form) -> String {
    match f {
        Form::Dir { d, gap } => format!("dir-{d}-gap{gap}"),
        Form::Loc { loc, dxdy, anchor } => format!("loc-{}-d{dxdy}-{}", LOCS[*loc], ANCHORS[*anchor]),
        Form::PerAxis { xa, ya, loc, dxdy } => format!("peraxis-{xa}-{ya}-{}-d{dxdy}", LOCS[*loc]),
        Form::Scalar { xa, xs, ya, ys, delta } => format!("scalar-{xa}~{xs}-{ya}~{ys}-d{delta}"),
        Form::Bare { anchor } => format!("bare-{anchor}"),
        Form::Size { form } => format!("size-{form}"),
    }
}

fn verify(doc: &str, expected: &[(&str, BBox)], sig: &str, chain: usize) -> CaseResult {
    let out = run_str(doc, &Cfg::plain());
    let case = json!({"input": doc, "expected": expected.iter().map(|(id, b)| json!({"id": id, "box": [b.x1, b.y1, b.x2, b.y2]})).collect::<Vec<_>>()});
    let mut viol = None;
    let mut mk = |clause: &str, detail: String| {
        if viol.is_none() {
            viol = Some(Violation { clause: clause.into(), signature: format!("C09/{clause}/{sig}"), case: case.clone(), detail });
        }
    };
    let mut oh = 0;
    match &out {
        Outcome::Panic(p) => mk("panic", p.clone()),
        Outcome::Err(e) => mk("valid-relspec-rejected", format!("{doc}\n{}", clip(e, 300))),
        Outcome::Ok(o) => {
            oh = hash64(o);
            for (k, (id, exp)) in expected.iter().enumerate() {
                match observe(o, id) {
                    Err(e) => mk("unobservable", format!("{doc}\n{e}\n{}", clip(&String::from_utf8_lossy(o), 400))),
                    Ok(got) => {
                        let tol = 0.00051 * (chain + k + 1) as f64 + 1e-6 * exp.x1.abs().max(exp.x2.abs()).max(exp.y1.abs()).max(exp.y2.abs());
                        if !got.approx_eq(exp, tol) {
                            mk(
                                "misplaced",
                                format!("{doc}\n#{id}: expected box ({}, {}) - ({}, {}), observed ({}, {}) - ({}, {})\n{}", exp.x1, exp.y1, exp.x2, exp.y2, got.x1, got.y1, got.x2, got.y2, clip(&String::from_utf8_lossy(o), 400)),
                            );
                        }
                    }
                }
            }
        }
    }
    CaseResult { case_hash: hash64(&doc), nontrivial: viol.is_none() && out.is_ok(), outcome_hash: oh, executions: 1, violation: viol }
}

/// chains r -> e1 -> e2 (-> e3): each link's expected box feeds the next link of the model
fn check_chain(ri: usize, links: &[(Dep, usize, Form, bool)]) -> Option<CaseResult> {
    let r = &REFS[ri];
    let mut doc = r.src.to_string();
    let mut prev_box = BBox::new(r.bbox.0, r.bbox.1, r.bbox.2, r.bbox.3);
    let mut prev_id = "r".to_string();
    let mut expected: Vec<(String, BBox)> = Vec::new();
    for (k, (dep, size, form, by_prev)) in links.iter().enumerate() {
        let id = format!("e{k}");
        let rref = if *by_prev { "^".to_string() } else { format!("#{prev_id}") };
        let (src, exp) = build(form, *dep, *size, &prev_box, &rref, &id)?;
        doc.push_str(&src);
        expected.push((id.clone(), exp));
        prev_box = exp;
        prev_id = id;
    }
    let exp_refs: Vec<(&str, BBox)> = expected.iter().map(|(i, b)| (i.as_str(), *b)).collect();
    let sig = format!("chain/{}/{}", r.name, links.iter().map(|l| form_class(&l.2)).collect::<Vec<_>>().join(">"));
    Some(verify(&doc, &exp_refs, &sig, links.len()))
}

pub fn run(tier: Tier) -> i32 {
    let mut rep = Report::new("C09", tier, "exploration");
    // the quick tier explores what used to be the thorough space (it takes seconds); `deep` adds the wider bounds
    #[allow(unused_variables)]
    let deep = tier == Tier::Thorough;
    let tier = Tier::Thorough;
    let fs = forms(tier);
    let deps = [Dep::Rect, Dep::Circle, Dep::Ellipse];
    let single_deps = [Dep::Rect, Dep::Circle, Dep::Ellipse, Dep::Box, Dep::Point];
    let mut singles: Vec<(usize, bool, Dep, usize, usize, usize)> = Vec::new();
    for ri in 0..REFS.len() {
        for by_prev in [false, true] {
            for (di, d) in single_deps.iter().enumerate() {
                for size in 0..2 {
                    for fi in 0..fs.len() {
                        if tier == Tier::Quick && (ri + di + size + fi) % 3 != 0 && !matches!(fs[fi], Form::Dir { .. } | Form::Size { .. } | Form::Bare { .. }) {
                            continue;
                        }
                        singles.push((ri, by_prev, *d, size, fi, 0));
                        // other spellings of the dependent element: on two references, one size
                        if (ri == 0 || ri == 3) && size == 0 {
                            for sp in 1..SPELLINGS {
                                singles.push((ri, by_prev, *d, size, fi, sp));
                            }
                        }
                    }
                }
            }
        }
    }
    rep.set("rule", json!(format!("(single) 9 reference elements with known boxes (rects incl. negative/fractional, circle, ellipse, reversed line, box, point, group of two rects) referenced by #id and by ^ x dependent {{rect, circle, ellipse}} in 2 size spellings x {} relspec forms: 4 directions x 4 gaps; 23 locations (9 named + 14 edge offsets abs/negative/percent/over 100%) x 5 dx-dy forms x 10 anchors (xy, cxy, xy + 8 xy-loc values); per-axis x/x2/cx and y/y2/cy with locations and with 9 scalar pairs (~x ~y ~x2 ~y2 ~cx ~cy ~w ~h ~r ~rx ~ry ~x1 ~y1) x 4 deltas (none, abs, percent, negative); bare references; 8 relative-size forms (wh=#r, percent, abs pair, ~h/~w, dw/dh abs/percent, ~rx){}. (chains) all ordered pairs of a 14-form covering set as 2-link chains and 3-link chains over 6 forms, mixing #id and ^ links, the model's expected box of each link feeding the next. Oracle: reference layout model in f64 on the known boxes; the output element's native geometry must describe the expected box within 0.0005 per rounded intermediate. Non-trivial = Ok and all boxes as expected.", fs.len(), if tier == Tier::Quick { " (quick: every third combination of the location/scalar forms, all direction/size forms)" } else { "" })));
    rep.set("also_later", json!("Round 7 (seed C09d) added the offset-attribute leg: dx / dy / dxy as attributes (5 forms) on a relatively placed rect / circle / ellipse, for 12 covering relspec forms x 9 references x #id / ^. Rounds 4-5 added: viewport elements with content placed like their empty forms; polygon / polyline placed by the box of their points; <use> of targets given by their centre or not at the origin (direction, location, cxy, plain x / y); '^' after an <if> / group whose last element waited."));
    rep.set("also", json!("Also: the dependent element written with an explicit end tag, with a <title> child, with a comment as content, and with white space before the reference (on two references); <box> and <point> as dependent elements, observed through probe elements at their corners; '^' after / in / following a deferred element."));
    if deep {
        let r = rep.coverage.get("rule").and_then(|v| v.as_str()).unwrap_or("").to_string();
        rep.set("rule", json!(format!("{r} THOROUGH TIER ADDITIONALLY: every ordered pair of ALL single forms as a two-link chain on two reference elements (the second link by #id or ^ alternately) and every triple of the 14 covering forms on three further references.")));
    }
    let st = run_space(singles.len(), |i| {
        let (ri, bp, d, size, fi, sp) = singles[i];
        check_single(ri, bp, d, size, &fs[fi], sp).unwrap_or(CaseResult { case_hash: hash64(&("na", i)), nontrivial: false, outcome_hash: 0, executions: 0, violation: None })
    });
    let s = &singles[singles.len() / 2];
    if let Some((src, exp)) = build(&fs[s.4], s.2, s.3, &BBox::new(REFS[s.0].bbox.0, REFS[s.0].bbox.1, REFS[s.0].bbox.2, REFS[s.0].bbox.3), "#r", "e") {
        rep.sample(json!({"doc": format!("{}{}", REFS[s.0].src, src), "expected_box": [exp.x1, exp.y1, exp.x2, exp.y2]}));
    }
    rep.absorb("single", st);
    // chains
    let cover: Vec<Form> = vec![
        Form::Dir { d: 'h', gap: 2 },
        Form::Dir { d: 'V', gap: 3 },
        Form::Dir { d: 'v', gap: 0 },
        Form::Dir { d: 'H', gap: 1 },
        Form::Loc { loc: 4, dxdy: 2, anchor: 0 },
        Form::Loc { loc: 8, dxdy: 0, anchor: 1 },
        Form::Loc { loc: 11, dxdy: 1, anchor: 5 },
        Form::Loc { loc: 15, dxdy: 3, anchor: 9 },
        Form::PerAxis { xa: "x2", ya: "cy", loc: 3, dxdy: 1 },
        Form::Scalar { xa: "x", xs: "x2", ya: "y", ys: "cy", delta: 1 },
        Form::Scalar { xa: "cx", xs: "w", ya: "y2", ys: "h", delta: 2 },
        Form::Bare { anchor: 1 },
        Form::Size { form: 1 },
        Form::Size { form: 2 },
    ];
    let mut chains: Vec<(usize, Vec<(Dep, usize, Form, bool)>)> = Vec::new();
    for ri in [0usize, 1, 3, 5, 8] {
        for (ai, a) in cover.iter().enumerate() {
            for (bi, b) in cover.iter().enumerate() {
                let d1 = deps[(ai + ri) % 3];
                let d2 = deps[(bi + ai) % 3];
                for prev2 in [false, true] {
                    chains.push((ri, vec![(d1, ai % 2, a.clone(), false), (d2, bi % 2, b.clone(), prev2)]));
                }
            }
        }
    }
    let tri: Vec<usize> = tier.pick(vec![0, 4, 9], vec![0, 1, 4, 6, 9, 12]);
    for &a in &tri {
        for &b in &tri {
            for &c in &tri {
                for ri in [0usize, 3] {
                    chains.push((ri, vec![(Dep::Rect, 0, cover[a].clone(), false), (deps[(a + b) % 3], 1, cover[b].clone(), true), (Dep::Rect, 0, cover[c].clone(), false)]));
                    if tier == Tier::Thorough {
                        chains.push((ri, vec![(Dep::Ellipse, 0, cover[a].clone(), true), (Dep::Rect, 1, cover[b].clone(), false), (Dep::Circle, 0, cover[c].clone(), true), (Dep::Rect, 0, cover[a].clone(), false)]));
                    }
                }
            }
        }
    }
    if deep {
        // every ordered pair of ALL forms (not only the covering set) as a two-link chain, and every triple of the covering set
        for ri in [0usize, 3] {
            for (ai, a) in fs.iter().enumerate() {
                for (bi, b) in fs.iter().enumerate() {
                    chains.push((ri, vec![(deps[(ai + ri) % 3], ai % 2, a.clone(), false), (deps[(bi + ai) % 3], bi % 2, b.clone(), (ai + bi) % 2 == 1)]));
                }
            }
        }
        for a in 0..cover.len() {
            for b in 0..cover.len() {
                for c in 0..cover.len() {
                    for ri in [1usize, 5, 8] {
                        chains.push((ri, vec![(deps[a % 3], 0, cover[a].clone(), false), (deps[(a + b) % 3], 1, cover[b].clone(), b % 2 == 0), (deps[c % 3], 0, cover[c].clone(), c % 2 == 1)]));
                    }
                }
            }
        }
    }
    rep.set("chains", json!(chains.len()));
    let st = run_space(chains.len(), |i| check_chain(chains[i].0, &chains[i].1).unwrap_or(CaseResult { case_hash: hash64(&("na-chain", i)), nontrivial: false, outcome_hash: 0, executions: 0, violation: None }));
    rep.sample(json!({"leg": "chains", "links": chains[chains.len() / 2].1.iter().map(|l| form_class(&l.2)).collect::<Vec<_>>()}));
    rep.absorb("chains", st);
    // seventh round (seed C09d): the element's own dx / dy / dxy attribute moves it after the relative placement,
    // for every kind of dependent element and every covering form
    const OFFSETS: &[(&str, f64, f64)] = &[("dxy=\"3 7\"", 3., 7.), ("dx=\"3\"", 3., 0.), ("dy=\"4\"", 0., 4.), ("dx=\"-2\" dy=\"5.5\"", -2., 5.5), ("dxy=\"2\"", 2., 2.)];
    let mut offs: Vec<(usize, bool, Dep, usize, usize, usize)> = Vec::new();
    for ri in 0..REFS.len() {
        for by_prev in [false, true] {
            for d in deps {
                for size in 0..2 {
                    for ci in 0..12 {
                        for oi in 0..OFFSETS.len() {
                            offs.push((ri, by_prev, d, size, ci, oi));
                        }
                    }
                }
            }
        }
    }
    let st = run_space(offs.len(), |i| {
        let (ri, bp, d, size, ci, oi) = offs[i];
        let na = CaseResult { case_hash: hash64(&("na-offset", i)), nontrivial: false, outcome_hash: 0, executions: 0, violation: None };
        let r = &REFS[ri];
        let rb = BBox::new(r.bbox.0, r.bbox.1, r.bbox.2, r.bbox.3);
        let Some((src, exp)) = build(&cover[ci], d, size, &rb, if bp { "^" } else { "#r" }, "e") else { return na };
        let Some(open) = src.strip_suffix("/>") else { return na };
        let (osrc, dx, dy) = OFFSETS[oi];
        let doc = format!("{}{open} {osrc}/>", r.src);
        verify(&doc, &[("e", BBox::new(exp.x1 + dx, exp.y1 + dy, exp.x2 + dx, exp.y2 + dy))], &format!("offset-attribute/{}/{}/{}/o{oi}", r.name, dep_name(d), form_class(&cover[ci])), 1)
    });
    rep.sample(json!({"leg": "offset-attribute", "doc": format!("{}<ellipse id=\"e\" xy=\"#r|h 2\" rxy=\"3 2\" dxy=\"3 7\"/>", REFS[0].src)}));
    rep.absorb("offset-attribute", st);
    // `^` is the previous element of the DOCUMENT, also when that element (or the one using `^`) had to wait
    // for a forward reference
    let prev_docs: Vec<(&str, &str, BBox)> = vec![
        ("prev-after-deferred/sibling", r##"<rect id="a" wh="10"/><rect id="c" xy="#b|h" wh="10"/><rect id="e" xy="^|v" wh="10"/><rect id="b" xy="50 50" wh="10"/>"##, BBox::xywh(60., 60., 10., 10.)),
        ("prev-after-deferred/self", r##"<rect id="a" xy="5 5" wh="10"/><rect id="e" xy="^|h" wh="#b"/><rect id="b" xy="50 50" wh="4"/>"##, BBox::xywh(15., 8., 4., 4.)),
        ("prev-after-deferred/group", r##"<g id="g"><rect xy="#b|h" wh="2"/><rect xy="0 0" wh="6"/></g><rect id="e" xy="^|v" wh="2"/><rect id="b" xy="50 50" wh="4"/>"##, BBox::xywh(27., 53., 2., 2.)),
        // (fifth review round) ... also when it is the last element of an <if> / <loop> which had to wait
        ("prev-after-deferred/last-in-if", r##"<if test="1"><rect id="a" xy="#b|h" wh="3"/><rect id="b" xy="10 10" wh="5"/><rect id="l" xy="#a|v 20" wh="4"/></if><rect id="e" xy="^|h 1" wh="2"/>"##, BBox::xywh(19.5, 35., 2., 2.)),
        ("prev-after-deferred/last-in-if-control", r##"<if test="1"><rect id="b" xy="10 10" wh="5"/><rect id="a" xy="#b|h" wh="3"/><rect id="l" xy="#a|v 20" wh="4"/></if><rect id="e" xy="^|h 1" wh="2"/>"##, BBox::xywh(19.5, 35., 2., 2.)),
        ("prev-after-deferred/last-in-defs-group", r##"<g><rect id="a" xy="#b|h" wh="3"/><rect id="b" xy="10 10" wh="5"/><rect id="l" xy="#a|v 20" wh="4"/><rect id="e" xy="^|h 1" wh="2"/></g>"##, BBox::xywh(19.5, 35., 2., 2.)),
        ("prev-without-deferral/control", r##"<rect id="b" xy="50 50" wh="10"/><rect id="a" wh="10"/><rect id="c" xy="#b|h" wh="10"/><rect id="e" xy="^|v" wh="10"/>"##, BBox::xywh(60., 60., 10., 10.)),
    ];
    let st = run_space(prev_docs.len(), |i| verify(prev_docs[i].1, &[("e", prev_docs[i].2)], prev_docs[i].0, 1));
    rep.absorb("previous-element", st);
    // second review round (reference box a = 10,20 30x40)
    let a = r##"<rect id="a" xy="10 20" wh="30 40"/>"##;
    let round2: Vec<(&str, String, BBox)> = vec![
        ("points/decimal-edge-offset", format!("{a}<polyline id=\"e\" points=\"#a@t:2.5 #a@b:-2.5\"/>"), BBox::new(12.5, 20., 37.5, 60.)),
        ("points/decimal-percent-offset", format!("{a}<polyline id=\"e\" points=\"#a@l:12.5% #a@r:87.5%\"/>"), BBox::new(10., 25., 40., 55.)),
        ("one-dimension/line-H-width", format!("{a}<line id=\"e\" xy=\"#a|H 5\" width=\"10\"/>"), BBox::new(-5., 40., 5., 40.)),
        ("one-dimension/line-V-height", format!("{a}<line id=\"e\" xy=\"#a|V 5\" height=\"10\"/>"), BBox::new(25., 5., 25., 15.)),
        ("one-dimension/line-v-width", format!("{a}<line id=\"e\" xy=\"#a|v 5\" width=\"10\"/>"), BBox::new(20., 65., 30., 65.)),
        ("alternative-size/circle-rxy", format!("{a}<circle id=\"e\" xy=\"#a|h\" rxy=\"3\"/>"), BBox::new(40., 37., 46., 43.)),
        ("alternative-size/circle-width", format!("{a}<circle id=\"e\" xy=\"#a|h\" width=\"6\"/>"), BBox::new(40., 37., 46., 43.)),
        ("alternative-size/circle-V-width", format!("{a}<circle id=\"e\" xy=\"#a|V\" width=\"6\"/>"), BBox::new(22., 14., 28., 20.)),
        ("alternative-size/ellipse-r", format!("{a}<ellipse id=\"e\" xy=\"#a|h\" r=\"3\"/>"), BBox::new(40., 37., 46., 43.)),
        ("text-anchor/cxy", format!("{a}<text id=\"e\" cxy=\"#a@c\"><tspan>x</tspan></text>"), BBox::new(25., 40., 25., 40.)),
        ("text-anchor/xy-loc", format!("{a}<text id=\"e\" xy=\"#a@br\" xy-loc=\"c\"><tspan>x</tspan></text>"), BBox::new(40., 60., 40., 60.)),
        ("resize/ellipse-dwh", format!("{a}<ellipse id=\"e\" cxy=\"#a\" wh=\"#a\" dwh=\"2 4\"/>"), BBox::new(9., 18., 41., 62.)),
        ("resize/circle-dwh", format!("{a}<circle id=\"e\" cxy=\"#a\" wh=\"20\" dwh=\"4\"/>"), BBox::new(13., 28., 37., 52.)),
    ];
    let st = run_space(round2.len(), |i| verify(&round2[i].1, &[("e", round2[i].2)], round2[i].0, 1));
    rep.absorb("second-round", st);
    // fourth review round: elements with content are placed like their empty forms; a use of a circle; polygons
    let round4: Vec<(&str, String, BBox)> = vec![
        ("with-content/foreignObject", format!("{a}<foreignObject id=\"e\" xy=\"#a|h 2\" wh=\"10 6\"><div xmlns=\"http://www.w3.org/1999/xhtml\">hi</div></foreignObject>"), BBox::new(42., 37., 52., 43.)),
        ("with-content/foreignObject-empty", format!("{a}<foreignObject id=\"e\" xy=\"#a|h 2\" wh=\"10 6\"/>"), BBox::new(42., 37., 52., 43.)),
        ("with-content/nested-svg", format!("<svg>{a}<svg id=\"e\" xy=\"#a@br\" wh=\"10 6\"><rect wh=\"3\"/></svg></svg>"), BBox::new(40., 60., 50., 66.)),
        ("with-content/nested-svg-dependant", format!("<svg>{a}<svg id=\"s\" xy=\"#a@br\" wh=\"10 6\"><rect wh=\"3\"/></svg><rect id=\"e\" xy=\"#s|h 2\" wh=\"2\"/></svg>"), BBox::new(52., 62., 54., 64.)),
    ];
    let mut round4 = round4;
    round4.push(("points-shape-placed-as-a-point/polygon-H", format!("{a}<polygon id=\"e\" xy=\"#a|H 2\" points=\"0 0 10 0 5 8\"/>"), BBox::new(-2., 36., 8., 44.)));
    round4.push(("points-shape-placed-as-a-point/polyline-h", format!("{a}<polyline id=\"e\" xy=\"#a|h 2\" points=\"0 0 10 10\"/>"), BBox::new(42., 35., 52., 45.)));
    round4.push(("points-shape-placed-as-a-point/polygon-cxy", format!("{a}<polygon id=\"e\" cxy=\"#a@c\" points=\"0 0 10 0 5 8\"/>"), BBox::new(20., 36., 30., 44.)));
    round4.push(("points-shape-placed-as-a-point/polygon-xy-loc", format!("{a}<polygon id=\"e\" xy=\"#a@br\" xy-loc=\"br\" points=\"0 0 10 0 5 8\"/>"), BBox::new(30., 52., 40., 60.)));
    round4.push(("points-shape-placed-as-a-point/polygon-offset-points", format!("{a}<polygon id=\"e\" xy=\"#a@br\" points=\"5 5 15 5 10 13\"/>"), BBox::new(40., 60., 50., 68.)));
    round4.push(("points-shape-placed-as-a-point/polyline-V", format!("{a}<polyline id=\"e\" xy=\"#a|V 2\" points=\"2 2 12 12\"/>"), BBox::new(20., 8., 30., 18.)));
    // sixth review round
    round4.push(("points-shape-placed-as-a-point/relative-points", format!("{a}<rect id=\"b\" xy=\"200 200\" wh=\"10 8\"/><polygon id=\"e\" xy=\"#a|h 2\" points=\"0 0 #b~w 0 5 #b~h\"/>"), BBox::new(42., 36., 52., 44.)));
    let st = run_space(round4.len(), |i| verify(&round4[i].1, &[("e", round4[i].2)], round4[i].0, 1));
    rep.absorb("fourth-round", st);
    // a <use> placed relative to another element: the box of its INSTANCE (the target's box, moved by the target's own
    // transform and by the use's x / y) is what is placed. Reference: base = (10,5)-(20,15); expected x / y of the use.
    let base = r##"<rect id="base" xy="10 5" wh="10"/>"##;
    let uses: Vec<(&str, &str, &str, (f64, f64))> = vec![
        // (name, target in <defs>, position spec of the use, expected (x, y) of the use)
        ("origin-rect/h", r##"<rect id="t" wh="5"/>"##, r##"xy="#base|h 2""##, (22., 7.5)),
        ("origin-rect/v", r##"<rect id="t" wh="5"/>"##, r##"xy="#base|v 2""##, (12.5, 17.)),
        ("origin-rect/H", r##"<rect id="t" wh="5"/>"##, r##"xy="#base|H 2""##, (3., 7.5)),
        ("origin-rect/loc", r##"<rect id="t" wh="5"/>"##, r##"xy="#base@br""##, (20., 15.)),
        ("transformed-group/h", r##"<g id="t" transform="translate(10 3)"><rect wh="5"/></g>"##, r##"xy="#base|h 2""##, (12., 4.5)),
        ("transformed-group/v", r##"<g id="t" transform="translate(10 3)"><rect wh="5"/></g>"##, r##"xy="#base|v 2""##, (2.5, 14.)),
        ("transformed-group/V", r##"<g id="t" transform="translate(10 3)"><rect wh="5"/></g>"##, r##"xy="#base|V 2""##, (2.5, -5.)),
        ("offset-rect/h", r##"<rect id="t" xy="5 7" wh="5"/>"##, r##"xy="#base|h 2""##, (17., 0.5)),
        // fourth review round: targets given by their centre; anchors other than the top-left corner
        ("origin-circle/h", r##"<circle id="t" r="4"/>"##, r##"xy="#base|h 2""##, (26., 10.)),
        ("offset-circle/h", r##"<circle id="t" cxy="10 10" r="4"/>"##, r##"xy="#base|h 2""##, (16., 0.)),
        ("offset-circle/loc", r##"<circle id="t" cxy="10 10" r="4"/>"##, r##"xy="#base@br""##, (14., 9.)),
        ("offset-rect/loc", r##"<rect id="t" xy="3 4" wh="8 6"/>"##, r##"xy="#base@br""##, (17., 11.)),
        ("offset-rect/cxy", r##"<rect id="t" xy="3 4" wh="8 6"/>"##, r##"cxy="#base@c""##, (8., 3.)),
        ("origin-ellipse/v", r##"<ellipse id="t" rxy="4 2"/>"##, r##"xy="#base|v 1""##, (15., 18.)),
        ("use-of-use/v", r##"<rect id="t0" xy="3 4" wh="10 6"/><use id="t" href="#t0" x="100" y="0"/>"##, r##"xy="#base|v 5""##, (-93., 16.)),
        ("plain-x-y/circle", r##"<circle id="t" r="4"/>"##, r##"x="10" y="20""##, (10., 20.)),
        ("offset-rect/v", r##"<rect id="t" xy="5 7" wh="5"/>"##, r##"xy="#base|v 2""##, (7.5, 10.)),
    ];
    let st = run_space(uses.len(), |i| {
        let (name, target, spec, (wx, wy)) = uses[i];
        let doc = format!("<svg>{base}<defs>{target}</defs><use id=\"e\" href=\"#t\" {spec}/></svg>");
        let out = run_str(&doc, &Cfg::plain());
        let got = match &out {
            Outcome::Ok(o) => crate::xmlref::parse_tree(o, crate::xmlref::Mode::Document).ok().and_then(|t| crate::xmlref::root(&t).and_then(|r| r.find_id("e").map(|e| (e.attr("x").and_then(|v| v.parse::<f64>().ok()).unwrap_or(0.), e.attr("y").and_then(|v| v.parse::<f64>().ok()).unwrap_or(0.))))),
            _ => None,
        };
        let ok = matches!(got, Some((x, y)) if (x - wx).abs() < 0.0011 && (y - wy).abs() < 0.0011);
        CaseResult {
            case_hash: hash64(&doc),
            nontrivial: ok,
            outcome_hash: hash64(&format!("{out:?}")),
            executions: 1,
            violation: if ok { None } else { Some(Violation { clause: "use-misplaced".into(), signature: format!("C09/use-placement/{name}"), case: json!({"input": doc}), detail: format!("{doc}\nexpected the use at x={wx} y={wy}, observed {got:?}\n{}", clip(&out.brief(), 300)) }) },
        }
    });
    rep.absorb("use-placement", st);
    rep.set("also_round2", json!("Second review round: decimal and percent edge offsets inside points, dirspec placement of lines given one length and of circles / ellipses sized by rxy / width / r, <text> anchored by cxy and xy-loc, dw / dh on circles and ellipses."));
    rep.assume("dependent elements are rect, circle and ellipse (their output geometry is directly observable); box/point/group/line occur as references only; relative sizes are asserted for rect dependents");
    rep.finish()
}

pub fn replay_case(case: &Value) -> Option<Violation> {
    let doc = case["input"].as_str()?;
    let exp: Vec<(String, BBox)> = case["expected"]
        .as_array()?
        .iter()
        .filter_map(|e| {
            let b = e["box"].as_array()?;
            Some((e["id"].as_str()?.to_string(), BBox::new(b[0].as_f64()?, b[1].as_f64()?, b[2].as_f64()?, b[3].as_f64()?)))
        })
        .collect();
    let refs: Vec<(&str, BBox)> = exp.iter().map(|(i, b)| (i.as_str(), *b)).collect();
    verify(doc, &refs, "replay", exp.len()).violation
}
