//! C05 — Output is a fixed point: re-processing svgdx output changes nothing.
//!
//! Relation between two executions: for every document x (all combinations of
//! <= k output-producing items) and every pair of configurations (c1, c2):
//! T_c1(x) = Ok(y)  =>  T_c2(y) = Ok(y), byte for byte.

use crate::common::*;
use serde_json::{json, Value};

const ITEMS: &[&str] = &[
    r#"<rect wh="20 10" text="a &amp; b &lt; c &gt; d"/>"#,
    r#"<rect wh="20 10" text="say &quot;hi&quot; it's"/>"#,
    r#"<rect wh="20 10" text="l1\nl2\n\nl4"/>"#,
    r#"<rect wh="20 10" class="d-text-pre" text="  two  spaces\n    four"/>"#,
    r#"<rect wh="20 10" text="tab	and é 😀" text-loc="tl" class="d-text-outside d-red"/>"#,
    r#"<rect wh="20 10" _="c &amp; d -- e" __="raw &lt;x&gt; -"/>"#,
    r#"<line xy1="0" xy2="10 5" class="d-arrow d-dash" text="e"/>"#,
    r#"<rect wh="9" class="d-grid-5 d-softshadow d-fill-blue d-text-bold" text="p"/>"#,
    r#"<polyline points="0 0 5 5 10 0" class="d-flow d-biarrow"/>"#,
    r#"<style>a > b { x: "y"; } /* &amp; */</style>"#,
    r#"<style><![CDATA[ a > b { x: "<&>"; } ]]></style>"#,
    r##"<defs><linearGradient id="g"><stop offset="0" stop-color="#fff"/></linearGradient></defs><rect wh="4" fill="url(#g)"/>"##,
    r#"<g transform="translate(3) scale(2)" id="grp"><circle r="2"/><rect xy="^|h 1" wh="2"/></g>"#,
    r##"<specs><rect id="t" wh="$s" text="$s"/></specs><reuse href="#t" s="3"/><reuse href="#t" s="4" x="9" class="k"/>"##,
    r#"<loop count="2" loop-var="i"><rect xy="{{$i * 7}} 0" wh="5" text="n$i"/></loop>"#,
    r##"<rect wh="5" xlink:href="#a" xml:space="preserve" data-x="1"/>"##,
    "<rect wh=\"5\"/>  \n\n\n  <rect xy=\"^|v\" wh=\"5\"/>\t\n",
    "\r\n  <rect wh=\"5\"/>\r\n  <rect xy=\"^|h\" wh=\"5\"/>\r\n",
    r#"<!-- plain comment --><rect wh="5"/><!-- &amp; &lt;rect text="x &amp; y"/&gt; -->"#,
    r#"<text xy="3">a &amp; b &quot;c&quot;</text>"#,
    r#"<text xy="3"><![CDATA[<raw> & "text"]]></text>"#,
    r#"<text xy="3 4">one<tspan dy="1">two &lt;</tspan> three</text>"#,
    r#"<rect wh="12">content &amp; text
on two lines</rect>"#,
    r#"<svg xmlns="http://www.w3.org/2000/svg" width="5"><text>it's "q" &amp; more
 next</text></svg>"#,
    r#"<svg x="1" y="2" width="5" height="5"><rect wh="2"/></svg>"#,
    r#"<?pi inner?><rect wh="5" text="x"/>"#,
    r##"<rect id="a" wh="8"/><rect id="b" xy="#a|h 10" wh="8"/><line start="#a" end="#b" class="d-arrow"/><rect surround="#a #b" margin="2" class="d-dot"/>"##,
    r#"<point xy="3" text="pt"/><box wh="9"/><text xy="^@c" text="in box"/>"#,
    r#"<var k="&lt;&amp;&gt;"/><rect wh="5" text="[$k]" a="$k"/>"#,
    r#"<title>t &amp; u</title><desc>d</desc><a href="http://x/?a=1&amp;b=2"><rect wh="3"/></a>"#,
    r#"<path d="M0 0 h5 v5 z" class="d-thick"/><ellipse cxy="9 9" rxy="3 2" text="e" text-loc="b"/>"#,
    r#"<rect wh="20 10" text="vert" class="d-text-vertical"/><rect xy="^|h" wh="5" text="x" text-lsp="2" text-dy="1"/>"#,
    r#"<rect wh="10" _="request ---&gt; server &lt;--- reply" __="a ----- b --&gt; &lt;!-- c"/>"#,
    r#"<!-- <rect text="x &lt; y"/> ]]&gt; --><rect wh="3" text="]]&gt; --&gt; &lt;!--"/>"#,
    r#"<svg xmlns="http://www.w3.org/2000/svg" width="{{width}}" class="tpl {{kind}} a  a"><g data-x="{{1 +}}">t  
 u</g></svg>"#,
];

const PRE: &[&str] = &["", "<!-- pre &amp; -->\n", "<?xml version=\"1.0\" encoding=\"UTF-8\"?>\n<!DOCTYPE svg>\n", "<?xml-stylesheet href=\"s.css\"?>"];

fn c1s() -> Vec<(&'static str, Cfg)> {
    let d = Cfg::default();
    vec![
        ("default", d.clone()),
        ("debug", Cfg { debug: true, ..d.clone() }),
        ("metadata", Cfg { add_metadata: true, ..d.clone() }),
        ("debug+metadata", Cfg { debug: true, add_metadata: true, ..d.clone() }),
        ("no-auto-styles", Cfg { add_auto_styles: false, ..d.clone() }),
        ("local-styles", Cfg { use_local_styles: true, ..d.clone() }),
        ("dark+bg+font", Cfg { theme: "dark".into(), background: "rgb(1,2,3) ]]> &".into(), font_family: "A \"B\" & C".into(), ..d.clone() }),
        ("svg-style+scale", Cfg { svg_style: Some("background: \"x\" & <y>".into()), scale: 2.5, border: 0, ..d.clone() }),
    ]
}

fn c2s() -> Vec<(&'static str, Cfg)> {
    let d = Cfg::default();
    vec![
        ("default", d.clone()),
        ("debug+metadata", Cfg { debug: true, add_metadata: true, ..d.clone() }),
        ("no-auto-styles", Cfg { add_auto_styles: false, ..d.clone() }),
        ("local-styles+svg-style", Cfg { use_local_styles: true, svg_style: Some("q".into()), ..d.clone() }),
        ("dark-b0-s2", Cfg { theme: "dark".into(), border: 0, scale: 2.0, background: "red".into(), ..d.clone() }),
        ("tiny-limits", Cfg { loop_limit: 0, var_limit: 0, depth_limit: 1, ..d.clone() }),
    ]
}

fn check(doc: &str, leg: &str, c1: &[(&'static str, Cfg)], c2: &[(&'static str, Cfg)]) -> CaseResult {
    let mut viol = None;
    let mut execs = 0u64;
    let mut oks = 0;
    let mut oh = 0u64;
    for (n1, cfg1) in c1 {
        let y = run_str(doc, cfg1);
        execs += 1;
        let case = |n2: &str| json!({"leg": leg, "input": doc, "c1": n1, "c2": n2});
        match &y {
            Outcome::Panic(p) => {
                viol.get_or_insert(Violation { clause: "panic".into(), signature: format!("C05/{leg}/panic"), case: case(""), detail: p.clone() });
            }
            Outcome::Err(_) => {}
            Outcome::Ok(yb) => {
                oks += 1;
                oh ^= hash64(yb);
                for (k, (n2, cfg2)) in c2.iter().enumerate() {
                    // alternate the two library entry points
                    let z = if k % 2 == 0 {
                        run_bytes(yb, cfg2)
                    } else {
                        match std::str::from_utf8(yb) {
                            Ok(s) => run_str(s, cfg2),
                            Err(_) => run_bytes(yb, cfg2),
                        }
                    };
                    execs += 1;
                    if viol.is_some() {
                        continue;
                    }
                    match &z {
                        Outcome::Ok(zb) if zb == yb => {}
                        Outcome::Ok(zb) => {
                            let (ys, zs) = (String::from_utf8_lossy(yb), String::from_utf8_lossy(zb));
                            let at = ys.bytes().zip(zs.bytes()).position(|(a, b)| a != b).unwrap_or(ys.len().min(zs.len()));
                            let lo = at.saturating_sub(60);
                            let cut = |s: &str| {
                                let mut a = lo.min(s.len());
                                while !s.is_char_boundary(a) { a -= 1; }
                                let mut b = (at + 80).min(s.len());
                                while !s.is_char_boundary(b) { b -= 1; }
                                s[a..b].to_string()
                            };
                            viol = Some(Violation {
                                clause: "reprocessing-changes-output".into(),
                                signature: format!("C05/{leg}/changed/{}", item_sig(doc)),
                                case: case(n2),
                                detail: format!("first difference at byte {at}:\n  T(x):    …{}…\n  T(T(x)): …{}…", cut(&ys), cut(&zs)),
                            });
                        }
                        other => {
                            viol = Some(Violation {
                                clause: "reprocessing-fails".into(),
                                signature: format!("C05/{leg}/fails/{}", item_sig(doc)),
                                case: case(n2),
                                detail: format!("T(x) succeeded but T(T(x)) gave {}\nT(x) = {}", other.brief(), clip(&String::from_utf8_lossy(yb), 600)),
                            });
                        }
                    }
                }
            }
        }
    }
    CaseResult {
        case_hash: hash64(&doc),
        nontrivial: oks > 0,
        outcome_hash: oh,
        executions: execs,
        violation: viol,
    }
}

/// which items of the alphabet the document is made of (stable, specific signature)
fn item_sig(doc: &str) -> String {
    let ids: Vec<String> = ITEMS.iter().enumerate().filter(|(_, it)| doc.contains(*it)).map(|(i, _)| i.to_string()).collect();
    if ids.is_empty() {
        format!("doc-{:08x}", hash64(&doc) as u32)
    } else {
        format!("items-{}", ids.join("+"))
    }
}

fn docs(tier: Tier) -> Vec<String> {
    let k = tier.pick(2, 3);
    let n = ITEMS.len();
    let mut v = Vec::new();
    let mut combos: Vec<Vec<usize>> = vec![];
    for a in 0..n {
        combos.push(vec![a]);
        for b in 0..n {
            if b != a {
                combos.push(vec![a, b]); // ordered pairs: order matters for tail text and '^'
            }
        }
    }
    if k >= 3 {
        for a in 0..n {
            for b in (a + 1)..n {
                for c in (b + 1)..n {
                    combos.push(vec![a, b, c]);
                }
            }
        }
    }
    for (ci, c) in combos.iter().enumerate() {
        let body: Vec<&str> = c.iter().map(|i| ITEMS[*i]).collect();
        let pre = PRE[ci % PRE.len()];
        v.push(format!("{pre}<svg>\n  {}\n</svg>\n", body.join("\n  ")));
        if c.len() == 1 {
            for pre in PRE {
                v.push(format!("{pre}<svg id=\"root\" class=\"k\" style=\"s\">{}</svg>", body[0]));
            }
            v.push(format!("<svg width=\"10cm\">{}</svg>", body[0]));
            v.push(format!("<svg xmlns=\"http://example.com/not-svg\">{}</svg>", body[0]));
            v.push(format!("<svg xmlns:xlink=\"http://www.w3.org/1999/xlink\" version=\"1.0\">{}</svg>", body[0]));
            v.push(format!("<svg viewBox=\"0 0 10 10\" height=\"50%\">\n{}</svg>", body[0]));
        }
    }
    v.push("<svg/>".into());
    v.push("<svg></svg>".into());
    v.push("<svg>just text &amp; more</svg>".into());
    // seventh round (seed C05e): quotes and markup characters in class tokens, ids and styles, on elements and on the root
    v.push("<svg><rect wh=\"5\" class=\"a&quot;b c\"/></svg>".into());
    v.push("<svg class=\"r&quot;q\"><rect wh=\"5\" class=\"x&amp;y &lt;z\" text=\"t\"/></svg>".into());
    v.push("<svg><g class='a&apos;b \"c'><rect wh=\"5\" id=\"i&quot;d\" style=\"font-family:&quot;X&quot;\" class=\"d-red q&#34;\"/></g></svg>".into());
    v
}

pub fn run(tier: Tier) -> i32 {
    let mut rep = Report::new("C05", tier, "exploration");
    let (c1, c2) = (c1s(), c2s());
    let ds = docs(tier);
    rep.set("rule", json!(format!("Documents with a root <svg>: every single item, every ordered pair{} of {} output-producing items (generated text with special characters/quotes/multi-line/pre-formatted/unicode, _ and __ comments, classes that emit style CDATA and defs, author <style>/<defs>/CDATA, groups with transforms, reuse, loops, foreign-namespace attributes, tail text/blank lines/CRLF/tabs, source comments with entities, text content, tspans, nested namespaced and plain <svg>, PIs, connectors, surround, point/box, variables with specials, links, paths, vertical text) under 4 prolog forms and root-attribute variants, plus the repository's examples/*.xml, real-SVG documents, odd spellings (namespace written with character references / single quotes / blanks, U+FEFF as content before the root and in text) and four ill-formed inputs the reader accepts. For each document x and each of {} first configurations c1: if T_c1(x) is Ok(y) then for each of {} second configurations c2, T_c2(y) must be Ok and byte-identical to y (alternating transform_stream / transform_str). Non-trivial = at least one c1 gave Ok.", if tier == Tier::Thorough { " and every unordered triple" } else { "" }, ITEMS.len(), c1.len(), c2.len())));
    rep.set("also_later", json!("Rounds 3-5 added 6 documents whose first pass must not 'succeed' without a root (unreadable element in <specs>, DOCTYPE with '<'), and documents using declared entities. Round 7 (seed C05e) added quotes and markup characters in class tokens, ids and styles."));
    let st = run_space(ds.len(), |i| check(&ds[i], "items", &c1, &c2));
    rep.sample(json!({"leg": "items", "doc": ds[ds.len() / 2]}));
    rep.sample(json!({"leg": "items", "doc": ds[7]}));
    rep.absorb("items", st);
    let ex = crate::props::c06::examples_corpus_pub();
    let st = run_space(ex.len(), |i| check(&ex[i], "examples", &c1, &c2));
    rep.set("examples_corpus", json!(ex.len()));
    rep.absorb("examples", st);
    // documents which are real SVG already (as other tools write them): output of a first pass is the document itself
    let ns = "http://www.w3.org/2000/svg";
    let real: Vec<String> = vec![
        format!("<?xml version=\"1.0\" encoding=\"UTF-8\"?>\n<svg xmlns:xlink=\"http://www.w3.org/1999/xlink\" xmlns=\"{ns}\" width=\"10\"><rect width=\"5\" height=\"5\" id=\"a\"/><use xlink:href=\"#a\" x=\"5\"/></svg>\n"),
        format!("<?xml-stylesheet href=\"a.css\"?>\n<!DOCTYPE svg>\n<svg xmlns:a=\"urn:a\" a:b=\"c\" xmlns=\"{ns}\"><text>a &amp; b</text></svg>\n<!-- trailing -->\n"),
        format!("<svg version=\"1.1\" xmlns=\"{ns}\" xmlns:xlink=\"http://www.w3.org/1999/xlink\" class=\"d-red\"><g class=\"d-grid\"><rect wh=\"3\" text=\"t\"/></g></svg>"),
        format!("<svg xmlns=\"{ns}\"/>"),
        format!("<svg xmlns:x=\"urn:x\" xmlns=\"{ns}\"/>"),
    ];
    let st = run_space(real.len(), |i| check(&real[i], "real-svg", &c1, &c2));
    rep.absorb("real-svg", st);
    // second review round: spellings of the namespace, characters which the reader treats specially
    let odd: Vec<String> = vec![
        "<svg xmlns=\"http://www.w3.org/2000/sv&#103;\"><rect wh=\"5\"/></svg>".into(),
        "<svg xmlns=\"http://www.w3.org/2000/sv&#x67;\" width=\"10\"><rect width=\"5\" height=\"5\"/></svg>".into(),
        "<svg xmlns='http://www.w3.org/2000/svg'><rect width='5' height='5'/></svg>".into(),
        "<svg  xmlns = \"http://www.w3.org/2000/svg\" ><rect width=\"5\" height=\"5\"/></svg>".into(),
        "<svg><svg xmlns=\"http://www.w3.org/2000/sv&#103;\"><rect width=\"5\" height=\"5\"/></svg><rect wh=\"3\"/></svg>".into(),
        "&#xFEFF;<svg><rect wh=\"5\"/></svg>".into(),
        "<?xml version=\"1.0\"?>\u{FEFF}<svg><rect wh=\"5\"/></svg>".into(),
        format!("{}{}<svg xmlns=\"{ns}\"><rect width=\"5\" height=\"5\"/></svg>", '\u{FEFF}', '\u{FEFF}'),
        "<svg><rect wh=\"5\" text=\"a&#xFEFF;b\"/></svg>".into(),
        // fourth review round: a first pass must not succeed with an output which has no root
        "<!DOCTYPE svg [<!ENTITY foo \"bar\">]><svg><specs><rect id=\"a\" wh=\"5\" title=\"&foo;\"/></specs><rect wh=\"5\"/></svg>".into(),
        "<!-- kept --><svg><rect wh=\"5\"/><g><specs><rect id=\"a\" wh=\"5\" title=\"&#0;\"/></specs></g><rect wh=\"5\"/></svg>".into(),
        "<!DOCTYPE svg [<!ENTITY lt2 \"<\">]>\n<svg>\n  <rect wh=\"5\"/>\n</svg>\n<!-- > -->".into(),
        format!("<!DOCTYPE svg [<!-- a < b -->]>\n<svg xmlns=\"{ns}\"><rect width=\"5\" height=\"5\"/></svg>\n<?note 1 > 0 ?>"),
        format!("<!DOCTYPE svg [<!ENTITY n \"{ns}\">]><svg xmlns=\"&n;\"><rect width=\"5\" height=\"5\"/></svg>"),
        "<!DOCTYPE svg [<!ENTITY w \"10\">]><svg><rect wh=\"&w;\" text=\"&w; &amp; &lt;\"/></svg>".into(),
    ];
    let st = run_space(odd.len(), |i| {
        let mut r = check(&odd[i], "odd-spellings", &c1, &c2);
        if let Some(v) = r.violation.as_mut() {
            v.signature = format!("C05/odd-spellings/{}/{i}", if v.clause == "reprocessing-fails" { "fails" } else { "changed" });
        }
        r
    });
    rep.absorb("odd-spellings", st);
    // input which is not well-formed XML but is accepted (see the C02 finding on lenient input): the output
    // inherits the defect and the second pass reads it differently
    let lenient: Vec<&str> = vec![
        "<svg><rect wh=\"5\" k\"=\"&gt;\" j\"=\"\"/></svg>",
        "<svg><rect wh=\"5\" k'=\"&apos;\" j'=\"\"/></svg>",
        "<svg><a/ ></a/></svg>",
        "<svg>< /></svg>",
    ];
    let st = run_space(lenient.len(), |i| {
        let mut r = check(lenient[i], "lenient-input", &c1, &c2);
        if let Some(v) = r.violation.as_mut() {
            v.signature = format!("C05/lenient-input/{i}");
        }
        r
    });
    rep.absorb("lenient-input", st);
    rep.assume("the first-pass output under use_local_styles carries a random root id; the relation is checked on the output actually obtained, so no cross-run comparison is involved");
    rep.finish()
}

pub fn replay_case(case: &Value) -> Option<Violation> {
    let c1: Vec<_> = c1s().into_iter().filter(|c| Some(c.0) == case["c1"].as_str()).collect();
    let c2: Vec<_> = c2s().into_iter().filter(|c| Some(c.0) == case["c2"].as_str() || case["c2"].as_str() == Some("")).collect();
    check(case["input"].as_str()?, case["leg"].as_str().unwrap_or("items"), &c1, &c2).violation
}
