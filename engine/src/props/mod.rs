use crate::common::{Tier, Violation};
use serde_json::Value;

pub mod c06;
pub mod c07;
pub mod c01;
pub mod c04;
pub mod c20;
pub mod c14;
pub mod c08;
pub mod c13;
pub mod c12;
pub mod c09;
pub mod c11;
pub mod c18;
pub mod c16;
pub mod c10;
pub mod c19;
pub mod c05;
pub mod c02;
pub mod c03;
pub mod c15;
pub mod c17;

pub fn run(id: &str, tier: Tier) -> i32 {
    match id {
        "C06" => c06::run(tier),
        "C07" => c07::run(tier),
        "C01" => c01::run(tier),
        "C04" => c04::run(tier),
        "C20" => c20::run(tier),
        "C14" => c14::run(tier),
        "C08" => c08::run(tier),
        "C13" => c13::run(tier),
        "C12" => c12::run(tier),
        "C09" => c09::run(tier),
        "C11" => c11::run(tier),
        "C18" => c18::run(tier),
        "C16" => c16::run(tier),
        "C10" => c10::run(tier),
        "C19" => c19::run(tier),
        "C05" => c05::run(tier),
        "C02" => c02::run(tier),
        "C03" => c03::run(tier),
        "C15" => c15::run(tier),
        "C17" => c17::run(tier),
        _ => {
            eprintln!("unknown property {id}");
            2
        }
    }
}

/// Re-run one recorded case twice without the explorer; both runs must agree.
pub fn replay(id: &str, v: &Value) -> i32 {
    let case = &v["case"];
    let f: fn(&Value) -> Option<Violation> = match id {
        "C06" => c06::replay_case,
        "C07" => c07::replay_case,
        "C01" => c01::replay_case,
        "C04" => c04::replay_case,
        "C20" => c20::replay_case,
        "C14" => c14::replay_case,
        "C08" => c08::replay_case,
        "C13" => c13::replay_case,
        "C12" => c12::replay_case,
        "C09" => c09::replay_case,
        "C11" => c11::replay_case,
        "C18" => c18::replay_case,
        "C16" => c16::replay_case,
        "C10" => c10::replay_case,
        "C19" => c19::replay_case,
        "C05" => c05::replay_case,
        "C02" => c02::replay_case,
        "C03" => c03::replay_case,
        "C15" => c15::replay_case,
        "C17" => c17::replay_case,
        _ => {
            eprintln!("unknown property {id}");
            return 2;
        }
    };
    let a = f(case);
    let b = f(case);
    match (a, b) {
        (None, None) => {
            println!("replay: property {id} holds on this case (two runs)");
            0
        }
        (Some(x), Some(y)) if x.detail == y.detail => {
            println!("VIOLATION property={id} replay=(replayed)\n  clause: {}\n  detail: {}", x.clause, x.detail);
            1
        }
        _ => {
            println!("MACHINERY-ERROR: replay diverged between two runs of the same case");
            2
        }
    }
}
