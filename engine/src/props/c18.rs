//! C18 — Reuse instantiates templates as if written out by hand.
//!
//! Translation validation by exhaustive enumeration: every (template, placement,
//! instantiation sequence) of the bounded grammar is paired with a twin in which
//! each <reuse> is replaced by the template written out by hand with the bound
//! values substituted; both run through the real transform and must agree.

use crate::common::*;
use crate::xmlref::{self, Ev, Mode};
use serde_json::{json, Value};

#[derive(Clone, Copy, PartialEq, Debug)]
enum Kind {
    Shape,
    Group,
    Symbol,
}

struct Template {
    name: &'static str,
    kind: Kind,
    /// element name of the written-out instance
    el: &'static str,
    /// attributes of the template other than id / class (source form, may use $s $label $c)
    attrs: &'static str,
    class: &'static str,
    /// inner source for containers
    inner: &'static str,
    /// whether x/y placement is asserted for this template (statement: top-left of a shape's box / translation of a group)
    placeable: bool,
    relative_ok: bool,
}

const TEMPLATES: &[Template] = &[
    Template { name: "rect-var-class", kind: Kind::Shape, el: "rect", attrs: r#"wh="$s""#, class: "k $c", inner: "", placeable: true, relative_ok: true },
    Template { name: "rect-text-rx", kind: Kind::Shape, el: "rect", attrs: r#"wh="$s {{$s * 2}}" text="$label" rx="1""#, class: "", inner: "", placeable: true, relative_ok: true },
    Template { name: "circle", kind: Kind::Shape, el: "circle", attrs: r#"r="$s""#, class: "c1", inner: "", placeable: false, relative_ok: false },
    Template { name: "text", kind: Kind::Shape, el: "text", attrs: r#"text="$label""#, class: "d-text-bold", inner: "", placeable: false, relative_ok: false },
    Template { name: "polyline", kind: Kind::Shape, el: "polyline", attrs: r#"points="0 0 $s ${s}""#, class: "", inner: "", placeable: false, relative_ok: false },
    Template { name: "line", kind: Kind::Shape, el: "line", attrs: r#"xy1="0" xy2="$s 0""#, class: "", inner: "", placeable: false, relative_ok: false },
    Template { name: "rect-transform", kind: Kind::Shape, el: "rect", attrs: r#"wh="4" transform="rotate(5)""#, class: "", inner: "", placeable: false, relative_ok: false },
    Template { name: "group", kind: Kind::Group, el: "g", attrs: "", class: "k", inner: r#"<rect wh="$s"/><circle cx="$s" cy="0" r="1"/>"#, placeable: true, relative_ok: false },
    Template { name: "group-text", kind: Kind::Group, el: "g", attrs: r#"fill="none""#, class: "", inner: r#"<rect wh="$s 2" text="$label" class="$c"/>"#, placeable: true, relative_ok: false },
    Template { name: "symbol", kind: Kind::Symbol, el: "g", attrs: "", class: "", inner: r#"<rect wh="$s" text="$label"/>"#, placeable: true, relative_ok: false },
    Template { name: "group-nested-reuse", kind: Kind::Group, el: "g", attrs: "", class: "", inner: r##"<reuse href="#u" s="{{$s + 1}}"/><rect xy="^|h" wh="$s"/>"##, placeable: true, relative_ok: false },
];

#[derive(Clone, Debug)]
struct Inst {
    s: &'static str,
    label: Option<&'static str>,
    c: Option<&'static str>,
    id: Option<&'static str>,
    class: Option<&'static str>,
    style: Option<&'static str>,
    /// 0 none, 1 x=3 y=5, 2 x=2.5 only, 3 xy="#o|h 2" (relative), 4 x=0 y=0
    pos: usize,
    rx: Option<&'static str>,
    transform: Option<&'static str>,
}

const fn inst(s: &'static str) -> Inst {
    Inst { s, label: None, c: None, id: None, class: None, style: None, pos: 0, rx: None, transform: None }
}

fn pool() -> Vec<Inst> {
    vec![
        inst("3"),
        Inst { label: Some("A"), c: Some("z"), ..inst("1") },
        Inst { label: Some("B&amp; 1 &lt; 2"), id: Some("i1"), ..inst("10") },
        Inst { class: Some("extra more"), c: Some("y"), ..inst("3") },
        Inst { style: Some("fill: red"), label: Some("S"), ..inst("1") },
        Inst { pos: 1, label: Some("P"), ..inst("3") },
        Inst { pos: 2, id: Some("i2"), class: Some("pc"), ..inst("10") },
        Inst { pos: 3, ..inst("3") },
        Inst { pos: 4, label: Some("Z"), ..inst("1") },
        Inst { rx: Some("4"), label: Some("R"), ..inst("3") },
        Inst { transform: Some("scale(2)"), ..inst("3") },
        Inst { pos: 1, id: Some("i3"), class: Some("q"), style: Some("opacity: 0.5"), label: Some("All"), c: Some("w"), ..inst("10") },
    ]
}

fn esc(v: &str) -> String {
    v.to_string()
}

fn reuse_src(i: &Inst) -> String {
    let mut s = format!("<reuse href=\"#t\" s=\"{}\"", i.s);
    if let Some(l) = i.label { s.push_str(&format!(" label=\"{}\"", esc(l))); }
    if let Some(c) = i.c { s.push_str(&format!(" c=\"{c}\"")); }
    if let Some(id) = i.id { s.push_str(&format!(" id=\"{id}\"")); }
    if let Some(c) = i.class { s.push_str(&format!(" class=\"{c}\"")); }
    if let Some(st) = i.style { s.push_str(&format!(" style=\"{st}\"")); }
    match i.pos {
        1 => s.push_str(" x=\"3\" y=\"5\""),
        2 => s.push_str(" x=\"2.5\""),
        3 => s.push_str(" xy=\"#o|h 2\""),
        4 => s.push_str(" x=\"0\" y=\"0\""),
        _ => {}
    }
    if let Some(r) = i.rx { s.push_str(&format!(" rx=\"{r}\"")); }
    if let Some(t) = i.transform { s.push_str(&format!(" transform=\"{t}\"")); }
    s.push_str("/>");
    s
}

/// substitute the variables bound by the reuse element; unbound ones are left for the outer scope
fn bind(src: &str, i: &Inst, s_override: Option<String>) -> String {
    let sval = s_override.unwrap_or(i.s.to_string());
    let mut out = src.replace("${s}", &sval).replace("$s", &sval);
    if let Some(l) = i.label {
        out = out.replace("$label", l);
    }
    if let Some(c) = i.c {
        out = out.replace("$c", c);
    }
    out
}

/// the template written out by hand for one instantiation
fn written_out(t: &Template, i: &Inst) -> String {
    let mut attrs = bind(t.attrs, i, None);
    if let Some(r) = i.rx {
        // an attribute of the reuse element overrides the same attribute of the template
        if attrs.contains("rx=\"1\"") {
            attrs = attrs.replace("rx=\"1\"", &format!("rx=\"{r}\""));
        }
    }
    if let Some(tr) = i.transform {
        if attrs.contains("transform=\"") {
            attrs = attrs.replace("transform=\"rotate(5)\"", &format!("transform=\"rotate(5) {tr}\""));
        } else {
            attrs.push_str(&format!(" transform=\"{tr}\""));
        }
    }
    let mut classes: Vec<String> = bind(t.class, i, None).split_whitespace().map(|s| s.to_string()).collect();
    if let Some(c) = i.class {
        classes.extend(c.split_whitespace().map(|s| s.to_string()));
    }
    classes.push("t".to_string()); // the template's id becomes a class
    let mut s = format!("<{}", t.el);
    if let Some(id) = i.id {
        s.push_str(&format!(" id=\"{id}\""));
    }
    if !attrs.is_empty() {
        s.push(' ');
        s.push_str(&attrs);
    }
    s.push_str(&format!(" class=\"{}\"", classes.join(" ")));
    if let Some(st) = i.style {
        s.push_str(&format!(" style=\"{st}\""));
    }
    match t.kind {
        Kind::Shape => {
            match i.pos {
                1 => s.push_str(" x=\"3\" y=\"5\""),
                2 => s.push_str(" x=\"2.5\""),
                3 => s.push_str(" xy=\"#o|h 2\""),
                4 => s.push_str(" x=\"0\" y=\"0\""),
                _ => {}
            }
            s.push_str("/>");
        }
        Kind::Group | Kind::Symbol => {
            match i.pos {
                1 => s.push_str(" transform=\"translate(3, 5)\""),
                2 => s.push_str(" transform=\"translate(2.5, 0)\""),
                _ => {}
            }
            s.push('>');
            let inner = if t.name == "group-nested-reuse" {
                let inner_s = format!("{}", i.s.parse::<f64>().unwrap() + 1.);
                // inner instance of #u (<rect id="u" wh="$s"/>) written out, then the sibling
                format!("<rect wh=\"{inner_s}\" class=\"u\"/><rect xy=\"^|h\" wh=\"{}\"/>", i.s)
            } else {
                bind(t.inner, i, None)
            };
            s.push_str(&inner);
            s.push_str(&format!("</{}>", t.el));
        }
    }
    s
}

fn template_src(t: &Template) -> String {
    let el = match t.kind {
        Kind::Symbol => "symbol",
        _ => t.el,
    };
    let mut s = format!("<{el} id=\"t\"");
    if !t.attrs.is_empty() {
        s.push(' ');
        s.push_str(t.attrs);
    }
    if !t.class.is_empty() {
        s.push_str(&format!(" class=\"{}\"", t.class));
    }
    if t.kind == Kind::Shape {
        s.push_str("/>");
    } else {
        s.push('>');
        s.push_str(t.inner);
        s.push_str(&format!("</{el}>"));
    }
    s
}

const PRE: &str = r#"<var s="2" label="L" c="dflt"/><rect id="o" xy="20 20" wh="4"/>"#;
const AUX: &str = r#"<specs><rect id="u" wh="$s"/></specs>"#;

/// placement: 0 specs, 1 defs, 2 inline before, 3 inline after (forward template)
fn documents(t: &Template, placement: usize, seq: &[Inst]) -> (String, String) {
    let tpl = template_src(t);
    let reuses: String = seq.iter().map(reuse_src).collect();
    let written: String = seq.iter().map(|i| written_out(t, i)).collect();
    let (a, b) = match placement {
        0 => (format!("<specs>{tpl}</specs>{reuses}"), written),
        1 => (format!("<defs>{tpl}</defs>{reuses}"), format!("<defs>{tpl}</defs>{written}")),
        2 => (format!("{tpl}{reuses}"), format!("{tpl}{written}")),
        _ => (format!("{reuses}<specs>{tpl}</specs>"), written),
    };
    (format!("<svg>{PRE}{AUX}{a}</svg>"), format!("<svg>{PRE}{AUX}{b}</svg>"))
}

/// canonical, whitespace-insensitive events; class as a token set; pure-translate transforms summed
fn normalise(evs: Vec<Ev>) -> Vec<Ev> {
    xmlref::canonical(&evs)
        .into_iter()
        .filter(|e| !matches!(e, Ev::Text(t) if t.trim().is_empty()))
        .map(|e| match e {
            Ev::Start(n, attrs) => {
                let mut out = Vec::new();
                for (k, v) in attrs {
                    if k == "class" {
                        let mut toks: Vec<&str> = v.split_whitespace().collect();
                        toks.sort();
                        toks.dedup();
                        out.push((k, toks.join(" ")));
                    } else if k == "transform" {
                        match sum_translate(&v) {
                            Some((x, y)) => {
                                if x != 0. || y != 0. {
                                    out.push((k, format!("translate({x}, {y})")));
                                }
                            }
                            None => out.push((k, v)),
                        }
                    } else {
                        out.push((k, v));
                    }
                }
                Ev::Start(n, out)
            }
            other => other,
        })
        .collect()
}

fn sum_translate(v: &str) -> Option<(f64, f64)> {
    let mut x = 0.;
    let mut y = 0.;
    let mut rest = v.trim();
    if rest.is_empty() {
        return Some((0., 0.));
    }
    while !rest.is_empty() {
        let r = rest.strip_prefix("translate(")?;
        let end = r.find(')')?;
        let nums: Vec<f64> = r[..end].split(|c: char| c == ',' || c.is_whitespace()).filter(|s| !s.is_empty()).map(|s| s.parse().ok()).collect::<Option<Vec<_>>>()?;
        match nums.len() {
            1 => x += nums[0],
            2 => {
                x += nums[0];
                y += nums[1];
            }
            _ => return None,
        }
        rest = r[end + 1..].trim_start();
    }
    Some((x, y))
}

fn usable(t: &Template, placement: usize, seq: &[Inst]) -> bool {
    for i in seq {
        if i.pos != 0 && !t.placeable {
            return false;
        }
        if i.pos == 3 && !t.relative_ok {
            return false;
        }
        if i.pos == 2 && t.kind != Kind::Shape {
            // a single coordinate on a group: the statement only speaks of x/y
            return false;
        }
        if i.rx.is_some() && t.name != "rect-text-rx" {
            return false;
        }
        if i.transform.is_some() && !(t.name == "rect-transform" || t.name == "rect-var-class") {
            return false;
        }
    }
    // ids must be unique in the written-out document
    let mut ids: Vec<&str> = seq.iter().filter_map(|i| i.id).collect();
    ids.sort();
    let n = ids.len();
    ids.dedup();
    if ids.len() != n {
        return false;
    }
    // a symbol is only meaningful in defs/specs
    if t.kind == Kind::Symbol && placement >= 2 && placement != 3 {
        return false;
    }
    true
}

fn check(ti: usize, placement: usize, seq: &[Inst]) -> CaseResult {
    let t = &TEMPLATES[ti];
    let (a, b) = documents(t, placement, seq);
    let cfg = Cfg::plain();
    let (oa, ob) = (run_str(&a, &cfg), run_str(&b, &cfg));
    let case = json!({"with_reuse": a, "written_out": b, "template": t.name, "placement": placement});
    let sig = format!("{}/placement{}/{}", t.name, placement, seq.iter().map(|i| format!("s{}p{}{}{}{}", i.s, i.pos, i.id.unwrap_or(""), i.class.map(|_| "c").unwrap_or(""), i.style.map(|_| "y").unwrap_or(""))).collect::<Vec<_>>().join("+"));
    let mut viol: Option<Violation> = None;
    let mut known_class = false;
    let mut mk = |clause: &str, detail: String| {
        if viol.is_none() {
            viol = Some(Violation { clause: clause.into(), signature: format!("C18/{clause}/{sig}"), case: case.clone(), detail });
        }
    };
    let mut nontrivial = false;
    match (&oa, &ob) {
        (Outcome::Panic(x), _) | (_, Outcome::Panic(x)) => mk("panic", x.clone()),
        (Outcome::Ok(x), Outcome::Ok(y)) => match (xmlref::parse(x, Mode::Document), xmlref::parse(y, Mode::Document)) {
            (Ok(ex), Ok(ey)) => {
                let (sx, sy) = (normalise(ex), normalise(ey));
                if sx != sy {
                    let at = sx.iter().zip(sy.iter()).position(|(p, q)| p != q).unwrap_or(sx.len().min(sy.len()));
                    // causal attribution of the open finding "relative placement of a reuse uses the
                    // template's in-place size": only if the case agrees once the relatively placed
                    // instances are taken out (neutralising substitution)
                    if seq.iter().any(|i| i.pos == 3) {
                        let reduced: Vec<Inst> = seq.iter().filter(|i| i.pos != 3).cloned().collect();
                        if reduced.is_empty() || check(ti, placement, &reduced).violation.is_none() {
                            known_class = true;
                        }
                    }
                    mk("differs-from-written-out", format!("with reuse:  {a}\nwritten out: {b}\nfirst differing event #{at}:\n  reuse:       {:?}\n  written out: {:?}", sx.get(at), sy.get(at)));
                } else {
                    nontrivial = true;
                }
                if String::from_utf8_lossy(x).contains("<specs") || String::from_utf8_lossy(x).contains("<reuse") {
                    mk("specs-or-reuse-rendered", clip(&String::from_utf8_lossy(x), 500));
                }
            }
            _ => mk("unparsable-output", "not well-formed".into()),
        },
        (Outcome::Err(_), Outcome::Err(_)) => {}
        (x, y) => mk("one-side-fails", format!("with reuse:  {a}\n  -> {}\nwritten out: {b}\n  -> {}", clip(&x.brief(), 400), clip(&y.brief(), 400))),
    }
    if known_class {
        if let Some(v) = viol.as_mut() {
            v.signature = "C18/relative-placement-uses-template-size".into();
        }
    }
    CaseResult {
        case_hash: hash64(&a),
        nontrivial,
        outcome_hash: hash64(&format!("{oa:?}")),
        executions: 2,
        violation: viol,
    }
}

/// Hand-written (reuse, written-out) pairs outside the template table: witnesses found by reviewers.
fn scenario_pairs() -> Vec<(&'static str, &'static str, &'static str)> {
    vec![
        ("template-own-resize", r##"<svg><specs><rect id="t" wh="$s" dw="2" dh="25%"/></specs><reuse href="#t" s="4"/></svg>"##, r##"<svg><rect wh="4" dw="2" dh="25%" class="t"/></svg>"##),
        ("template-own-centre", r##"<svg><specs><rect id="t" cx="0" cy="0" wh="$s"/></specs><reuse href="#t" s="4"/></svg>"##, r##"<svg><rect cx="0" cy="0" wh="4" class="t"/></svg>"##),
        ("template-line-by-end-points", r##"<svg><specs><line id="t" x1="0" y1="0" x2="$a" y2="2"/></specs><reuse href="#t" a="3" x="10" y="20"/></svg>"##, r##"<svg><line x1="10" y1="20" x2="13" y2="22" class="t"/></svg>"##),
        ("template-text-placed", r##"<svg><specs><text id="t" text="$label"/></specs><reuse href="#t" label="hi" x="30" y="40"/><reuse href="#t" label="ho" x="60" y="40"/></svg>"##, r##"<svg><text x="30" y="40" text="hi" class="t"/><text x="60" y="40" text="ho" class="t"/></svg>"##),
        ("reuse-of-reuse-placed", r##"<svg><specs><g id="r"><rect wh="$s"/></g><reuse id="q" href="#r" s="4"/></specs><reuse href="#q" x="10"/><reuse href="#q" y="10"/></svg>"##, r##"<svg><g transform="translate(10, 0)" class="q r"><rect wh="4"/></g><g transform="translate(0, 10)" class="q r"><rect wh="4"/></g></svg>"##),
        ("reuse-of-reuse-in-specs", r##"<svg><specs><rect id="r" wh="$s"/><reuse id="q" href="#r" s="4"/></specs><reuse href="#q"/></svg>"##, r##"<svg><rect wh="4" class="q r"/></svg>"##),
        // second review round
        ("placed-compound-position/circle-xy", r##"<svg><specs><circle id="t" xy="0" wh="$s"/></specs><reuse href="#t" s="4" x="10" y="20"/></svg>"##, r##"<svg><circle xy="10 20" wh="4" class="t"/></svg>"##),
        ("placed-compound-position/rect-cxy", r##"<svg><specs><rect id="t" cxy="$h" wh="{{$h*2}}"/></specs><reuse href="#t" h="2" x="10" y="20"/></svg>"##, r##"<svg><rect x="10" y="20" wh="4" class="t"/></svg>"##),
        ("placed-compound-position/rect-xy2", r##"<svg><specs><rect id="t" xy2="7" wh="$s"/></specs><reuse href="#t" s="4" x="10" y="20"/></svg>"##, r##"<svg><rect x="10" y="20" wh="4" class="t"/></svg>"##),
        ("template-sized-by-reference/width", r##"<svg><rect id="o" wh="10 4"/><specs><rect id="t" width="#o~w" height="$h"/></specs><reuse href="#t" h="3"/></svg>"##, r##"<svg><rect id="o" wh="10 4"/><rect width="#o~w" height="3" class="t"/></svg>"##),
        ("template-sized-by-reference/wh", r##"<svg><rect id="o" wh="10 4"/><specs><rect id="t" wh="#o" rx="$r"/></specs><reuse href="#t" r="1" xy="20 0"/></svg>"##, r##"<svg><rect id="o" wh="10 4"/><rect xy="20 0" wh="#o" rx="1" class="t"/></svg>"##),
        ("template-with-clip-path", r##"<svg><clipPath id="c"><rect wh="2"/></clipPath><specs><rect id="t" wh="$s" clip-path="url(#c)"/></specs><reuse href="#t" s="10" x="20"/></svg>"##, r##"<svg><clipPath id="c"><rect wh="2"/></clipPath><rect x="20" wh="10" clip-path="url(#c)" class="t"/></svg>"##),
        ("template-without-user-size/image", r##"<svg><specs><image id="t" href="$f"/></specs><reuse href="#t" f="a.png" x="10" y="20"/></svg>"##, r##"<svg><image href="a.png" x="10" y="20" class="t"/></svg>"##),
        ("template-without-user-size/unit-width", r##"<svg><specs><rect id="t" width="2cm" height="$h"/></specs><reuse href="#t" h="3" x="10" y="20"/></svg>"##, r##"<svg><rect x="10" y="20" width="2cm" height="3" class="t"/></svg>"##),
        ("defaults-once/template-with-end-tag", r##"<svg><defaults><rect transform="translate(5)" style="fill:red"/></defaults><specs><rect id="t" wh="$s">hi</rect></specs><reuse href="#t" s="3"/></svg>"##, r##"<svg><defaults><rect transform="translate(5)" style="fill:red"/></defaults><rect wh="3" class="t">hi</rect></svg>"##),
        ("defaults-once/reuse-with-end-tag", r##"<svg><defaults><_ transform="translate(5)"/></defaults><specs><rect id="t" wh="$s"/></specs><reuse href="#t" s="3"></reuse></svg>"##, r##"<svg><defaults><_ transform="translate(5)"/></defaults><rect wh="3" class="t"/></svg>"##),
        ("previous-element/group", r##"<svg><rect wh="1"/><g id="grp" class="k"><rect wh="3"/><circle r="1"/></g><reuse href="^" x="5"/></svg>"##, r##"<svg><rect wh="1"/><g id="grp" class="k"><rect wh="3"/><circle r="1"/></g><reuse href="#grp" x="5"/></svg>"##),
        ("previous-element/link", r##"<svg><rect wh="1"/><a id="lnk" href="x"><rect wh="3"/><circle r="1"/></a><rect id="p" xy="20 0" wh="2"/><reuse href="^" y="5"/></svg>"##, r##"<svg><rect wh="1"/><a id="lnk" href="x"><rect wh="3"/><circle r="1"/></a><rect id="p" xy="20 0" wh="2"/><reuse href="#p" y="5"/></svg>"##),
        ("previous-element/parameters", r##"<svg><var s="3"/><rect wh="$s"/><reuse href="^" s="5" x="10"/></svg>"##, r##"<svg><var s="3"/><rect wh="$s"/><rect x="10" wh="5"/></svg>"##),
        // third review round
        ("placed-template-own-resize/rect", r##"<svg><specs><rect id="t" wh="$s" dw="2" dh="50%"/></specs><reuse href="#t" s="4" y="1"/></svg>"##, r##"<svg><rect wh="4" dw="2" dh="50%" y="1" class="t"/></svg>"##),
        ("placed-template-own-resize/circle", r##"<svg><specs><circle id="t" cxy="0" r="$s" dw="2"/></specs><reuse href="#t" s="4" x="10" y="10"/></svg>"##, r##"<svg><circle x="10" y="10" r="4" dw="2" class="t"/></svg>"##),
        ("defaults-chosen-by-instance-classes/empty", r##"<svg><defaults><rect style="fill:red"/><rect match=".a" rx="2"/><rect match=".t" ry="1"/></defaults><specs><rect id="t" wh="$s"/></specs><reuse href="#t" s="3" style="stroke:blue" class="a"/></svg>"##, r##"<svg><defaults><rect style="fill:red"/><rect match=".a" rx="2"/><rect match=".t" ry="1"/></defaults><rect wh="3" style="stroke:blue" class="a t"/></svg>"##),
        ("defaults-chosen-by-instance-classes/with-content", r##"<svg><defaults><rect style="fill:red"/><rect match=".a" rx="2"/><rect match=".t" ry="1"/></defaults><specs><rect id="t" wh="$s">hi</rect></specs><reuse href="#t" s="3" style="stroke:blue" class="a"/></svg>"##, r##"<svg><defaults><rect style="fill:red"/><rect match=".a" rx="2"/><rect match=".t" ry="1"/></defaults><rect wh="3" style="stroke:blue" class="a t">hi</rect></svg>"##),
        ("defaults-chosen-by-instance-classes/expression", r##"<svg><var k="2"/><defaults><rect match=".a" rx="{{$k + $s}}"/></defaults><specs><rect id="t" wh="$s"/><rect id="u" wh="$s">hi</rect></specs><reuse href="#t" s="3" class="a"/><reuse href="#u" s="3" class="a" x="10"/></svg>"##, r##"<svg><defaults><rect match=".a" rx="5"/></defaults><rect wh="3" class="a t"/><rect wh="3" x="10" class="a u">hi</rect></svg>"##),
        ("instance-with-content-evaluated-once/group", r##"<svg><var cost="99"/><specs><g id="tag" data-label="$label"><rect wh="30 10" text="$label"/></g></specs><reuse href="#tag" label="\$cost"/></svg>"##, r##"<svg><var cost="99"/><g data-label="\$cost" class="tag"><rect wh="30 10" text="\$cost"/></g></svg>"##),
        ("instance-with-content-evaluated-once/shape", r##"<svg><var cost="99"/><specs><rect id="t" wh="$s" data-l="\$cost">hi</rect></specs><reuse href="#t" s="3" style="content:'\$cost'"/></svg>"##, r##"<svg><var cost="99"/><rect wh="3" data-l="\$cost" style="content:'\$cost'" class="t">hi</rect></svg>"##),
        // fifth review round: the text content of a template is evaluated with the instance's values, once
        ("template-text-content/shape", r##"<svg><var label="out"/><specs><rect id="t" wh="30 10">[$label] {{1+2}} \$m</rect></specs><reuse href="#t" label="hi"/></svg>"##, r##"<svg><rect wh="30 10" class="t">[hi] 3 \$m</rect></svg>"##),
        ("template-text-content/text", r##"<svg><specs><text id="t" xy="1 2">n={{$n + 1}}</text></specs><reuse href="#t" n="4"/></svg>"##, r##"<svg><text xy="1 2" class="t">n=5</text></svg>"##),
        ("template-text-content/with-title", r##"<svg><specs><rect id="t" wh="30 10"><title>tip</title>$label</rect></specs><reuse href="#t" label="hi"/></svg>"##, r##"<svg><rect wh="30 10" class="t"><title>tip</title>hi</rect></svg>"##),
        ("reuse-offset-of-rendered-group", r##"<svg><g id="t"><rect wh="4"/></g><reuse href="#t" x="10" y="20" dx="5" dy="7"/></svg>"##, r##"<svg><g id="t"><rect wh="4"/></g><g transform="translate(15, 27)" class="t"><rect wh="4"/></g></svg>"##),
        ("reuse-position-with-unit", r##"<svg><specs><rect id="t" wh="$s"/></specs><reuse href="#t" s="3" x="1cm" y="2cm"/></svg>"##, r##"<svg><rect wh="3" x="1cm" y="2cm" class="t"/></svg>"##),
        ("reuse-position-with-percent", r##"<svg><specs><rect id="t" wh="$s"/></specs><reuse href="#t" s="3" x="10%" y="20"/></svg>"##, r##"<svg><rect wh="3" x="10%" y="20" class="t"/></svg>"##),
        ("template-own-style-kept/shape", r##"<svg><specs><rect id="t" style="fill:red" wh="$s"/></specs><reuse href="#t" s="3" style="stroke:blue"/></svg>"##, r##"<svg><rect style="fill:red; stroke:blue" wh="3" class="t"/></svg>"##),
        // seventh round (seed C18d): the reuse element's style is appended also when its text occurs inside the template's
        ("reuse-style-substring-of-template-style/shape", r##"<svg><specs><rect id="t" style="stroke-width:10" wh="$s"/></specs><reuse href="#t" s="3" style="stroke-width:1"/><reuse href="#t" s="3" style="stroke-width:3"/></svg>"##, r##"<svg><rect style="stroke-width:10; stroke-width:1" wh="3" class="t"/><rect style="stroke-width:10; stroke-width:3" wh="3" class="t"/></svg>"##),
        ("reuse-style-substring-of-template-style/group", r##"<svg><specs><g id="t" style="fill:redwood"><rect wh="$s"/></g></specs><reuse href="#t" s="3" style="fill:red"/></svg>"##, r##"<svg><g style="fill:redwood; fill:red" class="t"><rect wh="3"/></g></svg>"##),
        ("reuse-style-equal-to-template-style/shape", r##"<svg><specs><rect id="t" style="fill:red" wh="$s"/></specs><reuse href="#t" s="3" style="fill:red"/></svg>"##, r##"<svg><rect style="fill:red; fill:red" wh="3" class="t"/></svg>"##),
        ("template-own-style-kept/group", r##"<svg><specs><g id="t" style="opacity:0.5"><rect wh="$s"/></g></specs><reuse href="#t" s="3" style="stroke:blue"/></svg>"##, r##"<svg><g style="opacity:0.5; stroke:blue" class="t"><rect wh="3"/></g></svg>"##),
        ("relative-placement-of-parameterised-template/h", r##"<svg><specs><rect id="t" wh="$s"/></specs><rect id="o" wh="2"/><reuse href="#t" s="2" xy="#o|h 1"/></svg>"##, r##"<svg><rect id="o" wh="2"/><rect wh="2" xy="#o|h 1" class="t"/></svg>"##),
        ("group-template-local-variables-placed", r##"<svg><specs><g id="dot" r="2" width="5"><circle r="$r" cxy="$c"/><rect wh="$width"/></g></specs><reuse href="#dot" c="0" x="10"/></svg>"##, r##"<svg><g r="2" width="5" transform="translate(10, 0)" class="dot"><circle r="2" cxy="0"/><rect wh="5"/></g></svg>"##),
        ("defaults-apply-to-instance", r##"<svg><defaults><rect rx="2" class="d"/></defaults><specs><rect id="t" wh="$s"/></specs><reuse href="#t" s="3"/></svg>"##, r##"<svg><defaults><rect rx="2" class="d"/></defaults><rect wh="3" class="t"/></svg>"##),
    ]
}

fn check_pair(name: &str, a: &str, b: &str) -> CaseResult {
    let cfg = Cfg::plain();
    let (oa, ob) = (run_str(a, &cfg), run_str(b, &cfg));
    let case = json!({"scenario": name, "with_reuse": a, "written_out": b});
    let mut viol = None;
    let mut mk = |clause: &str, detail: String| {
        viol = Some(Violation { clause: clause.into(), signature: format!("C18/scenario/{name}/{clause}"), case: case.clone(), detail });
    };
    match (&oa, &ob) {
        (Outcome::Panic(x), _) | (_, Outcome::Panic(x)) => mk("panic", x.clone()),
        (Outcome::Ok(x), Outcome::Ok(y)) => match (xmlref::parse(x, Mode::Document), xmlref::parse(y, Mode::Document)) {
            (Ok(ex), Ok(ey)) => {
                let (sx, sy) = (normalise(ex), normalise(ey));
                if sx != sy {
                    let at = sx.iter().zip(sy.iter()).position(|(p, q)| p != q).unwrap_or(sx.len().min(sy.len()));
                    mk("differs-from-written-out", format!("with reuse:  {a}\nwritten out: {b}\nfirst differing event #{at}:\n  reuse:       {:?}\n  written out: {:?}", sx.get(at), sy.get(at)));
                }
            }
            _ => mk("unparsable-output", "not well-formed".into()),
        },
        (x, y) => mk("one-side-fails", format!("with reuse:  {a}\n  -> {}\nwritten out: {b}\n  -> {}", clip(&x.brief(), 300), clip(&y.brief(), 300))),
    }
    CaseResult { case_hash: hash64(&a), nontrivial: viol.is_none(), outcome_hash: hash64(&format!("{oa:?}")), executions: 2, violation: viol }
}

pub fn run(tier: Tier) -> i32 {
    let mut rep = Report::new("C18", tier, "translation_validation");
    // the quick tier explores what used to be the thorough space (it takes seconds); `deep` adds the wider bounds
    #[allow(unused_variables)]
    let deep = tier == Tier::Thorough;
    let tier = Tier::Thorough;
    let pool = pool();
    let mut seqs: Vec<Vec<Inst>> = Vec::new();
    for a in &pool {
        seqs.push(vec![a.clone()]);
        for b in &pool {
            seqs.push(vec![a.clone(), b.clone()]);
            if tier == Tier::Thorough {
                for c in &pool {
                    seqs.push(vec![a.clone(), b.clone(), c.clone()]);
                }
            }
        }
    }
    let mut cases: Vec<(usize, usize, usize)> = Vec::new();
    for ti in 0..TEMPLATES.len() {
        for placement in 0..4 {
            for (si, s) in seqs.iter().enumerate() {
                if usable(&TEMPLATES[ti], placement, s) {
                    cases.push((ti, placement, si));
                }
            }
        }
    }
    rep.set("rule", json!("Templates: 11 (rect with variable size and class, rect with text and rx, circle, text, polyline, line, rect with transform, group with two children, group with text and class variable, symbol, group containing a nested reuse) parameterised by $s/$label/$c in geometry, text and class; placement of the template in <specs>, <defs>, inline before, or in <specs> after its uses; instantiation sequences of length 1-2 (thorough 3) from a pool of 12 reuse forms (bindings, id, class list, style, x/y, single x, relative xy, zero x/y, attribute override, extra transform). The twin replaces each <reuse> by the template written out by hand: bound variables substituted, id/style from the reuse, classes = template + reuse + template id, x/y on shapes or translate on groups, symbol -> g, nested reuse inlined; a <specs> template is dropped from the twin altogether. Both documents are executed; canonical whitespace-insensitive event streams (class as a set, pure translations summed) must be equal, and no <specs>/<reuse> may be rendered. Non-trivial = both Ok and equal."));
    rep.set("also_later", json!("Rounds 3-5 added pairs: placed templates with dw / dh, defaults chosen by the instance's classes, instances with content evaluated once, group templates with local variables, template text content (shape, text, with <title>), dx / dy on the reuse of a rendered group, x / y in units. Round 7 (seed C18d) added pairs where the reuse element's style text occurs inside, or equals, the template's own style."));
    rep.set("also", json!("Also 7 hand-written (reuse, written-out) pairs: templates carrying their own dw / dh or centre, a line template given by end points, a <text> template, reuse of a reuse (placed, and inside <specs>), <defaults> applying to an instance."));
    let st = run_space(cases.len(), |i| {
        let (ti, pl, si) = cases[i];
        check(ti, pl, &seqs[si])
    });
    rep.set("programs", json!(cases.len()));
    rep.set("disagreements_checked", json!(cases.len()));
    for i in [cases.len() / 5, cases.len() / 2, cases.len() - 3] {
        let (ti, pl, si) = cases[i];
        let (a, b) = documents(&TEMPLATES[ti], pl, &seqs[si]);
        rep.sample(json!({"with_reuse": a, "written_out": b}));
    }
    rep.absorb("programs", st);
    rep.assume("x/y placement is asserted only where the statement defines it: shapes whose box starts at the origin (rect, text) and groups/symbols (translation); circle/polyline/line templates are instantiated without placement");
    let pairs = scenario_pairs();
    let st = run_space(pairs.len(), |i| check_pair(pairs[i].0, pairs[i].1, pairs[i].2));
    rep.absorb("scenarios", st);
    rep.finish()
}

pub fn replay_case(case: &Value) -> Option<Violation> {
    let (a, b) = (case["with_reuse"].as_str()?, case["written_out"].as_str()?);
    let cfg = Cfg::plain();
    let (oa, ob) = (run_str(a, &cfg), run_str(b, &cfg));
    let same = match (&oa, &ob) {
        (Outcome::Ok(x), Outcome::Ok(y)) => match (xmlref::parse(x, Mode::Document), xmlref::parse(y, Mode::Document)) {
            (Ok(ex), Ok(ey)) => normalise(ex) == normalise(ey),
            _ => false,
        },
        (Outcome::Err(_), Outcome::Err(_)) => true,
        _ => false,
    };
    if same {
        None
    } else {
        Some(Violation { clause: "differs-from-written-out".into(), signature: "C18/replay".into(), case: case.clone(), detail: format!("{}\nvs\n{}", oa.brief(), ob.brief()) })
    }
}
