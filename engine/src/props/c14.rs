//! C14 — Expressions evaluate with conventional arithmetic semantics, exactly once.

use crate::common::*;
use crate::exprref::{self as er, Ast, Val, Verdict};
use serde_json::{json, Value};

const VARS: &[(&str, &str)] = &[("a", "3"), ("b", "2.5"), ("n", "-4"), ("z", "0"), ("cyc", "{{$cyc + 1}}"), ("cy2", "$cy3"), ("cy3", "$cy2")];

fn var_ast(name: &str) -> Option<Ast> {
    match name {
        "a" => Some(Ast::Num(3.)),
        "b" => Some(Ast::Num(2.5)),
        "n" => Some(Ast::Num(-4.)),
        "z" => Some(Ast::Num(0.)),
        _ => None,
    }
}

fn subject(expr: &str) -> (Result<String, String>, u64) {
    let attr = format!("{{{{{expr}}}}}");
    let r = std::panic::catch_unwind(|| svgdx::verif::eval_attr_probe(&attr, VARS, 0));
    match r {
        Ok((Ok(s), d)) => (Ok(s), d),
        Ok((Err(e), d)) => (Err(e.to_string()), d),
        Err(_) => (Err("PANIC".into()), 0),
    }
}

fn same_number(got: &str, exp: f32) -> bool {
    let g = got.trim();
    if exp.is_nan() {
        return g.eq_ignore_ascii_case("nan");
    }
    if exp.is_infinite() {
        return (exp > 0. && g == "inf") || (exp < 0. && g == "-inf");
    }
    match g.parse::<f64>() {
        Ok(v) => (v - exp as f64).abs() <= 0.00051 + 1e-6 * (exp.abs() as f64),
        Err(_) => false,
    }
}

fn same_value(got: &str, exp: &Val) -> bool {
    match exp {
        Val::N(x) => same_number(got, *x),
        Val::L(l) => {
            if l.is_empty() {
                return got.trim().is_empty();
            }
            let parts: Vec<&str> = got.split(", ").collect();
            parts.len() == l.len() && parts.iter().zip(l.iter()).all(|(g, e)| same_number(g, *e))
        }
    }
}

fn check_expr(expr: &str, ast: &Ast, leg: &str, class: &str) -> CaseResult {
    let exp = er::eval(ast, &var_ast, 0);
    let (got, _) = subject(expr);
    let case = json!({"leg": leg, "expr": expr});
    let mut viol = None;
    match (&exp, &got) {
        (_, Err(e)) if e == "PANIC" => viol = Some(("panic", "the evaluator panicked".to_string())),
        (Ok(v), Ok(s)) => {
            if !same_value(s, v) {
                viol = Some(("wrong-value", format!("{{{{{expr}}}}} evaluated to {s:?}; conventional semantics give {v:?}")));
            }
        }
        (Ok(v), Err(e)) => viol = Some(("valid-expression-rejected", format!("{{{{{expr}}}}} should evaluate to {v:?} but failed: {}", clip(e, 200)))),
        // only the kinds of malformedness the statement names are judged (arity, unknown function,
        // undefined / circular variable); domain questions (index ranges, min > max, ...) are not
        (Err(why), Ok(s)) if !why.starts_with("domain:") => viol = Some(("undefined-expression-accepted", format!("{{{{{expr}}}}} is undefined ({why}) but evaluated to {s:?}"))),
        (Err(_), Ok(_)) => {}
        (Err(_), Err(_)) => {}
    }
    CaseResult {
        case_hash: hash64(&expr),
        nontrivial: exp.is_ok() && viol.is_none(),
        outcome_hash: hash64(&format!("{got:?}")),
        executions: 1,
        violation: viol.map(|(c, d)| Violation { clause: c.into(), signature: format!("C14/{leg}/{c}/{class}"), case: case.clone(), detail: d }),
    }
}

// ------------------------------------------------------------------ trees

const OPS_ALL: &[&str] = &["+", "-", "*", "/", "%", "eq", "ne", "gt", "ge", "lt", "le", "and", "or", "xor"];
const OPS_CLASS: &[&str] = &["+", "-", "*", "/", "%", "lt", "eq", "and", "or"];

fn leaves_all() -> Vec<Ast> {
    let mut v: Vec<Ast> = [0., 1., 3., 10., -4., 2.5, -7.25, 0.125].iter().map(|x| Ast::Num(*x)).collect();
    v.push(Ast::Var("a".into(), false));
    v.push(Ast::Var("b".into(), true));
    v
}

/// all trees with exactly k binary operators over the given alphabets
fn trees(k: usize, ops: &[&'static str], leaves: &[Ast]) -> Vec<Ast> {
    if k == 0 {
        return leaves.to_vec();
    }
    let mut out = Vec::new();
    for kl in 0..k {
        let (ls, rs) = (trees(kl, ops, leaves), trees(k - 1 - kl, ops, leaves));
        for op in ops {
            for l in &ls {
                for r in &rs {
                    out.push(Ast::Bin(op, Box::new(l.clone()), Box::new(r.clone())));
                }
            }
        }
    }
    out
}

fn top_op(a: &Ast) -> String {
    match a {
        Ast::Bin(op, l, r) => format!("{op}({},{})", top_of(l), top_of(r)),
        other => top_of(other),
    }
}
fn top_of(a: &Ast) -> String {
    match a {
        Ast::Bin(op, ..) => op.to_string(),
        Ast::Neg(_) => "neg".into(),
        Ast::Num(_) => "n".into(),
        Ast::Var(..) => "v".into(),
        Ast::Call(n, _) => n.clone(),
        Ast::List(_) => "list".into(),
    }
}

// ------------------------------------------------------------------ contexts (evaluated exactly once)

const R: &str = "{{randint(1, 1000000)}}";

/// (name, document body, number of rendered occurrences of a random function)
fn contexts() -> Vec<(&'static str, String, u64)> {
    let r = R;
    vec![
        ("rect-x", format!("<rect x=\"{r}\" y=\"0\" wh=\"5\"/>"), 1),
        ("rect-xy", format!("<rect xy=\"{r} 0\" wh=\"5\"/>"), 1),
        ("rect-wh", format!("<rect wh=\"{r}\"/>"), 1),
        ("circle-cx", format!("<circle cx=\"{r}\" cy=\"1\" r=\"2\"/>"), 1),
        ("line-xy1", format!("<line xy1=\"{r} 0\" xy2=\"5 5\"/>"), 1),
        ("text-attr", format!("<rect wh=\"5\" text=\"R{r}\"/>"), 1),
        ("content-text", format!("<rect wh=\"5\">R{r}</rect>"), 1),
        ("text-element", format!("<text xy=\"1 2\" text=\"R{r}\"/>"), 1),
        ("text-element-content", format!("<text xy=\"1 2\">R{r}</text>"), 1),
        ("multiline-text", format!("<rect wh=\"5\" text=\"R{r}\\nsecond\"/>"), 1),
        ("comment", format!("<rect wh=\"5\" _=\"R{r}\"/>"), 1),
        ("class", "<rect wh=\"5\" class=\"c{{randint(1,1000000)}}\"/>".to_string(), 1),
        ("class-expression-with-blank", format!("<rect wh=\"5\" class=\"c{r}\"/>"), 1),
        ("passthrough-attr", format!("<rect wh=\"5\" data-v=\"{r}\" style=\"opacity: {{{{random()}}}}\"/>"), 2),
        ("three-on-one", format!("<rect x=\"{r}\" y=\"{r}\" wh=\"5\" text=\"R{r}\"/>"), 3),
        ("var-used-twice", format!("<var v=\"{r}\"/><rect wh=\"5\" text=\"R$v\"/><rect wh=\"5\" text=\"R$v\"/>"), 1),
        ("reuse-attr", format!("<specs><rect id=\"t\" wh=\"5\" text=\"R$v\"/></specs><reuse href=\"#t\" v=\"{r}\"/>"), 1),
        ("loop-count", "<loop count=\"{{randint(2, 2)}}\"><rect wh=\"1\"/></loop>".to_string(), 1),
        ("loop-body", format!("<loop count=\"2\"><rect wh=\"5\" text=\"R{r}\"/></loop>"), 2),
        ("loop-start-step", "<loop count=\"2\" loop-var=\"i\" start=\"{{randint(1, 1)}}\" step=\"{{randint(2, 2)}}\"><rect x=\"$i\" wh=\"1\"/></loop>".to_string(), 2),
        ("while", format!("<var k=\"0\"/><loop while=\"lt($k, 2)\"><var k=\"{{{{$k + 1}}}}\"/><rect wh=\"1\" text=\"R{r}\"/></loop>"), 2),
        ("if-test", "<if test=\"{{gt(randint(1, 1000000), 0)}}\"><rect wh=\"1\"/></if>".to_string(), 1),
        ("for-data", "<for var=\"q\" data=\"randint(1, 9), randint(1, 9)\"><rect wh=\"1\" text=\"$q\"/></for>".to_string(), 2),
        ("defaults-child", format!("<defaults><rect text=\"R{r}\"/></defaults><rect wh=\"5\"/><rect wh=\"5\" xy=\"^|h\"/>"), 2),
        ("connector", format!("<rect id=\"a\" wh=\"5\"/><rect id=\"b\" xy=\"20 0\" wh=\"5\"/><line start=\"#a\" end=\"#b\" text=\"R{r}\"/>"), 1),
        ("dx-dy", "<rect xy=\"1 2\" wh=\"5\" dx=\"{{randint(1, 9)}}\" dy=\"{{randint(1, 9)}}\"/>".to_string(), 2),
        ("surround-margin", format!("<rect id=\"a\" wh=\"5\"/><rect surround=\"#a\" margin=\"{{{{randint(1, 9)}}}}\" text=\"R{r}\"/>"), 2),
        ("polyline-points", format!("<polyline points=\"0 0 {r} 5\"/>"), 1),
        ("path-d", format!("<path d=\"M0 0 L{r} 5\"/>"), 1),
        ("use-x", format!("<defs><rect id=\"a\" wh=\"5\"/></defs><use href=\"#a\" x=\"{r}\"/>"), 1),
        ("relative-pos", format!("<rect id=\"a\" wh=\"5\"/><rect xy=\"#a|h {{{{randint(1, 9)}}}}\" wh=\"5\" text=\"R{r}\"/>"), 2),
        ("group-child", format!("<g><rect wh=\"5\" text=\"R{r}\"/><circle r=\"{{{{randint(1, 9)}}}}\"/></g>"), 2),
        ("nested-svg-child", format!("<svg><rect wh=\"5\" text=\"R{r}\"/></svg>"), 1),
        ("dwh", "<rect wh=\"20\" dwh=\"{{randint(1, 9)}}\"/>".to_string(), 1),
        ("circle-r-text", format!("<circle r=\"{{{{randint(1, 9)}}}}\" text=\"R{r}\" text-loc=\"t\"/>"), 2),
        ("reuse-of-previous-shape", format!("<rect wh=\"5\" text=\"R{r}\"/><reuse href=\"^\" y=\"10\"/>"), 2),
        ("reuse-of-previous-group", format!("<g><rect wh=\"5\" text=\"R{r}\"/></g><reuse href=\"^\" y=\"10\"/>"), 2),
        ("id", "<rect wh=\"5\" id=\"r{{randint(1,1000000)}}\"/>".to_string(), 1),
        ("group-id", "<g id=\"g{{randint(1,1000000)}}\"><rect wh=\"1\"/></g>".to_string(), 1),
        ("group-local-used-twice", format!("<g k=\"{r}\"><rect wh=\"5\" text=\"R$k\"/><rect xy=\"^|h\" wh=\"5\" text=\"R$k\"/></g>"), 1),
        ("specs-template-expression", format!("<specs><rect id=\"a\" wh=\"5\" text=\"R{r}\"/></specs><reuse href=\"#a\"/>"), 1),
        ("specs-template-expression-twice", format!("<specs><rect id=\"a\" wh=\"5\" text=\"R{r}\"/></specs><reuse href=\"#a\"/><reuse href=\"#a\" x=\"9\"/>"), 2),
        ("shape-with-child", format!("<rect wh=\"5\" data-v=\"{r}\"><title>t</title></rect>"), 1),
        ("shape-with-end-tag", format!("<rect wh=\"5\" text=\"R{r}\"></rect>"), 1),
    ]
}

fn check_context(name: &str, body: &str, k: u64, seed: u64, root: bool) -> CaseResult {
    let doc = if root { format!("<svg>{body}</svg>") } else { body.to_string() };
    let cfg = Cfg { seed, ..Cfg::plain() };
    let (out, probe) = run_probe(doc.as_bytes(), &cfg);
    let case = json!({"leg": "contexts", "context": name, "input": doc, "seed": seed.to_string(), "occurrences": k});
    let mut viol = None;
    let mut mk = |clause: &str, detail: String| {
        if viol.is_none() {
            viol = Some(Violation { clause: clause.into(), signature: format!("C14/contexts/{clause}/{name}"), case: case.clone(), detail });
        }
    };
    match &out {
        Outcome::Panic(p) => mk("panic", p.clone()),
        Outcome::Err(e) => mk("rejected", clip(e, 300)),
        Outcome::Ok(o) => {
            let draws = probe.map(|p| p.rng_draws).unwrap_or(0);
            if draws != k {
                mk("not-evaluated-exactly-once", format!("{doc}\n{k} rendered occurrence(s) of a random function, but the generator advanced {draws} time(s)\n{}", clip(&String::from_utf8_lossy(o), 400)));
            }
        }
    }
    CaseResult { case_hash: hash64(&(name, seed, root)), nontrivial: out.is_ok() && viol.is_none(), outcome_hash: hash64(&format!("{out:?}")), executions: 1, violation: viol }
}

// ------------------------------------------------------------------ run

pub fn run(tier: Tier) -> i32 {
    let mut rep = Report::new("C14", tier, "exploration");
    rep.set("rule", json!("(trees) all expression trees with <= 2 binary operators over 14 operators x 10 leaves (8 literals incl. negative/fractional, $a, ${b}), 3 operators over one operator per class x 4 leaves (thorough: 11 operators x 6 leaves, and 4 operators over 6 x 3), each printed with minimal parentheses (no blanks / blanks) and fully parenthesised, plus a leading unary minus on the whole and on the left operand; (functions) every fixed-arity built-in x all argument tuples from the 8-value domain, each also with arity-1 and arity+1 (must fail), variadic functions over lists of length 0-3; (malformed) all token strings of <= 4 (thorough 5) tokens over a 17-token expression alphabet, classified by a reference recogniser of the documented grammar: strings malformed in a way the statement names (unbalanced parentheses, unknown function, dangling operator, undefined/circular variable, wrong arity) must fail, accepted strings must evaluate to the reference value, anything else is unspecified and only executed; (contexts) 34 attribute/element contexts containing random functions x 3 seeds x root/fragment: the PRNG must advance exactly once per rendered occurrence. Values are compared numerically (3-decimal output rounding, same NaN/inf class). Non-trivial = the reference defines a value and svgdx agrees (contexts: Ok with the exact draw count)."));
    rep.set("also_later", json!("Round 5 added a carriers leg: 5 malformed expressions x 10 attribute kinds (id on shape / group / reuse, x, text, style, var, group attribute, if test, loop count) must all fail."));
    rep.set("also", json!("Also: (special values) NaN, +inf, -inf and 0 as arguments of every function in every position: never a panic; (quotes) expressions with a quote which is never closed must fail; (stored values) a value stored in a variable, a reuse or group local or a loop parameter and used again keeps its precision; contexts additionally cover id, group id, group locals read twice, templates inside <specs>, shapes with child elements / explicit end tags."));

    // trees
    let mut cases: Vec<(String, Ast)> = Vec::new();
    let la = leaves_all();
    let small: Vec<Ast> = vec![Ast::Num(3.), Ast::Num(-4.), Ast::Num(2.5), Ast::Var("a".into(), false)];
    let mut asts: Vec<Ast> = Vec::new();
    asts.extend(trees(0, OPS_ALL, &la));
    asts.extend(trees(1, OPS_ALL, &la));
    asts.extend(trees(2, OPS_ALL, &la));
    if tier == Tier::Quick {
        asts.extend(trees(3, OPS_CLASS, &small));
    } else {
        let six: Vec<Ast> = vec![Ast::Num(0.), Ast::Num(3.), Ast::Num(-4.), Ast::Num(2.5), Ast::Num(0.125), Ast::Var("a".into(), false)];
        let ops11: &[&'static str] = &["+", "-", "*", "/", "%", "lt", "ge", "eq", "and", "or", "xor"];
        asts.extend(trees(3, ops11, &six));
        let three: Vec<Ast> = vec![Ast::Num(3.), Ast::Num(-4.), Ast::Num(2.5)];
        let ops6: &[&'static str] = &["+", "-", "*", "/", "%", "lt"];
        asts.extend(trees(4, ops6, &three));
    }
    let n_asts = asts.len();
    let st = run_space(n_asts * 5, |i| {
        let a = &asts[i / 5];
        let (expr, ast) = match i % 5 {
            0 => (er::print(a, false, false), a.clone()),
            1 => (er::print(a, false, true), a.clone()),
            2 => (er::print(a, true, true), a.clone()),
            3 => {
                let n = Ast::Neg(Box::new(a.clone()));
                (er::print(&n, false, true), n)
            }
            _ => match a {
                Ast::Bin(op, l, r) => {
                    let n = Ast::Bin(op, Box::new(Ast::Neg(l.clone())), r.clone());
                    (er::print(&n, false, false), n)
                }
                other => (format!("({})", er::print(other, false, false)), other.clone()),
            },
        };
        check_expr(&expr, &ast, "trees", &top_op(&ast))
    });
    rep.set("trees", json!(n_asts));
    rep.sample(json!({"leg": "trees", "printed": [er::print(&asts[n_asts / 2], false, false), er::print(&asts[n_asts / 2], true, true)]}));
    rep.absorb("trees", st);
    let _ = &mut cases;

    // functions
    let dom = [0f32, 1., 3., 10., -4., 2.5, -7.25, 0.125];
    let mut fcases: Vec<(String, Ast)> = Vec::new();
    for (name, ar) in er::FIXED_ARITY {
        if *name == "random" || *name == "randint" {
            continue;
        }
        for arity in [ar.saturating_sub(1), *ar, ar + 1] {
            if arity == *ar && *ar == 0 {
                continue;
            }
            let total = dom.len().pow(arity as u32).max(1);
            for t in 0..total {
                let mut idx = t;
                let mut args = Vec::new();
                for _ in 0..arity {
                    args.push(Ast::Num(dom[idx % dom.len()]));
                    idx /= dom.len();
                }
                let a = Ast::Call(name.to_string(), args);
                fcases.push((er::print(&a, false, true), a));
            }
        }
    }
    for name in er::VARIADIC {
        for len in 0..=3usize {
            let total = 5usize.pow(len as u32);
            for t in 0..total {
                let mut idx = t;
                let mut args = Vec::new();
                for _ in 0..len {
                    args.push(Ast::Num(dom[idx % 5]));
                    idx /= 5;
                }
                let a = Ast::Call(name.to_string(), args);
                fcases.push((er::print(&a, false, true), a));
            }
        }
    }
    // random functions: arity only (values are the contexts leg's business)
    for e in ["random(1)", "randint(1)", "randint(1, 2, 3)", "randint()"] {
        fcases.push((e.to_string(), Ast::Call("nosuch".into(), vec![])));
    }
    let st = run_space(fcases.len(), |i| {
        let (e, a) = &fcases[i];
        let name = match a {
            Ast::Call(n, args) => format!("{n}/{}", args.len()),
            _ => String::new(),
        };
        check_expr(e, a, "functions", &name)
    });
    rep.sample(json!({"leg": "functions", "expr": fcases[fcases.len() / 3].0}));
    rep.absorb("functions", st);

    // special values (NaN, +-inf, zero) as arguments of every function: whatever the result, never a panic; quotes
    // which are never closed are malformed
    let special = ["1", "0", "sqrt(-1)", "pow(10, 39)", "-pow(10, 39)"];
    let mut spcases: Vec<String> = Vec::new();
    for (name, ar) in er::FIXED_ARITY {
        let ar = *ar;
        if ar == 0 || ar > 3 {
            continue;
        }
        for t in 0..special.len().pow(ar as u32) {
            let mut idx = t;
            let mut args = Vec::new();
            for _ in 0..ar {
                args.push(special[idx % special.len()]);
                idx /= special.len();
            }
            spcases.push(format!("{name}({})", args.join(", ")));
        }
    }
    for name in er::VARIADIC {
        for a in special {
            for b in special {
                spcases.push(format!("{name}({a}, {b})"));
                spcases.push(format!("{name}({a}, 2, {b})"));
            }
        }
    }
    let st = run_space(spcases.len(), |i| {
        let expr = &spcases[i];
        let (got, _) = subject(expr);
        let viol = if got == Err("PANIC".into()) {
            Some(Violation { clause: "panic".into(), signature: format!("C14/special-values/panic/{}", expr.split('(').next().unwrap_or("")), case: json!({"leg": "special", "expr": expr}), detail: format!("{{{{{expr}}}}} panicked") })
        } else {
            None
        };
        CaseResult { case_hash: hash64(expr), nontrivial: got.is_ok(), outcome_hash: hash64(&format!("{got:?}")), executions: 1, violation: viol }
    });
    rep.absorb("special-values", st);
    // magnitudes: whole numbers which single precision represents exactly are printed as they are
    let mags: &[(&str, &str)] = &[
        ("2147483648", "2147483648"), ("pow(2, 31)", "2147483648"), ("65536 * 32768", "2147483648"), ("-4294967296", "-4294967296"), ("2147483648 - 2147483520", "128"),
        ("16777216", "16777216"), ("pow(2, 40)", "1099511627776"), ("1e3", "1000"), ("3000000000 / 2", "1500000000"), ("max(2147483648, 5)", "2147483648"),
        ("select(1, 5, 6)", "6"), ("-2147483648", "-2147483648"), ("0 - 2147483904", "-2147483904"),
    ];
    let st = run_space(mags.len(), |i| {
        let (expr, want) = mags[i];
        let (r, _) = subject(expr);
        let got = match &r {
            Ok(v) => v.clone(),
            Err(e) => format!("Err({e})"),
        };
        let bad = got != want;
        CaseResult {
            case_hash: hash64(&expr),
            nontrivial: !bad,
            outcome_hash: hash64(&got),
            executions: 1,
            violation: bad.then(|| Violation { clause: "magnitude".into(), signature: format!("C14/magnitude/{i}"), case: json!({"leg": "magnitude", "expr": expr}), detail: format!("{{{{{expr}}}}} gives {got}, expected {want}") }),
        }
    });
    rep.absorb("magnitude", st);
    let quoted = ["1 + 2 \"", "7 '", "5''", "2'3'", "'a", "\"a", "'a' + '", "1 + 'x"];
    let st = run_space(quoted.len(), |i| {
        let expr = quoted[i];
        let (got, _) = subject(expr);
        let unbalanced = expr.matches('\'').count() % 2 == 1 || expr.matches('"').count() % 2 == 1;
        let viol = match &got {
            Ok(v) if unbalanced => Some(Violation { clause: "malformed-expression-accepted".into(), signature: "C14/quotes/unbalanced-quote-accepted".into(), case: json!({"leg": "quotes", "expr": expr}), detail: format!("{{{{{expr}}}}} has a quote which is never closed but evaluated to {v:?}") }),
            Err(e) if e == "PANIC" => Some(Violation { clause: "panic".into(), signature: "C14/quotes/panic".into(), case: json!({"leg": "quotes", "expr": expr}), detail: "panic".into() }),
            _ => None,
        };
        CaseResult { case_hash: hash64(&expr), nontrivial: viol.is_none(), outcome_hash: hash64(&format!("{got:?}")), executions: 1, violation: viol }
    });
    rep.absorb("quotes", st);

    // values keep their precision when they are stored (variables, loop parameters, reuse locals) and used again
    let stored: Vec<(&str, &str, f64)> = vec![
        ("var", r#"<var x="{{1/3}}"/><rect id="p" wh="{{$x * 3000}}"/>"#, 1000.),
        ("var-small", r#"<var x="{{1/30000}}"/><rect id="p" wh="{{$x * 30000}}"/>"#, 1.),
        ("reuse-local", r##"<specs><rect id="t" wh="{{$x * 3000}}"/></specs><reuse id="p" href="#t" x="{{1/3}}"/>"##, 1000.),
        ("group-local", r#"<g x="{{1/3}}"><rect id="p" wh="{{$x * 3000}}"/></g>"#, 1000.),
        ("loop-step", r#"<loop count="1" loop-var="i" start="{{1/3}}"><rect id="p" wh="{{$i * 3000}}"/></loop>"#, 1000.),
        ("direct-control", r#"<rect id="p" wh="{{(1/3) * 3000}}"/>"#, 1000.),
    ];
    let st = run_space(stored.len(), |i| {
        let (name, body, want) = stored[i];
        let doc = format!("<svg>{body}</svg>");
        let out = run_str(&doc, &Cfg::plain());
        let got = match &out {
            Outcome::Ok(o) => crate::xmlref::parse_tree(o, crate::xmlref::Mode::Document).ok().and_then(|t| crate::xmlref::root(&t).and_then(|r| r.find_id("p").and_then(|e| e.attr("width").and_then(|w| w.parse::<f64>().ok())))),
            _ => None,
        };
        let ok = got.map(|g| (g - want).abs() <= 0.0011 + 1e-5 * want).unwrap_or(false);
        CaseResult {
            case_hash: hash64(&doc),
            nontrivial: ok,
            outcome_hash: hash64(&format!("{out:?}")),
            executions: 1,
            violation: if ok { None } else { Some(Violation { clause: "stored-value-loses-precision".into(), signature: format!("C14/stored-values/{name}"), case: json!({"leg": "stored", "input": doc}), detail: format!("{doc}\nexpected width {want}, observed {got:?} ({})", clip(&out.brief(), 200)) }) },
        }
    });
    rep.absorb("stored-values", st);

    // malformed / token strings
    let alphabet: &[&str] = &["1", "2.5", "(", ")", "+", "-", "*", "/", "%", ",", "lt", "and", "abs", "max", "nosuch", "$a", "$undef"];
    let maxlen = tier.pick(4, 5);
    let mut total = 0usize;
    let mut offsets = Vec::new();
    for len in 1..=maxlen {
        offsets.push((len, total));
        total += alphabet.len().pow(len as u32);
    }
    let st = run_space(total, |i| {
        let (len, off) = *offsets.iter().rev().find(|(_, o)| *o <= i).unwrap();
        let mut idx = i - off;
        let mut toks: Vec<&str> = Vec::with_capacity(len);
        for _ in 0..len {
            toks.push(alphabet[idx % alphabet.len()]);
            idx /= alphabet.len();
        }
        let expr = toks.join(" ");
        match er::recognise(&toks) {
            Verdict::Accept(ast) => check_expr(&expr, &ast, "tokens", "accepted"),
            Verdict::Malformed(why) => {
                let (got, _) = subject(&expr);
                let viol = match &got {
                    Ok(s) => Some(Violation {
                        clause: "malformed-expression-accepted".into(),
                        signature: format!("C14/tokens/malformed-accepted/{}/{}", why.replace(' ', "-"), expr.replace(' ', "_")),
                        case: json!({"leg": "tokens", "expr": expr}),
                        detail: format!("{{{{{expr}}}}} is malformed ({why}) but evaluated to {s:?}"),
                    }),
                    Err(e) if e == "PANIC" => Some(Violation { clause: "panic".into(), signature: "C14/tokens/panic".into(), case: json!({"leg": "tokens", "expr": expr}), detail: "panic".into() }),
                    Err(_) => None,
                };
                CaseResult { case_hash: hash64(&expr), nontrivial: viol.is_none(), outcome_hash: hash64(&format!("{got:?}")), executions: 1, violation: viol }
            }
            Verdict::Unspecified(_) => {
                let (got, _) = subject(&expr);
                let viol = if got == Err("PANIC".into()) {
                    Some(Violation { clause: "panic".into(), signature: "C14/tokens/panic".into(), case: json!({"leg": "tokens", "expr": expr}), detail: "panic".into() })
                } else {
                    None
                };
                CaseResult { case_hash: hash64(&expr), nontrivial: false, outcome_hash: hash64(&format!("{got:?}")), executions: 1, violation: viol }
            }
        }
    });
    rep.absorb("tokens", st);
    // circular variables must fail
    let circ = ["$cyc", "$cyc + 1", "$cy2 * 2", "max($cy3, 1)"];
    let st = run_space(circ.len(), |i| {
        let (got, _) = subject(circ[i]);
        let viol = got.as_ref().ok().map(|s| Violation { clause: "circular-variable-accepted".into(), signature: format!("C14/circular/{}", circ[i]), case: json!({"leg": "circular", "expr": circ[i]}), detail: format!("evaluated to {s:?}") });
        CaseResult { case_hash: hash64(&circ[i]), nontrivial: got.is_err(), outcome_hash: hash64(&format!("{got:?}")), executions: 1, violation: viol }
    });
    rep.absorb("circular", st);

    // contexts
    let ctxs = contexts();
    let seeds = [0u64, 1, (1u64 << 32) + 1];
    let st = run_space(ctxs.len() * seeds.len() * 2, |i| {
        let c = &ctxs[i / (seeds.len() * 2)];
        check_context(c.0, &c.1, c.2, seeds[(i / 2) % seeds.len()], i % 2 == 0)
    });
    rep.sample(json!({"leg": "contexts", "doc": ctxs[5].1, "occurrences": ctxs[5].2}));
    rep.absorb("contexts", st);
    // the random SEQUENCE carries on across elements which have nothing to do with it: the k-th occurrence gets the
    // k-th value whatever stands between the occurrences
    let between: &[&str] = &["<config border=\"3\"/>", "<config/>", "<config theme=\"dark\" font-size=\"4\"/>", "<config loop-limit=\"50\"/>", "<var q=\"1\"/>", "<defaults><rect fill=\"red\"/></defaults>", "<specs><rect id=\"sq\" wh=\"1\"/></specs>", "<!-- c -->", "<loop count=\"2\"><config border=\"1\"/></loop>"];
    let st = run_space(between.len() * 3, |i| {
        let (x, seed) = (between[i / 3], [0u64, 1, 77][i % 3]);
        let with = format!("<g a=\"{R}\"/>{x}<g b=\"{R}\"/>{x}<g c=\"{R}\"/>");
        let without = format!("<g a=\"{R}\"/><g b=\"{R}\"/><g c=\"{R}\"/>");
        let cfg = Cfg { seed, ..Cfg::plain() };
        let vals = |d: &str| -> Vec<String> {
            match run_str(d, &cfg) {
                Outcome::Ok(o) => crate::xmlref::parse_tree(&o, crate::xmlref::Mode::Content).map(|t| t.iter().filter_map(|n| if let crate::xmlref::Node::El(e) = n { if e.name == "g" { e.attrs.first().map(|a| a.1.clone()) } else { None } } else { None }).collect()).unwrap_or_default(),
                other => vec![other.brief()],
            }
        };
        let (a, b) = (vals(&with), vals(&without));
        let bad = a != b || a.len() != 3;
        CaseResult {
            case_hash: hash64(&(&with, seed)),
            nontrivial: !bad,
            outcome_hash: hash64(&a),
            executions: 2,
            violation: bad.then(|| Violation { clause: "random-sequence-disturbed".into(), signature: format!("C14/sequence/{}", i / 3), case: json!({"input": with, "seed": seed}), detail: format!("{with}\nvalues {a:?}; without the elements in between: {b:?}") }),
        }
    });
    rep.absorb("sequence", st);
    // (fifth review round) a malformed expression fails the transform in whichever attribute it is written
    let bad_exprs = ["1+", "(1", "foo(1)", "sin(1,2)", "$nope"];
    let carriers: Vec<(&str, &str)> = vec![
        ("id", r#"<svg><rect id="r{{@}}" wh="5"/></svg>"#),
        ("id-on-group", r#"<svg><g id="g{{@}}"><rect wh="5"/></g></svg>"#),
        ("id-on-reuse", r##"<svg><specs><rect id="t" wh="5"/></specs><reuse id="i{{@}}" href="#t"/></svg>"##),
        ("x", r#"<svg><rect x="{{@}}" wh="5"/></svg>"#),
        ("text", r#"<svg><rect wh="5" text="{{@}}"/></svg>"#),
        ("style", r#"<svg><rect wh="5" style="stroke-width:{{@}}"/></svg>"#),
        ("var", r#"<svg><var v="{{@}}"/><rect wh="5"/></svg>"#),
        ("group-attribute", r#"<svg><g k="{{@}}"><rect wh="5"/></g></svg>"#),
        ("if-test", r#"<svg><if test="{{@}}"><rect wh="5"/></if></svg>"#),
        ("loop-count", r#"<svg><loop count="{{@}}"><rect wh="5"/></loop></svg>"#),
    ];
    let st = run_space(bad_exprs.len() * carriers.len(), |i| {
        let (expr, (cname, tpl)) = (bad_exprs[i % bad_exprs.len()], carriers[i / bad_exprs.len()]);
        let doc = tpl.replace('@', expr);
        let out = run_str(&doc, &Cfg::plain());
        let bad = matches!(out, Outcome::Ok(_) | Outcome::Panic(_));
        CaseResult {
            case_hash: hash64(&doc),
            nontrivial: !bad,
            outcome_hash: hash64(&format!("{out:?}")),
            executions: 1,
            violation: bad.then(|| Violation { clause: "malformed-expression-accepted".into(), signature: format!("C14/carriers/malformed-accepted/{cname}"), case: json!({"leg": "carriers", "input": doc}), detail: format!("{doc}\n{}", clip(&out.brief(), 300)) }),
        }
    });
    rep.absorb("carriers", st);
    rep.assume("variables hold plain numbers (substitution is textual by documentation); exponent literals, chained comparisons, empty parentheses and lists inside arithmetic are unspecified by the statement and only executed, never judged");
    rep.assume("documents of the contexts leg contain no forward references");
    rep.finish()
}

pub fn replay_case(case: &Value) -> Option<Violation> {
    match case["leg"].as_str()? {
        "contexts" => {
            let name = case["context"].as_str()?;
            let c = contexts().into_iter().find(|c| c.0 == name)?;
            let doc = case["input"].as_str()?;
            check_context(c.0, &c.1, c.2, case["seed"].as_str()?.parse().ok()?, doc.starts_with("<svg>")).violation
        }
        _ => {
            let expr = case["expr"].as_str()?;
            let (got, _) = subject(expr);
            Some(Violation { clause: "replay".into(), signature: "C14/replay".into(), case: case.clone(), detail: format!("{{{{{expr}}}}} -> {got:?}") })
        }
    }
}
