//! C15 — Variable scoping is lexical and unaffected by evaluation order.
//!
//! Explicit-state exploration over *programs*: every forest of scope-relevant
//! items up to a node bound is rendered to a document, executed on the real
//! transform, and every probe value is compared with a small reference
//! interpreter for lexical scoping.  Forward references (which force the
//! enclosing top-level element to be re-evaluated) are items of the grammar, so
//! every placement of a retry relative to scopes, assignments and probes within
//! the bound is explored; the reference ignores them by construction.

use crate::common::*;
use crate::xmlref;
use serde_json::{json, Value};
use std::collections::HashMap;

#[derive(Clone, Debug, PartialEq)]
enum Item {
    Probe,
    Var1,     // <var v="1"/>
    Var2,     // <var v="2" w="9"/>
    Append,   // <var v="${v}x"/>
    Swap,     // <var v="$w" w="$v"/>
    Fwd,      // shape referring to #z (defined at the very end)
    Reuse,    // <reuse href="#tpl" v="7"/>  (tpl contains a probe)
    ReuseFwd, // <reuse href="#tpl" v="7" xy="#z|h"/>: an instantiation which is itself deferred
    G(Vec<Item>),  // <g v="5">..</g>
    GW(Vec<Item>), // <g w="6">..</g>
    GX(Vec<Item>), // <g w="$v">..</g>      : a local bound to the value another variable has where the group opens
    GV(Vec<Item>), // <g v="${v}y">..</g>   : a local defined in terms of the outer variable of the same name
    Loop(Vec<Item>),
    If(Vec<Item>),
}

const ATOMS: &[Item] = &[Item::Probe, Item::Var1, Item::Var2, Item::Append, Item::Swap, Item::Fwd, Item::Reuse, Item::ReuseFwd];

fn nodes(items: &[Item]) -> usize {
    items
        .iter()
        .map(|i| match i {
            Item::G(b) | Item::GW(b) | Item::GX(b) | Item::GV(b) | Item::Loop(b) | Item::If(b) => 1 + nodes(b),
            _ => 1,
        })
        .sum()
}

/// All forests with exactly `n` nodes and nesting depth <= `depth`.
fn forests(n: usize, depth: usize, memo: &mut HashMap<(usize, usize), Vec<Vec<Item>>>) -> Vec<Vec<Item>> {
    if let Some(v) = memo.get(&(n, depth)) {
        return v.clone();
    }
    let mut out = Vec::new();
    if n == 0 {
        out.push(vec![]);
    } else {
        // first tree has k nodes, rest has n-k
        for k in 1..=n {
            let firsts = trees(k, depth, memo);
            let rests = forests(n - k, depth, memo);
            for f in &firsts {
                for r in &rests {
                    let mut v = Vec::with_capacity(1 + r.len());
                    v.push(f.clone());
                    v.extend(r.iter().cloned());
                    out.push(v);
                }
            }
        }
    }
    memo.insert((n, depth), out.clone());
    out
}

fn trees(k: usize, depth: usize, memo: &mut HashMap<(usize, usize), Vec<Vec<Item>>>) -> Vec<Item> {
    let mut out = Vec::new();
    if k == 1 {
        out.extend(ATOMS.iter().cloned());
    }
    if depth > 0 && k >= 1 {
        // compound with k-1 inner nodes (empty bodies allowed only for k == 1: <g/> is uninteresting, skip)
        if k >= 2 {
            for body in forests(k - 1, depth - 1, memo) {
                out.push(Item::G(body.clone()));
                out.push(Item::GW(body.clone()));
                out.push(Item::GX(body.clone()));
                out.push(Item::GV(body.clone()));
                out.push(Item::Loop(body.clone()));
                out.push(Item::If(body));
            }
        }
    }
    out
}

fn render(items: &[Item], s: &mut String) {
    for it in items {
        match it {
            Item::Probe => s.push_str("<text text=\"[$v|$w]\"/>"),
            Item::Var1 => s.push_str("<var v=\"1\"/>"),
            Item::Var2 => s.push_str("<var v=\"2\" w=\"9\"/>"),
            Item::Append => s.push_str("<var v=\"${v}x\"/>"),
            Item::Swap => s.push_str("<var v=\"$w\" w=\"$v\"/>"),
            Item::Fwd => s.push_str("<rect xy=\"#z|h\" wh=\"1\"/>"),
            Item::Reuse => s.push_str("<reuse href=\"#tpl\" v=\"7\"/>"),
            Item::ReuseFwd => s.push_str("<reuse href=\"#tpl\" v=\"7\" xy=\"#z|h\"/>"),
            Item::G(b) => {
                s.push_str("<g v=\"5\">");
                render(b, s);
                s.push_str("</g>");
            }
            Item::GW(b) => {
                s.push_str("<g w=\"6\">");
                render(b, s);
                s.push_str("</g>");
            }
            Item::GX(b) => {
                s.push_str("<g w=\"$v\">");
                render(b, s);
                s.push_str("</g>");
            }
            Item::GV(b) => {
                s.push_str("<g v=\"${v}y\">");
                render(b, s);
                s.push_str("</g>");
            }
            Item::Loop(b) => {
                s.push_str("<loop count=\"2\">");
                render(b, s);
                s.push_str("</loop>");
            }
            Item::If(b) => {
                s.push_str("<if test=\"1\">");
                render(b, s);
                s.push_str("</if>");
            }
        }
    }
}

const TPL: &str = "<specs><text id=\"tpl\" text=\"T:[$v|$w]\"/></specs>";

fn document(items: &[Item], tpl_last: bool, root: bool) -> String {
    let mut s = String::new();
    if root {
        s.push_str("<svg>");
    }
    if !tpl_last {
        s.push_str(TPL);
    }
    render(items, &mut s);
    s.push_str("<text text=\"[$v|$w]\"/>"); // final probe: state after the whole program
    s.push_str("<rect id=\"z\" wh=\"1\"/>");
    if tpl_last {
        s.push_str(TPL);
    }
    if root {
        s.push_str("</svg>");
    }
    s
}

// ---------------------------------------------------------------- reference interpreter

struct Env {
    scopes: Vec<HashMap<String, String>>,
    out: Vec<String>,
    /// an assignment stored an unresolved `$reference` into a variable: what later reads of that
    /// variable yield then depends on how many times an attribute is evaluated (C14's subject),
    /// so such programs are executed but their probe values are not compared here
    tainted: bool,
}

impl Env {
    fn get(&self, name: &str) -> Option<&String> {
        self.scopes.iter().rev().find_map(|s| s.get(name))
    }
    /// single-pass `$name` / `${name}` substitution; undefined references stay verbatim
    fn subst(&self, t: &str) -> String {
        let mut out = String::new();
        let b: Vec<char> = t.chars().collect();
        let mut i = 0;
        while i < b.len() {
            if b[i] == '$' {
                if i + 1 < b.len() && b[i + 1] == '{' {
                    if let Some(end) = b[i + 2..].iter().position(|c| *c == '}') {
                        let name: String = b[i + 2..i + 2 + end].iter().collect();
                        match self.get(&name) {
                            Some(v) => out.push_str(v),
                            None => out.push_str(&format!("${{{name}}}")),
                        }
                        i += end + 3;
                        continue;
                    }
                }
                let mut j = i + 1;
                while j < b.len() && (b[j].is_alphanumeric() || b[j] == '_') {
                    j += 1;
                }
                let name: String = b[i + 1..j].iter().collect();
                match self.get(&name) {
                    Some(v) => out.push_str(v),
                    None => {
                        out.push('$');
                        out.push_str(&name);
                    }
                }
                i = j;
            } else {
                out.push(b[i]);
                i += 1;
            }
        }
        out
    }
    fn assign(&mut self, pairs: &[(&str, &str)]) {
        // parallel assignment: all right-hand sides from the values in force before
        let vals: Vec<(String, String)> = pairs.iter().map(|(k, t)| (k.to_string(), self.subst(t))).collect();
        if vals.iter().any(|(_, v)| v.contains('$')) {
            self.tainted = true;
        }
        let top = self.scopes.last_mut().unwrap();
        for (k, v) in vals {
            top.insert(k, v);
        }
    }
    fn run(&mut self, items: &[Item]) {
        for it in items {
            match it {
                Item::Probe => {
                    let p = self.subst("[$v|$w]");
                    self.out.push(p);
                }
                Item::Var1 => self.assign(&[("v", "1")]),
                Item::Var2 => self.assign(&[("v", "2"), ("w", "9")]),
                Item::Append => self.assign(&[("v", "${v}x")]),
                Item::Swap => self.assign(&[("v", "$w"), ("w", "$v")]),
                Item::Fwd => {}
                Item::Reuse | Item::ReuseFwd => {
                    let mut m = HashMap::new();
                    m.insert("v".to_string(), "7".to_string());
                    self.scopes.push(m);
                    let p = self.subst("T:[$v|$w]");
                    self.out.push(p);
                    self.scopes.pop();
                }
                Item::G(b) | Item::GW(b) | Item::GX(b) | Item::GV(b) => {
                    let mut m = HashMap::new();
                    match it {
                        Item::G(_) => {
                            m.insert("v".to_string(), "5".to_string());
                        }
                        Item::GW(_) => {
                            m.insert("w".to_string(), "6".to_string());
                        }
                        _ => {
                            // evaluated where the group opens, in the enclosing scope
                            let (k, t) = if matches!(it, Item::GX(_)) { ("w", "$v") } else { ("v", "${v}y") };
                            let val = self.subst(t);
                            if val.contains('$') {
                                self.tainted = true;
                            }
                            m.insert(k.to_string(), val);
                        }
                    }
                    self.scopes.push(m);
                    self.run(b);
                    self.scopes.pop();
                }
                Item::Loop(b) => {
                    self.run(b);
                    self.run(b);
                }
                Item::If(b) => self.run(b),
            }
        }
    }
}

fn expected(items: &[Item]) -> Option<Vec<String>> {
    let mut e = Env {
        scopes: vec![HashMap::new()],
        out: vec![],
        tainted: false,
    };
    e.run(items);
    let p = e.subst("[$v|$w]");
    e.out.push(p);
    if e.tainted {
        None
    } else {
        Some(e.out)
    }
}

// ---------------------------------------------------------------- known-finding class

fn contains(items: &[Item], pred: &dyn Fn(&Item) -> bool) -> bool {
    items.iter().any(|i| {
        pred(i)
            || match i {
                Item::G(b) | Item::GW(b) | Item::GX(b) | Item::GV(b) | Item::Loop(b) | Item::If(b) => contains(b, pred),
                _ => false,
            }
    })
}

fn is_var(i: &Item) -> bool {
    matches!(i, Item::Var1 | Item::Var2 | Item::Append | Item::Swap)
}

/// The open finding "an element deferred by a forward reference is evaluated after its later
/// siblings, and its partial first pass is not rolled back" can only influence programs in which a
/// deferred top-level unit contains an assignment, or contains a probe while a later unit assigns.
fn deferred_side_effect_class(items: &[Item], tpl_last: bool) -> bool {
    let defers = |i: &Item| matches!(i, Item::Fwd | Item::ReuseFwd) || (tpl_last && matches!(i, Item::Reuse));
    for (idx, unit) in items.iter().enumerate() {
        let u = std::slice::from_ref(unit);
        if !contains(u, &defers) {
            continue;
        }
        if contains(u, &is_var) {
            return true;
        }
        let has_probe = contains(u, &|i| matches!(i, Item::Probe | Item::Reuse | Item::ReuseFwd));
        if has_probe && contains(&items[idx + 1..], &is_var) {
            return true;
        }
    }
    false
}

// ---------------------------------------------------------------- oracle

fn observed_probes(out: &[u8]) -> Result<Vec<String>, String> {
    let evs = xmlref::parse(out, xmlref::Mode::Content).map_err(|e| e.to_string())?;
    let nodes = xmlref::to_tree(&evs);
    let mut v = Vec::new();
    fn walk(n: &[xmlref::Node], v: &mut Vec<String>) {
        for x in n {
            if let xmlref::Node::El(e) = x {
                if e.name == "text" {
                    v.push(e.text());
                } else {
                    walk(&e.children, v);
                }
            }
        }
    }
    walk(&nodes, &mut v);
    Ok(v)
}

fn check(items: &[Item], tpl_last: bool, root: bool) -> CaseResult {
    let doc = document(items, tpl_last, root);
    let cfg = Cfg::plain();
    let (out, probe) = run_probe(doc.as_bytes(), &cfg);
    let exp = expected(items);
    let in_class = deferred_side_effect_class(items, tpl_last);
    let case = json!({"input": doc, "program": format!("{items:?}"), "tpl_last": tpl_last, "root": root, "expected_probes": exp});
    let mk = |clause: &str, detail: String| {
        let sig = if in_class {
            "C15/deferred-side-effects".to_string()
        } else {
            format!("C15/{clause}/{}", doc)
        };
        Some(Violation {
            clause: clause.to_string(),
            signature: sig,
            case: case.clone(),
            detail,
        })
    };
    let mut viol = None;
    let mut got_probes = Vec::new();
    match &out {
        Outcome::Panic(p) => viol = mk("panic", p.clone()),
        Outcome::Err(e) => {
            viol = mk("valid-program-rejected", format!("every reference in this program is satisfiable, yet: {}", clip(e, 400)))
        }
        Outcome::Ok(b) => match observed_probes(b) {
            Err(e) => viol = mk("unparsable-output", e),
            Ok(got) => {
                if exp.as_ref().map(|e| *e != got).unwrap_or(false) {
                    viol = mk(
                        "probe-values",
                        format!("probe values (document order)\n  expected {exp:?}\n  observed {got:?}"),
                    );
                }
                got_probes = got;
            }
        },
    }
    if viol.is_none() && out.is_ok() {
        if let Some(p) = &probe {
            if p.scope_depth > 1 || p.element_depth != 0 || p.current_depth != 0 || p.in_specs {
                viol = mk(
                    "state-not-restored",
                    format!("after a successful transform: scope stack height {} (<=1 expected), element stack {}, depth counter {}, in_specs {}", p.scope_depth, p.element_depth, p.current_depth, p.in_specs),
                );
            }
        }
    }
    let has_defer = contains(items, &|i| matches!(i, Item::Fwd)) || (tpl_last && contains(items, &|i| matches!(i, Item::Reuse)));
    let has_scope = contains(items, &|i| matches!(i, Item::G(_) | Item::GW(_) | Item::GX(_) | Item::GV(_) | Item::Reuse)) || contains(items, &is_var);
    CaseResult {
        case_hash: hash64(&doc),
        nontrivial: out.is_ok() && exp.is_some() && has_scope && (has_defer || nodes(items) >= 2),
        outcome_hash: hash64(&got_probes),
        executions: 1,
        violation: viol,
    }
}

pub fn run(tier: Tier) -> i32 {
    let mut rep = Report::new("C15", tier, "model_checking");
    let max_nodes = tier.pick(4, 5);
    let depth = tier.pick(2, 3);
    let mut memo = HashMap::new();
    let mut programs: Vec<Vec<Item>> = Vec::new();
    for n in 0..=max_nodes {
        programs.extend(forests(n, depth, &mut memo));
    }
    // variants: template first / last (a forward template defers every <reuse>), root <svg> / fragment
    let variants: &[(bool, bool)] = &[(false, true), (true, true), (false, false), (true, false)];
    let total = programs.len() * variants.len();
    rep.set("rule", json!(format!("All forests with <= {max_nodes} nodes and nesting <= {depth} over the items {{probe, <var v=1>, <var v=2 w=9>, <var v=${{v}}x>, swap <var v=$w w=$v>, forward reference, <reuse> of a probing template, <g v=5>..</g>, <g w=6>..</g>, <loop count=2>..</loop>, <if test=1>..</if>}}, each followed by a final probe and the forward-reference target, x template placement {{first, last}} x {{root <svg>, fragment}}; programs are enumerated smallest-first so every prefix of a program is itself explored. Oracle: reference interpreter for lexical scoping (innermost binding, g/reuse attribute scopes, var-in-content discarded at close, parallel assignment, undefined left verbatim; loop/if transparent) evaluated on the same item tree; state probe after each successful transform. Non-trivial = Ok, contains a scope or assignment, and either a deferral or >= 2 nodes.")));
    rep.set("also_later", json!("Round 5 added pairs: what a waiting <var> assigns is read after its container (if, loop), unless assigned again since; reuse of the previous container."));
    rep.set("also", json!("Also: groups whose local is defined by a variable (<g w=\"$v\">) or in terms of the outer variable of the same name (<g v=\"${v}y\">), a <reuse> which is itself deferred, and four fixed scenarios (catch-all <defaults> next to <var>, group locals from expressions, evaluation where the group opens, nested shadowing). Second review round: values holding an undefined $name (read in another scope, through a reuse attribute, defined later), catch-all defaults next to reuse / reused group / group, and pairs of documents which differ only in whether an earlier element is retried (random draws)."));
    let st = run_space(total, |i| {
        let (tpl_last, root) = variants[i % variants.len()];
        check(&programs[i / variants.len()], tpl_last, root)
    });
    rep.set("states", json!(st.distinct_inputs));
    rep.set("transitions", json!(st.evaluations));
    rep.set("traces_validated_against_impl", json!(st.evaluations));
    rep.set("programs", json!(programs.len()));
    for idx in [programs.len() / 7, programs.len() / 2, programs.len() - 3] {
        let p = &programs[idx];
        rep.sample(json!({"doc": document(p, false, true), "expected_probes": expected(p), "in_deferred_side_effect_class": deferred_side_effect_class(p, false)}));
    }
    rep.absorb("programs", st);
    rep.assume("loop / for / if are modelled as transparent (no scope of their own), as the documentation's loop examples and C16 require; other containers (defs, a, nested svg) are not in the grammar because the statement does not say whether they scope");
    rep.assume("known-finding class `deferred-side-effects` is decided structurally (a deferred top-level unit contains an assignment, or contains a probe while a later unit assigns); violations outside that class are never attributed to it");
    // fixed scenarios outside the grammar (witnesses of defects found by reviewers)
    let scenarios: Vec<(&str, &str, Vec<&str>)> = vec![
        ("defaults-are-not-assignments", r#"<svg><defaults><_ k="1"/></defaults><var v="2"/><text text="[$k|$v]"/></svg>"#, vec!["[$k|2]"]),
        ("group-local-from-expression", r#"<svg><var v="1"/><g k="{{$v + 1}}"><text text="[{{$k * 2}}]"/><var v="5"/><text text="[$k]"/></g></svg>"#, vec!["[4]", "[2]"]),
        ("group-local-evaluated-at-open", r#"<svg><var w="1"/><g v="$w"><var w="2"/><text text="[$v|$w]"/></g><text text="[$w]"/></svg>"#, vec!["[1|2]", "[1]"]),
        // second review round
        ("undefined-verbatim/rescanned-in-reader-scope", r#"<svg><var v="$w"/><g w="1"><text text="[$v]"/></g><g w="2"><text text="[$v]"/></g></svg>"#, vec!["[$w]", "[$w]"]),
        ("undefined-verbatim/through-reuse-attribute", r##"<svg><specs><text id="t" text="[$k]"/></specs><reuse href="#t" k="$v" v="1"/></svg>"##, vec!["[$v]"]),
        ("undefined-verbatim/chain", r#"<svg><var a="$b"/><var b="1"/><text text="[$a]"/></svg>"#, vec!["[$b]"]),
        ("catch-all-defaults/on-reuse", r##"<svg><defaults><_ k="1"/></defaults><specs><text id="t" text="[$k]"/></specs><var k="2"/><reuse href="#t"/><text text="[$k]"/></svg>"##, vec!["[2]", "[2]"]),
        ("catch-all-defaults/on-reused-group", r##"<svg><defaults><_ k="1"/></defaults><specs><g id="gg"><text text="[$k]"/></g></specs><var k="2"/><reuse href="#gg"/></svg>"##, vec!["[2]"]),
        ("catch-all-defaults/on-group", r##"<svg><defaults><_ k="1"/></defaults><var k="2"/><g><text text="[$k]"/></g></svg>"##, vec!["[2]"]),
        // a <reuse> whose first attempt fails at any stage gives its locals back (the template refers forward by size,
        // by position, by a relative attribute; the reuse itself refers forward)
        ("reuse-retried/template-size-reference", r##"<svg><var k="1"/><specs><rect id="t" width="#later~w" height="2"/></specs><reuse href="#t" k="7"/><text text="[$k]"/><rect id="later" wh="3"/></svg>"##, vec!["[1]"]),
        ("reuse-retried/template-size-reference-undefined", r##"<svg><specs><rect id="t" wh="#later" rx="1"/></specs><reuse href="#t" k="7"/><text text="[$k]"/><rect id="later" wh="3"/></svg>"##, vec!["[$k]"]),
        ("reuse-retried/template-position-reference", r##"<svg><var k="1"/><specs><rect id="t" xy="#later|h" wh="2"/></specs><reuse href="#t" k="7"/><text text="[$k]"/><rect id="later" wh="3"/></svg>"##, vec!["[1]"]),
        ("reuse-retried/template-text-reference", r##"<svg><var k="1"/><specs><rect id="t" wh="2" text="{{#later~w}}"/></specs><reuse href="#t" k="7"/><text text="[$k]"/><rect id="later" wh="3"/></svg>"##, vec!["3", "[1]"]),
        ("reuse-retried/reuse-position-reference", r##"<svg><var k="1"/><specs><rect id="t" wh="2"/></specs><reuse href="#t" k="7" xy="#later|v 1"/><text text="[$k]"/><rect id="later" wh="3"/></svg>"##, vec!["[1]"]),
        ("reuse-retried/group-template", r##"<svg><var k="1"/><specs><g id="t"><rect xy="#later|h" wh="2"/></g></specs><reuse href="#t" k="7"/><text text="[$k]"/><rect id="later" wh="3"/></svg>"##, vec!["[1]"]),
        ("nested-group-shadowing", r#"<svg><g v="1"><g v="2"><text text="[$v]"/></g><text text="[$v]"/></g><text text="[$v]"/></svg>"#, vec!["[2]", "[1]", "[$v]"]),
    ];
    let st = run_space(scenarios.len(), |i| {
        let (name, doc, want) = &scenarios[i];
        let out = run_str(doc, &Cfg::plain());
        let got = match &out {
            Outcome::Ok(b) => observed_probes(b).unwrap_or_default(),
            other => vec![other.brief()],
        };
        let ok = got.iter().map(|s| s.as_str()).collect::<Vec<_>>() == *want;
        CaseResult {
            case_hash: hash64(doc),
            nontrivial: ok,
            outcome_hash: hash64(&got),
            executions: 1,
            violation: if ok { None } else { Some(Violation { clause: "probe-values".into(), signature: format!("C15/scenario/{name}"), case: json!({"input": doc, "scenario": name}), detail: format!("{doc}\nexpected probes {want:?}\nobserved {got:?}") }) },
        }
    });
    rep.absorb("scenarios", st);
    // pairs which differ only in whether an unrelated earlier element had to be retried: same probes
    let pairs: Vec<(&str, &str, &str)> = vec![
        ("retry-consumes-random-draws", r##"<svg><g><rect xy="#z|h" wh="{{randint(1,9)}}"/><rect id="z" wh="3"/></g><var r="{{randint(1,1000)}}"/><text text="[$r]"/></svg>"##,
            r##"<svg><g><rect id="z" wh="3"/><rect xy="#z|h" wh="{{randint(1,9)}}"/></g><var r="{{randint(1,1000)}}"/><text text="[$r]"/></svg>"##),
        // third review round
        ("retry-partial-draws/if-test", r##"<svg><if test="{{#z~w}}"><rect wh="{{randint(1,1000)}}"/></if><var r="{{randint(1,1000)}}"/><text text="[$r]"/><rect id="z" wh="3"/></svg>"##,
            r##"<svg><rect id="z" wh="3"/><if test="{{#z~w}}"><rect wh="{{randint(1,1000)}}"/></if><var r="{{randint(1,1000)}}"/><text text="[$r]"/></svg>"##),
        ("retry-stale-registration/second-run-of-group", r##"<svg><g><if test="1"><var v="3"/><rect xy="#z|h" wh="1"/></if><text text="[$v]"/><rect xy="#out|h" wh="1"/><rect id="z" wh="1"/></g><rect id="out" wh="1"/></svg>"##,
            r##"<svg><rect id="out" wh="1"/><g><if test="1"><var v="3"/><rect xy="#z|h" wh="1"/></if><text text="[$v]"/><rect xy="#out|h" wh="1"/><rect id="z" wh="1"/></g></svg>"##),
        // fifth review round: what a waiting <var> assigns is in force for the readers evaluated after it is done
        ("retried-assignment-read-after-container/if", r##"<svg><if test="1"><var a="{{#z~w}}"/><rect id="z" wh="3"/></if><text text="[$a]"/></svg>"##,
            r##"<svg><if test="1"><rect id="z" wh="3"/><var a="{{#z~w}}"/></if><text text="[$a]"/></svg>"##),
        ("retried-assignment-read-after-container/loop", r##"<svg><var a="0"/><loop count="2" loop-var="i"><var a="{{$a + #z$i~w}}"/><rect id="z$i" wh="3"/></loop><text text="[$a]"/></svg>"##,
            r##"<svg><var a="0"/><loop count="2" loop-var="i"><rect id="z$i" wh="3"/><var a="{{$a + #z$i~w}}"/></loop><text text="[$a]"/></svg>"##),
        ("retried-assignment-read-after-container/later-assignment-wins", r##"<svg><var a="{{#z~w}}"/><var a="9"/><rect id="z" wh="3"/><text text="[$a]"/></svg>"##,
            r##"<svg><rect id="z" wh="3"/><var a="{{#z~w}}"/><var a="9"/><text text="[$a]"/></svg>"##),
        ("reuse-of-previous-container-as-written", r##"<svg><var v="1"/><a id="a1" data-w="$v"><text text="[$v]"/></a><reuse href="^" v="5"/><text text="[$v]"/></svg>"##,
            r##"<svg><var v="1"/><a id="a1" data-w="$v"><text text="[$v]"/></a><reuse href="#a1" v="5"/><text text="[$v]"/></svg>"##),
        // sixth review round: ... also when it assigns the value the variable had before
        ("retried-assignment-read-after-container/later-assignment-of-the-old-value", r##"<svg><var v="1"/><if test="1"><if test="1"><var v="3"/><rect xy="#z|h" wh="1"/></if><var v="1"/><rect id="z" wh="1"/></if><text text="[$v]"/></svg>"##,
            r##"<svg><var v="1"/><if test="1"><rect id="z" wh="1"/><if test="1"><var v="3"/><rect xy="#z|h" wh="1"/></if><var v="1"/></if><text text="[$v]"/></svg>"##),
        ("comment-attribute-is-no-variable", r##"<svg><g _="abc" __="def"><text text="[${_}|${__}]"/></g><specs><text id="t" text="[${_}]"/></specs><reuse href="#t" _="ghi"/></svg>"##,
            r##"<svg><g><text text="[${_}|${__}]"/></g><specs><text id="t" text="[${_}]"/></specs><reuse href="#t"/></svg>"##),
        // a value which holds an undefined $name is that text wherever it is read: inside an expression it is not
        // looked up again in the reader's scope (here: it is no number in either document)
        ("value-rescanned-in-expression/group-local", r##"<svg><var v="$w"/><g w="1"><text text="[{{$v}}]"/></g></svg>"##,
            r##"<svg><var v="$w"/><g q="1"><text text="[{{$v}}]"/></g></svg>"##),
        ("retry-consumes-random-draws-toplevel", r##"<svg><rect xy="#z|h" wh="{{randint(1,9)}}"/><rect id="z" wh="3"/><var r="{{randint(1,1000)}}"/><text text="[$r]"/></svg>"##,
            r##"<svg><rect id="z" wh="3"/><rect xy="#z|h" wh="{{randint(1,9)}}"/><var r="{{randint(1,1000)}}"/><text text="[$r]"/></svg>"##),
    ];
    let st = run_space(pairs.len(), |i| {
        let (name, a, b) = pairs[i];
        let probes = |d: &str| match run_str(d, &Cfg::plain()) {
            Outcome::Ok(o) => observed_probes(&o).unwrap_or_default(),
            other => vec![other.brief()],
        };
        let (pa, pb) = (probes(a), probes(b));
        let ok = pa == pb && !pa.is_empty();
        CaseResult {
            case_hash: hash64(&a),
            nontrivial: ok,
            outcome_hash: hash64(&pa),
            executions: 2,
            violation: if ok { None } else { Some(Violation { clause: "probe-depends-on-retry".into(), signature: format!("C15/scenario/{name}"), case: json!({"input": a, "scenario": name}), detail: format!("forward reference: {a}
  probes {pa:?}
same elements in document order: {b}
  probes {pb:?}") }) },
        }
    });
    rep.absorb("retry-pairs", st);
    rep.finish()
}

fn parse_program(s: &str) -> Option<Vec<Item>> {
    // programs are stored in Debug form; a tiny recursive parser for replay
    fn items(t: &mut &str) -> Option<Vec<Item>> {
        let mut v = Vec::new();
        *t = t.trim_start().strip_prefix('[')?;
        loop {
            *t = t.trim_start();
            if let Some(r) = t.strip_prefix(']') {
                *t = r;
                return Some(v);
            }
            if let Some(r) = t.strip_prefix(',') {
                *t = r;
                continue;
            }
            let names = ["Probe", "Var1", "Var2", "Append", "Swap", "Fwd", "Reuse"];
            let mut matched = false;
            for (k, n) in names.iter().enumerate() {
                if let Some(r) = t.strip_prefix(n) {
                    *t = r;
                    v.push(ATOMS[k].clone());
                    matched = true;
                    break;
                }
            }
            if matched {
                continue;
            }
            for n in ["GW", "G", "Loop", "If"] {
                if let Some(r) = t.strip_prefix(n) {
                    *t = r.trim_start().strip_prefix('(')?;
                    let b = items(t)?;
                    *t = t.trim_start().strip_prefix(')')?;
                    v.push(match n {
                        "GW" => Item::GW(b),
                        "G" => Item::G(b),
                        "Loop" => Item::Loop(b),
                        _ => Item::If(b),
                    });
                    matched = true;
                    break;
                }
            }
            if !matched {
                return None;
            }
        }
    }
    let mut t = s;
    items(&mut t)
}

pub fn replay_case(case: &Value) -> Option<Violation> {
    let prog = parse_program(case["program"].as_str()?)?;
    check(
        &prog,
        case["tpl_last"].as_bool().unwrap_or(false),
        case["root"].as_bool().unwrap_or(true),
    )
    .violation
}
