//! C13 — Connectors start and end on the referenced elements.
//!
//! Bounded-exhaustive product of box placements x endpoint specifications x
//! connector kinds, with the statement's invariants as oracle (named location
//! exact, unnamed = minimal-distance candidate, literal verbatim, h/v through the
//! middle of the overlap, corner routes rectilinear and perpendicular to the
//! chosen edges, connector attributes removed).

use crate::common::*;
use crate::geom::{self, BBox};
use crate::xmlref::{self, Mode};
use serde_json::{json, Value};

#[derive(Clone, Copy, Debug, PartialEq)]
enum Kind {
    Straight,
    H,
    V,
    Corner,
    CornerOff(usize),
}
const CORNER_OFFS: &[&str] = &["2", "25%", "6"];

#[derive(Clone, Debug, PartialEq)]
enum Spec {
    Auto,
    Loc(&'static str),
    Literal(f64, f64),
}

const LOCS: &[&str] = &["tl", "t", "tr", "r", "br", "b", "bl", "l", "c", "t:2", "t:-2", "t:25%", "r:2", "r:25%", "b:-2", "b:25%", "l:2", "l:-2"];

/// second box placements relative to A = (40,40)-(60,50): (name, x, y, w, h)
fn placements(deep: bool) -> Vec<(&'static str, BBox)> {
    let mut v = Vec::new();
    let (w, h) = (10., 6.);
    let dists: &[(&str, f64)] = if deep { &[("near", 15.), ("far", 60.), ("adjacent", 0.5), ("mid", 27.25)] } else { &[("near", 15.), ("far", 60.)] };
    for (dn, d) in dists.iter().copied() {
        for (sx, sxn) in [(-1., "W"), (0., ""), (1., "E")] {
            for (sy, syn) in [(-1., "N"), (0., ""), (1., "S")] {
                if sx == 0. && sy == 0. {
                    continue;
                }
                // centre of B offset from centre of A (50,45)
                let cx = 50. + sx * (10. + d);
                let cy = 45. + sy * (5. + d);
                let name: &'static str = Box::leak(format!("{dn}-{syn}{sxn}").into_boxed_str());
                v.push((name, BBox::xywh(cx - w / 2., cy - h / 2., w, h)));
            }
        }
    }
    v.push(("overlap", BBox::xywh(55., 44., 10., 6.)));
    v.push(("touch-right", BBox::xywh(60., 42., 10., 6.)));
    v.push(("touch-below", BBox::xywh(45., 50., 10., 6.)));
    v.push(("identical", BBox::xywh(40., 40., 20., 10.)));
    v.push(("nested", BBox::xywh(45., 41., 10., 6.)));
    v.push(("bigger-east", BBox::xywh(80., 20., 30., 60.)));
    v.push(("offset-east-partial", BBox::xywh(75., 47., 10., 6.)));
    v.push(("offset-south-partial", BBox::xywh(57., 70., 10., 6.)));
    // an edge mid-point of B exactly in line with one of A's (A@r = 60,45; A@b = 50,50)
    v.push(("aligned-right-below", BBox::xywh(55., 70., 10., 6.)));
    v.push(("aligned-bottom-east", BBox::xywh(80., 47., 10., 6.)));
    v
}

/// the first endpoint element: (name, source with id="a", bbox)
const A_ELS: &[(&str, &str)] = &[
    ("rect", r#"<rect id="a" xy="40 40" wh="20 10"/>"#),
    ("ellipse", r#"<ellipse id="a" cxy="50 45" rxy="10 5"/>"#),
    ("line", r#"<line id="a" xy1="60 40" xy2="40 50"/>"#),
    ("group", r#"<g id="a"><rect xy="40 40" wh="5 10"/><rect xy="55 45" wh="5"/></g>"#),
    ("use", r##"<defs><rect id="usetpl" wh="20 10"/></defs><use id="a" href="#usetpl" x="40" y="40"/>"##),
];

fn candidates(b: &BBox, kind: Kind) -> Vec<(f64, f64)> {
    let names: &[&str] = match kind {
        Kind::H => &["l", "r"],
        Kind::V => &["t", "b"],
        Kind::Corner | Kind::CornerOff(_) => &["t", "r", "b", "l"],
        Kind::Straight => &["t", "b", "l", "r", "tl", "bl", "tr", "br"],
    };
    names.iter().map(|n| b.loc(n).unwrap()).collect()
}

fn dist(a: (f64, f64), b: (f64, f64)) -> f64 {
    ((a.0 - b.0).powi(2) + (a.1 - b.1).powi(2)).sqrt()
}

fn spec_src(s: &Spec, id: &str) -> String {
    match s {
        Spec::Auto => format!("#{id}"),
        Spec::Loc(l) => format!("#{id}@{l}"),
        Spec::Literal(x, y) => format!("{} {}", num(*x), num(*y)),
    }
}

/// which edge a spec/point selects: Some('t'|'r'|'b'|'l') or None (corner, centre, literal)
fn edge_of(s: &Spec, p: (f64, f64), b: &BBox) -> Option<char> {
    match s {
        Spec::Loc(l) => match l.split(':').next().unwrap() {
            "t" => Some('t'),
            "r" => Some('r'),
            "b" => Some('b'),
            "l" => Some('l'),
            _ => None,
        },
        Spec::Auto => {
            for (n, c) in [("t", 't'), ("r", 'r'), ("b", 'b'), ("l", 'l')] {
                if dist(b.loc(n).unwrap(), p) < 0.002 {
                    return Some(c);
                }
            }
            None
        }
        Spec::Literal(..) => None,
    }
}

struct Case {
    a_el: usize,
    place: usize,
    start: Spec,
    end: Spec,
    kind: Kind,
}

fn document(c: &Case, places: &[(&'static str, BBox)]) -> String {
    let b = places[c.place].1;
    let (el, extra) = match c.kind {
        Kind::Straight => ("line", String::new()),
        Kind::H => ("line", " edge-type=\"h\"".to_string()),
        Kind::V => ("line", " edge-type=\"v\"".to_string()),
        Kind::Corner => ("polyline", String::new()),
        Kind::CornerOff(i) => ("polyline", format!(" corner-offset=\"{}\"", CORNER_OFFS[i])),
    };
    format!(
        "<svg>{}<rect id=\"b\" xy=\"{} {}\" wh=\"{} {}\"/><{el} id=\"k\" start=\"{}\" end=\"{}\"{extra} class=\"d-arrow\"/></svg>",
        A_ELS[c.a_el].1,
        num(b.x1),
        num(b.y1),
        num(b.w()),
        num(b.h()),
        spec_src(&c.start, "a"),
        spec_src(&c.end, "b")
    )
}

fn check(c: &Case, places: &[(&'static str, BBox)]) -> CaseResult {
    let doc = document(c, places);
    let a = BBox::new(40., 40., 60., 50.);
    let b = places[c.place].1;
    let out = run_str(&doc, &Cfg::plain());
    let case = json!({"input": doc, "a": A_ELS[c.a_el].0, "placement": places[c.place].0, "start": format!("{:?}", c.start), "end": format!("{:?}", c.end), "kind": format!("{:?}", c.kind)});
    let sig = format!("{:?}/{}/{}/{:?}->{:?}", c.kind, A_ELS[c.a_el].0, places[c.place].0, c.start, c.end).replace(' ', "");
    let mut viol = None;
    let mut mk = |clause: &str, detail: String| {
        if viol.is_none() {
            viol = Some(Violation { clause: clause.into(), signature: format!("C13/{clause}/{sig}"), case: case.clone(), detail });
        }
    };
    let tol = 0.002;
    let mut ok = false;
    let mut oh = 0;
    match &out {
        Outcome::Panic(p) => mk("panic", p.clone()),
        Outcome::Err(e) => {
            // a percentage corner-offset is rejected by design when the route turns out U-shaped
            if !(c.kind == Kind::CornerOff(1) && e.contains("absolute offset")) {
                mk("rejected", format!("{doc}\n{}", clip(e, 300)))
            }
        }
        Outcome::Ok(o) => {
            oh = hash64(o);
            let text = String::from_utf8_lossy(o).to_string();
            let tree = xmlref::parse_tree(o, Mode::Document).unwrap_or_default();
            match xmlref::root(&tree).and_then(|r| r.find_id("k")) {
                None => mk("connector-missing", clip(&text, 400)),
                Some(e) => {
                    for at in ["start", "end", "edge-type", "corner-offset"] {
                        if e.has_attr(at) {
                            mk("attribute-left-behind", format!("{at} appears in the output: {:?}", e.attrs));
                        }
                    }
                    let pts: Option<Vec<(f64, f64)>> = match e.name.as_str() {
                        "line" => geom::line_ends(e).map(|(p, q)| vec![p, q]),
                        "polyline" => geom::points(e),
                        _ => None,
                    };
                    match pts {
                        None => mk("no-geometry", format!("{:?}", e.attrs)),
                        Some(pts) if pts.len() < 2 => mk("no-geometry", format!("{pts:?}")),
                        Some(pts) => {
                            ok = true;
                            let (p1, p2) = (pts[0], *pts.last().unwrap());
                            let hv = matches!(c.kind, Kind::H | Kind::V);
                            // endpoints
                            let fixed = |s: &Spec, bx: &BBox| -> Option<(f64, f64)> {
                                match s {
                                    Spec::Loc(l) => bx.loc(l),
                                    Spec::Literal(x, y) => Some((*x, *y)),
                                    Spec::Auto => None,
                                }
                            };
                            let (f1, f2) = (fixed(&c.start, &a), fixed(&c.end, &b));
                            if !hv {
                                if let Some(q) = f1 {
                                    if dist(p1, q) > tol {
                                        mk("start-not-at-specified-point", format!("{doc}\nstart {:?} is {q:?}; the connector starts at {p1:?}", c.start));
                                    }
                                }
                                if let Some(q) = f2 {
                                    if dist(p2, q) > tol {
                                        mk("end-not-at-specified-point", format!("{doc}\nend {:?} is {q:?}; the connector ends at {p2:?}", c.end));
                                    }
                                }
                                let (ca, cb) = (candidates(&a, c.kind), candidates(&b, c.kind));
                                match (f1, f2) {
                                    (None, None) => {
                                        let best = ca.iter().flat_map(|x| cb.iter().map(move |y| dist(*x, *y))).fold(f64::MAX, f64::min);
                                        if !ca.iter().any(|x| dist(*x, p1) <= tol) || !cb.iter().any(|y| dist(*y, p2) <= tol) {
                                            mk("endpoint-not-a-candidate-location", format!("{doc}\n{p1:?} -> {p2:?}; candidates {ca:?} / {cb:?}"));
                                        } else if dist(p1, p2) > best + tol {
                                            mk("not-minimal-distance", format!("{doc}\nchosen {p1:?} -> {p2:?} has length {:.3}; a candidate pair of length {best:.3} exists", dist(p1, p2)));
                                        }
                                    }
                                    (None, Some(q)) => {
                                        let best = ca.iter().map(|x| dist(*x, q)).fold(f64::MAX, f64::min);
                                        if !ca.iter().any(|x| dist(*x, p1) <= tol) {
                                            mk("endpoint-not-a-candidate-location", format!("{doc}\nstart {p1:?}; candidates {ca:?}"));
                                        } else if dist(p1, q) > best + tol {
                                            mk("not-minimal-distance", format!("{doc}\nstart {p1:?} is {:.3} from the end point {q:?}; a candidate at {best:.3} exists", dist(p1, q)));
                                        }
                                    }
                                    (Some(q), None) => {
                                        let best = cb.iter().map(|y| dist(*y, q)).fold(f64::MAX, f64::min);
                                        if !cb.iter().any(|y| dist(*y, p2) <= tol) {
                                            mk("endpoint-not-a-candidate-location", format!("{doc}\nend {p2:?}; candidates {cb:?}"));
                                        } else if dist(p2, q) > best + tol {
                                            mk("not-minimal-distance", format!("{doc}\nend {p2:?} is {:.3} from the start point {q:?}; a candidate at {best:.3} exists", dist(p2, q)));
                                        }
                                    }
                                    _ => {}
                                }
                            } else {
                                // horizontal / vertical edge types (both ends unnamed elements)
                                let horizontal = c.kind == Kind::H;
                                let (u1, u2, v1, v2) = if horizontal { (p1.1, p2.1, p1.0, p2.0) } else { (p1.0, p2.0, p1.1, p2.1) };
                                if (u1 - u2).abs() > tol {
                                    mk("not-axis-parallel", format!("{doc}\n{p1:?} -> {p2:?}"));
                                }
                                let (alo, ahi, blo, bhi) = if horizontal { (a.y1, a.y2, b.y1, b.y2) } else { (a.x1, a.x2, b.x1, b.x2) };
                                let (lo, hi) = (alo.max(blo), ahi.min(bhi));
                                if lo <= hi && ((u1 - (lo + hi) / 2.).abs() > tol) {
                                    mk("not-through-middle-of-overlap", format!("{doc}\noverlap [{lo}, {hi}] has middle {}, the line runs at {u1}", (lo + hi) / 2.));
                                }
                                // ends on the facing (left/right resp. top/bottom) edges, minimal gap
                                let (ea, eb) = if horizontal { ([a.x1, a.x2], [b.x1, b.x2]) } else { ([a.y1, a.y2], [b.y1, b.y2]) };
                                let best = ea.iter().flat_map(|x| eb.iter().map(move |y| (x - y).abs())).fold(f64::MAX, f64::min);
                                if !ea.iter().any(|x| (x - v1).abs() <= tol) || !eb.iter().any(|y| (y - v2).abs() <= tol) {
                                    mk("endpoint-not-on-edge", format!("{doc}\n{p1:?} -> {p2:?}"));
                                } else if (v1 - v2).abs() > best + tol {
                                    mk("not-minimal-distance", format!("{doc}\n{p1:?} -> {p2:?}: a pair of edges {best} apart exists"));
                                }
                            }
                            // corner routing
                            if matches!(c.kind, Kind::Corner | Kind::CornerOff(_)) {
                                let (e1, e2) = (edge_of(&c.start, p1, &a), edge_of(&c.end, p2, &b));
                                if e1.is_none() || e2.is_none() {
                                    // an endpoint without an edge (a literal point, a corner, the centre): there is no
                                    // edge to leave perpendicular to, but the segments are axis-parallel all the same
                                    if pts.windows(2).any(|w| (w[0].0 - w[1].0).abs() > tol && (w[0].1 - w[1].1).abs() > tol) {
                                        mk("corner-polyline-with-directionless-endpoint-is-diagonal", format!("{doc}\npoints {pts:?}"));
                                    }
                                }
                                if let (Some(e1), Some(e2)) = (e1, e2) {
                                    for w in pts.windows(2) {
                                        let (dx, dy) = ((w[0].0 - w[1].0).abs(), (w[0].1 - w[1].1).abs());
                                        if dx > tol && dy > tol {
                                            mk("corner-segment-not-axis-parallel", format!("{doc}\npoints {pts:?}"));
                                        }
                                    }
                                    let seg_dir = |p: (f64, f64), q: (f64, f64)| -> Option<char> {
                                        let (dx, dy) = ((p.0 - q.0).abs(), (p.1 - q.1).abs());
                                        if dx <= tol && dy <= tol {
                                            None
                                        } else if dx <= tol {
                                            Some('v')
                                        } else {
                                            Some('h')
                                        }
                                    };
                                    let want = |e: char| if e == 't' || e == 'b' { 'v' } else { 'h' };
                                    // Open finding (KNOWN_FINDINGS.txt): a route one of whose corners coincides with an endpoint
                                    // (the two locations are in line, or the boxes touch / overlap) has a repeated point - a
                                    // zero-length stub - and then runs along the edge. Only routes with a repeated point belong to it.
                                    let degenerate_l = pts.windows(2).any(|w| seg_dir(w[0], w[1]).is_none());
                                    // the first / last segment as drawn; a zero-length leg (the two boxes happen to
                                    // line up) has no direction and is accepted
                                    // (what is DRAWN: a zero-length leg - repeated points - has no direction, the
                                    // next one is what leaves the edge)
                                    let first = pts.windows(2).find_map(|w| seg_dir(w[0], w[1]));
                                    let last = pts.windows(2).rev().find_map(|w| seg_dir(w[0], w[1]));
                                    if pts.len() > 2 || first.is_some() {
                                        if let Some(f) = first {
                                            if f != want(e1) && pts.len() > 2 {
                                                mk(if degenerate_l { "corner-route-with-zero-length-stub" } else { "corner-leaves-along-the-edge" }, format!("{doc}\nstart is on edge '{e1}' but the first segment is {}: {pts:?}", if f == 'v' { "vertical" } else { "horizontal" }));
                                            }
                                        }
                                        if let Some(l) = last {
                                            if l != want(e2) && pts.len() > 2 {
                                                mk(if degenerate_l { "corner-route-with-zero-length-stub" } else { "corner-enters-along-the-edge" }, format!("{doc}\nend is on edge '{e2}' but the last segment is {}: {pts:?}", if l == 'v' { "vertical" } else { "horizontal" }));
                                            }
                                        }
                                    }
                                }
                            }
                        }
                    }
                }
            }
        }
    }
    CaseResult { case_hash: hash64(&doc), nontrivial: ok && viol.is_none(), outcome_hash: oh, executions: 1, violation: viol }
}

pub fn run(tier: Tier) -> i32 {
    let mut rep = Report::new("C13", tier, "exploration");
    // the quick tier explores what used to be the thorough space (it takes seconds); `deep` adds the wider bounds
    #[allow(unused_variables)]
    let deep = tier == Tier::Thorough;
    let tier = Tier::Thorough;
    let places = placements(deep);
    let mut specs: Vec<Spec> = vec![Spec::Auto, Spec::Literal(3., 4.), Spec::Literal(52.5, 44.)];
    for l in LOCS {
        specs.push(Spec::Loc(l));
    }
    let kinds = [Kind::Straight, Kind::H, Kind::V, Kind::Corner, Kind::CornerOff(0), Kind::CornerOff(1), Kind::CornerOff(2)];
    let mut cases = Vec::new();
    for a_el in 0..A_ELS.len() {
        for place in 0..places.len() {
            for (si, s) in specs.iter().enumerate() {
                for (ei, e) in specs.iter().enumerate() {
                    for k in kinds {
                        let hv = matches!(k, Kind::H | Kind::V);
                        if hv && !(*s == Spec::Auto && *e == Spec::Auto) {
                            continue; // the statement defines h/v for element-to-element connectors
                        }
                        if matches!(s, Spec::Literal(..)) && matches!(e, Spec::Literal(..)) && si != ei {
                            continue;
                        }
                        if !deep && a_el > 0 && !(matches!(s, Spec::Auto) || si % 5 == 0) {
                            continue; // non-rect endpoints: automatic and a sample of named locations
                        }
                        if tier == Tier::Quick && si > 2 && ei > 2 && (si + ei + place) % 4 != 0 {
                            continue;
                        }
                        if matches!(k, Kind::CornerOff(1)) {
                            // a percentage corner-offset is rejected by design for U-shaped routes; only Z/L shapes
                            // are in the space: both ends automatic (facing edges) or literal
                            if !(*s == Spec::Auto && *e == Spec::Auto) {
                                continue;
                            }
                        }
                        cases.push(Case { a_el, place, start: s.clone(), end: e.clone(), kind: k });
                    }
                }
            }
        }
    }
    rep.set("rule", json!("First endpoint A (rect, ellipse, reversed line, group; box 40,40-60,50) and a second rect B in 26 placements (8 sectors x near/far, overlapping, touching right/below, identical, nested, bigger, partially offset east/south) x endpoint specifications {#el, #el@loc for 9 locations and 9 edge offsets (abs, negative, percent), two literal points} for start and end x kind {line, line edge-type h, line edge-type v, polyline, polyline corner-offset 2 / 25% / 6}. Invariants: named location => endpoint exactly that point of the box; unnamed => endpoint is a candidate location (edge mid-points, plus corners for straight lines) and no candidate pair is strictly closer; literal verbatim; h/v => axis-parallel, on facing edges at minimal gap, through the middle of the overlap when the boxes overlap on the other axis; corner routes between two edges => every segment axis-parallel, first/last non-degenerate segment perpendicular to its edge; start/end/edge-type/corner-offset absent. Non-trivial = Ok with observable geometry and all invariants satisfied. Also: 2 placements with an edge mid-point of B exactly in line with one of A's (degenerate L routes), the first / last DRAWN segment (zero-length stubs skipped) judged for perpendicularity; explicit geometry (x1, y2, points, xy1, xy2, x, cxy) written on 4 connector kinds must not change the connector."));
    rep.set("also_later", json!("Rounds 3-5 added: dx / dy / dxy in the explicit-geometry leg; pinned cases for a literal end point under h / v, edge-type=\"corner\" written out, a reference inside a translated group (open)."));
    rep.set("also", json!("Also: a <use> as the first endpoint element; for polylines one of whose ends has no edge (literal point, corner, centre) the segments must still be axis-parallel."));
    let st = run_space(cases.len(), |i| check(&cases[i], &places));
    rep.sample(json!({"doc": document(&cases[cases.len() / 2], &places)}));
    rep.sample(json!({"doc": document(&cases[cases.len() / 9], &places)}));
    rep.absorb("connectors", st);
    // unknown references must fail
    let bad = [
        r##"<svg><rect id="a" wh="5"/><line start="#a" end="#nope"/></svg>"##,
        r##"<svg><rect id="a" wh="5"/><polyline start="#nope@t" end="#a"/></svg>"##,
        r##"<svg><rect id="a" wh="5"/><line start="#nope" end="3 4" edge-type="h"/></svg>"##,
    ];
    let st = run_space(bad.len(), |i| {
        let out = run_str(bad[i], &Cfg::plain());
        let viol = if out.is_ok() {
            Some(Violation { clause: "unknown-reference-accepted".into(), signature: format!("C13/unknown-reference-accepted/{i}"), case: json!({"input": bad[i]}), detail: out.brief() })
        } else {
            None
        };
        CaseResult { case_hash: hash64(&bad[i]), nontrivial: out.is_err(), outcome_hash: hash64(&format!("{out:?}")), executions: 1, violation: viol }
    });
    rep.absorb("unknown-refs", st);
    // geometry written on the connector as well does not override what its ends determine
    let mut extra: Vec<(String, String, String)> = Vec::new();
    for (kn, kind) in [("line", "<line id=\"k\" start=\"#a\" end=\"#b\"%%/>"), ("line-h", "<line id=\"k\" start=\"#a\" end=\"#b\" edge-type=\"h\"%%/>"), ("polyline", "<polyline id=\"k\" start=\"#a@r\" end=\"#b@l\"%%/>"), ("line-literal", "<line id=\"k\" start=\"3 4\" end=\"#b\"%%/>")] {
        for (an, attr) in [("x1", " x1=\"99\""), ("y2", " y2=\"-5\""), ("points", " points=\"1 1 2 2\""), ("xy1", " xy1=\"77 88\""), ("xy2", " xy2=\"7 8\""), ("x", " x=\"3\""), ("cxy", " cxy=\"1 2\""), ("dx", " dx=\"5\""), ("dy", " dy=\"{{1+1}}\""), ("dxy", " dxy=\"3 4\"")] {
            let wrap = |k: &str| format!("<svg><rect id=\"a\" wh=\"10\"/><rect id=\"b\" xy=\"30 4\" wh=\"10\"/>{k}</svg>");
            extra.push((format!("{kn}/{an}"), wrap(&kind.replace("%%", attr)), wrap(&kind.replace("%%", ""))));
        }
    }
    let st = run_space(extra.len(), |i| {
        let (name, with, without) = &extra[i];
        let (ow, oo) = (run_str(with, &Cfg::plain()), run_str(without, &Cfg::plain()));
        let el = |o: &Outcome| match o {
            Outcome::Ok(b) => xmlref::parse_tree(b, Mode::Document).ok().and_then(|t| xmlref::root(&t).and_then(|r| r.find_id("k").map(|e| (e.name.clone(), { let mut a = e.attrs.clone(); a.sort(); a })))),
            _ => None,
        };
        let (a, b) = (el(&ow), el(&oo));
        let bad = a.is_none() || a != b;
        CaseResult {
            case_hash: hash64(with),
            nontrivial: !bad,
            outcome_hash: hash64(&format!("{ow:?}")),
            executions: 2,
            violation: bad.then(|| Violation { clause: "explicit-geometry-overrides-the-ends".into(), signature: format!("C13/explicit-geometry-overrides-the-ends/{name}"), case: json!({"input": with}), detail: format!("{with}\nconnector with the extra attribute: {a:?}\nwithout it: {b:?}") }),
        }
    });
    rep.absorb("explicit-geometry", st);
    // (fourth review round) a literal point is used verbatim at either end of an h / v connector; edge-type="corner"
    // written out is what a polyline has without it
    let pinned: Vec<(&str, &str, &str)> = vec![
        ("literal-end/h", r##"<svg><rect id="a" wh="10"/><line id="k" start="#a" end="30 2" edge-type="h"/></svg>"##, "x1=10 x2=30 y1=2 y2=2"),
        ("literal-end/v", r##"<svg><rect id="a" wh="10"/><line id="k" start="#a" end="2 30" edge-type="v"/></svg>"##, "x1=2 x2=2 y1=10 y2=30"),
        ("literal-start/h", r##"<svg><rect id="a" wh="10"/><line id="k" start="30 2" end="#a" edge-type="h"/></svg>"##, "x1=30 x2=10 y1=2 y2=2"),
        ("literal-start/v", r##"<svg><rect id="a" wh="10"/><line id="k" start="2 30" end="#a" edge-type="v"/></svg>"##, "x1=2 x2=2 y1=30 y2=10"),
        ("other-user-space/reference-in-translated-group", r##"<svg><g transform="translate(100 100)"><rect id="a" wh="10"/></g><rect id="b" xy="30 0" wh="10"/><line id="k" start="#a" end="#b"/></svg>"##, "x1=100 x2=40 y1=100 y2=10"),
        ("reuse-of-connector-placed", r##"<svg><rect id="a" wh="10"/><rect id="b" xy="30 2" wh="10"/><specs><polyline id="c" start="#a" end="#b" corner-offset="$o"/></specs><reuse id="k" href="#c" o="2" x="5"/></svg>"##, "class=c points=10 5, 12 5, 12 7, 30 7"),
        ("edge-type-corner-written-out", r##"<svg><rect id="a" wh="10"/><rect id="b" xy="30 20" wh="10"/><polyline id="k" start="#a" end="#b" edge-type="corner"/></svg>"##, "points=10 5, 20 5, 20 25, 30 25"),
    ];
    let st = run_space(pinned.len(), |i| {
        let (name, doc, want) = pinned[i];
        let out = run_str(doc, &Cfg::plain());
        let got = match &out {
            Outcome::Ok(b) => xmlref::parse_tree(b, Mode::Document).ok().and_then(|t| xmlref::root(&t).and_then(|r| r.find_id("k").map(|e| {
                let mut a: Vec<String> = e.attrs.iter().filter(|(k, _)| k != "id").map(|(k, v)| format!("{k}={v}")).collect();
                a.sort();
                a.join(" ")
            }))),
            _ => None,
        };
        let bad = got.as_deref() != Some(want);
        CaseResult {
            case_hash: hash64(&doc),
            nontrivial: !bad,
            outcome_hash: hash64(&format!("{out:?}")),
            executions: 1,
            violation: bad.then(|| Violation { clause: "pinned".into(), signature: format!("C13/pinned/{name}"), case: json!({"input": doc}), detail: format!("{doc}\nexpected {want}\nobserved {got:?}\n{}", clip(&out.brief(), 300)) }),
        }
    });
    rep.absorb("pinned", st);
    rep.assume("ties between equidistant candidate locations are free; corner assertions apply when both ends lie on edges (named edge or automatic); h/v assertions apply to element-to-element connectors");
    rep.finish()
}

pub fn replay_case(case: &Value) -> Option<Violation> {
    let doc = case["input"].as_str()?;
    let out = run_str(doc, &Cfg::plain());
    Some(Violation { clause: "replay".into(), signature: "C13/replay".into(), case: case.clone(), detail: out.brief() })
}
