//! C08 — Root extent: viewBox, width and height enclose exactly the drawn content.
//!
//! Bounded-exhaustive documents composed of items with known boxes x border x
//! scale x supplied root attributes; reference model recomputes the extent
//! (union, transforms, clip paths, uses, boxes, "adds nothing" items), grows it
//! by the border, rounds outward and derives the root attributes.

use crate::common::*;
use crate::geom::BBox;
use crate::xmlref::{self, Mode};
use serde_json::{json, Value};

struct Item {
    name: &'static str,
    src: &'static str,
    /// contribution to the extent (x1,y1,x2,y2)
    bbox: Option<(f64, f64, f64, f64)>,
    /// definitions this item needs (placed in <defs> once)
    defs: &'static str,
}

const ITEMS: &[Item] = &[
    Item { name: "rect", src: r#"<rect xy="0 0" wh="10 10"/>"#, bbox: Some((0., 0., 10., 10.)), defs: "" },
    Item { name: "rect-neg-frac", src: r#"<rect x="-7.25" y="3" width="20" height="4"/>"#, bbox: Some((-7.25, 3., 12.75, 7.)), defs: "" },
    Item { name: "circle", src: r#"<circle cxy="2.5 -4" r="3.3"/>"#, bbox: Some((-0.8, -7.3, 5.8, -0.7)), defs: "" },
    Item { name: "ellipse", src: r#"<ellipse cx="100" cy="50" rx="1.5" ry="0.25"/>"#, bbox: Some((98.5, 49.75, 101.5, 50.25)), defs: "" },
    Item { name: "line", src: r#"<line xy1="40 20" xy2="10 30"/>"#, bbox: Some((10., 20., 40., 30.)), defs: "" },
    Item { name: "polyline", src: r#"<polyline points="0 0, 12 8 24,-4"/>"#, bbox: Some((0., -4., 24., 8.)), defs: "" },
    Item { name: "polygon", src: r#"<polygon points="-3 -3 3 -3 0 6.5"/>"#, bbox: Some((-3., -3., 3., 6.5)), defs: "" },
    Item { name: "path-abs", src: r#"<path d="M 5 5 L 20 5 20 15 Z"/>"#, bbox: Some((5., 5., 20., 15.)), defs: "" },
    Item { name: "path-rel", src: r#"<path d="M10 10 h -15 v 7.5 l 2 2 z"/>"#, bbox: Some((-5., 10., 10., 19.5)), defs: "" },
    Item { name: "image", src: r#"<image x="1" y="2" width="30" height="20" href="a.png"/>"#, bbox: Some((1., 2., 31., 22.)), defs: "" },
    Item { name: "foreignObject", src: r#"<foreignObject x="-2" y="-2" width="4" height="4"><p>x</p></foreignObject>"#, bbox: Some((-2., -2., 2., 2.)), defs: "" },
    Item { name: "nested-svg", src: r#"<svg x="50" y="-10" width="6" height="5"><rect xy="1000 1000" wh="1"/></svg>"#, bbox: Some((50., -10., 56., -5.)), defs: "" },
    Item { name: "use-rect", src: r##"<use href="#du" x="30" y="40"/>"##, bbox: Some((30., 40., 34., 43.)), defs: r#"<rect id="du" wh="4 3"/>"# },
    Item { name: "use-symbol", src: r##"<use href="#ds" x="7" y="70"/>"##, bbox: Some((7., 70., 13., 72.)), defs: r#"<symbol id="ds"><rect wh="6 2"/></symbol>"# },
    Item { name: "text-standalone", src: r#"<text xy="-30 25" text="standalone"/>"#, bbox: Some((-30., 25., -30., 25.)), defs: "" },
    Item { name: "rect-text-outside", src: r#"<rect xy="60 60" wh="5 5" text="a long caption" text-loc="t" class="d-text-outside"/>"#, bbox: Some((60., 60., 65., 65.)), defs: "" },
    Item { name: "box", src: r#"<box xy="-40 -40" wh="3 3"/>"#, bbox: Some((-40., -40., -37., -37.)), defs: "" },
    Item { name: "point", src: r#"<point xy="500 500" text="p"/>"#, bbox: None, defs: "" },
    Item { name: "g-plain", src: r#"<g><rect xy="1 1" wh="2 2"/><circle cxy="8 8" r="1"/></g>"#, bbox: Some((1., 1., 9., 9.)), defs: "" },
    Item { name: "g-translate", src: r#"<g transform="translate(5 -3)"><rect xy="1 1" wh="2 2"/></g>"#, bbox: Some((6., -2., 8., 0.)), defs: "" },
    Item { name: "g-scale", src: r#"<g transform="scale(2)"><rect xy="1 1" wh="2 2"/><line xy1="0 4" xy2="3 4"/></g>"#, bbox: Some((0., 2., 6., 8.)), defs: "" },
    Item { name: "g-scale-nonuniform", src: r#"<g transform="scale(3, 0.5)"><rect xy="10 10" wh="20 10"/></g>"#, bbox: Some((30., 5., 90., 10.)), defs: "" },
    Item { name: "g-mirror", src: r#"<g transform="scale(-1 1)"><rect xy="2 1" wh="5 3"/></g>"#, bbox: Some((-7., 1., -2., 4.)), defs: "" },
    Item { name: "g-translate-scale", src: r#"<g transform="translate(5) scale(2)"><rect xy="1 1" wh="2 2"/></g>"#, bbox: Some((7., 2., 11., 6.)), defs: "" },
    Item { name: "shape-transform", src: r#"<rect xy="0 5" wh="10 5" transform="scale(1, 4)"/>"#, bbox: Some((0., 20., 10., 40.)), defs: "" },
    Item { name: "clipped", src: r##"<rect xy="0 0" wh="50 50" clip-path="url(#dcp)"/>"##, bbox: Some((10., 10., 20., 15.)), defs: r#"<clipPath id="dcp"><rect xy="10 10" wh="10 5"/></clipPath>"# },
    Item { name: "in-defs", src: r#"<defs><rect xy="900 900" wh="10"/></defs>"#, bbox: None, defs: "" },
    Item { name: "in-specs", src: r#"<specs><rect id="sp" xy="800 800" wh="10"/></specs>"#, bbox: None, defs: "" },
    Item { name: "in-symbol", src: r#"<symbol id="sy"><rect xy="700 700" wh="10"/></symbol>"#, bbox: None, defs: "" },
    Item { name: "in-marker", src: r#"<defs><marker id="mk"><path d="M 600 600 610 610"/></marker><pattern id="pt" width="4" height="4"><rect xy="650 650" wh="9"/></pattern></defs>"#, bbox: None, defs: "" },
    Item { name: "forward-ref", src: r##"<rect xy="#z|h 2" wh="4"/><rect id="z" xy="20 -20" wh="6 4"/>"##, bbox: Some((20., -20., 32., -16.)), defs: "" },
    Item { name: "loop", src: r#"<loop count="3" loop-var="i"><rect xy="{{$i * 10}} {{$i * -2.5}}" wh="4"/></loop>"#, bbox: Some((0., -5., 24., 4.)), defs: "" },
    Item { name: "reuse", src: r##"<reuse href="#sq" x="-60" y="12" s="5"/>"##, bbox: Some((-60., 12., -55., 17.)), defs: r#"SPECS<rect id="sq" wh="$s"/>"# },
    // transforms on <use>, on <a>; transform combined with clip-path (the clip path lives inside the transform)
    Item { name: "use-translate", src: r##"<use href="#du" transform="translate(100)"/>"##, bbox: Some((100., 0., 104., 3.)), defs: r#"<rect id="du" wh="4 3"/>"# },
    Item { name: "use-xy-scale", src: r##"<use href="#du" x="10" transform="scale(2)"/>"##, bbox: Some((20., 0., 28., 6.)), defs: r#"<rect id="du" wh="4 3"/>"# },
    Item { name: "a-translate", src: r##"<a href="x" transform="translate(100 200)"><rect wh="10"/></a>"##, bbox: Some((100., 200., 110., 210.)), defs: "" },
    Item { name: "g-translate-clipped", src: r##"<g transform="translate(100)" clip-path="url(#dc10)"><rect wh="20"/></g>"##, bbox: Some((100., 0., 110., 10.)), defs: r#"<clipPath id="dc10"><rect wh="10"/></clipPath>"# },
    Item { name: "shape-translate-clipped", src: r##"<rect wh="20" transform="translate(-100 5)" clip-path="url(#dc10)"/>"##, bbox: Some((-100., 5., -90., 15.)), defs: r#"<clipPath id="dc10"><rect wh="10"/></clipPath>"# },
    Item { name: "use-of-clipped-group", src: r##"<g id="cg" transform="translate(50)" clip-path="url(#dc100)"><rect wh="10"/></g><use href="#cg" y="30"/>"##, bbox: Some((50., 0., 60., 40.)), defs: r#"<clipPath id="dc100"><rect wh="100"/></clipPath>"# },
    Item { name: "clip-url-quoted", src: r##"<rect xy="0 0" wh="50 50" clip-path="url('#dcp')"/>"##, bbox: Some((10., 10., 20., 15.)), defs: r#"<clipPath id="dcp"><rect xy="10 10" wh="10 5"/></clipPath>"# },
    Item { name: "clip-url-spaced", src: r##"<rect xy="0 0" wh="50 50" clip-path="url( #dcp )"/>"##, bbox: Some((10., 10., 20., 15.)), defs: r#"<clipPath id="dcp"><rect xy="10 10" wh="10 5"/></clipPath>"# },
    Item { name: "reuse-with-clip-attr", src: r##"<defs><clipPath id="dc10r"><rect wh="10"/></clipPath></defs><reuse href="#sq" s="100" clip-path="url(#dc10r)"/>"##, bbox: Some((0., 0., 100., 100.)), defs: r#"SPECS<rect id="sq" wh="$s"/>"# },
    // flat elements (no width or no height) under a clip path which contains them
    Item { name: "clipped-horizontal-line", src: r##"<line xy1="0 5" xy2="80 5" clip-path="url(#dcbig)"/>"##, bbox: Some((0., 5., 80., 5.)), defs: r#"<clipPath id="dcbig"><rect xy="-100 -100" wh="500"/></clipPath>"# },
    Item { name: "clipped-vertical-line-in-group", src: r##"<g transform="translate(20 0)" clip-path="url(#dcbig)"><line xy1="5 0" xy2="5 40"/></g>"##, bbox: Some((25., 0., 25., 40.)), defs: r#"<clipPath id="dcbig"><rect xy="-100 -100" wh="500"/></clipPath>"# },
    Item { name: "clipped-text", src: r##"<text xy="60 70" clip-path="url(#dcbig)">SA:clipped</text>"##, bbox: None, defs: r#"<clipPath id="dcbig"><rect xy="-100 -100" wh="500"/></clipPath>"# },
    // never-rendered containers written outside <defs>
    Item { name: "toplevel-clippath", src: r#"<clipPath id="tcp"><rect xy="900 900" wh="100"/></clipPath>"#, bbox: None, defs: "" },
    Item { name: "toplevel-mask-marker-pattern", src: r#"<marker id="tmk"><path d="M600 600 L700 700"/></marker><mask id="tms"><rect xy="-900 -900" wh="400"/></mask><pattern id="tpt" width="4" height="4"><rect xy="650 650" wh="9"/></pattern>"#, bbox: None, defs: "" },
    Item { name: "toplevel-gradient-filter", src: r#"<linearGradient id="tlg"><stop offset="0"/></linearGradient><filter id="tfl" x="-500" y="-500" width="1000" height="1000"><feOffset dx="300" dy="300"/></filter>"#, bbox: None, defs: "" },
    // variables / expressions in a group's transform
    Item { name: "g-translate-var", src: r#"<var gt="30"/><g transform="translate($gt 4)"><rect wh="10"/></g>"#, bbox: Some((30., 4., 40., 14.)), defs: "" },
    Item { name: "g-translate-expr-loop", src: r#"<loop count="2" loop-var="gi"><g transform="translate({{$gi * 20}})"><rect wh="10"/></g></loop>"#, bbox: Some((0., 0., 30., 10.)), defs: "" },
    // standalone text: its anchor AS FOUND IN THE OUTPUT is part of the extent (marker SA:)
    Item { name: "text-relative", src: r#"<rect xy="200 200" wh="10"/><text xy="^|h 5">SA:rel</text>"#, bbox: Some((200., 200., 210., 210.)), defs: "" },
    Item { name: "text-loc", src: r#"<text xy="-200 10" text="SA:loc" text-loc="tl"/>"#, bbox: None, defs: "" },
    Item { name: "text-at-corner", src: r##"<rect id="tca" xy="300 -300" wh="10"/><text xy="#tca@br">SA:corner</text>"##, bbox: Some((300., -300., 310., -290.)), defs: "" },
    Item { name: "text-with-tspan", src: r#"<text x="150" y="-150">SA:a<tspan>b</tspan></text>"#, bbox: None, defs: "" },
    Item { name: "text-transform", src: r#"<text xy="10" transform="translate(400)">SA:moved</text>"#, bbox: None, defs: "" },
    // path with several sub-paths: closepath returns to the start of the CURRENT sub-path
    Item { name: "path-subpaths", src: r#"<path d="M0 0 h10 M50 50 h10 v10 z l20 20"/>"#, bbox: Some((0., 0., 70., 70.)), defs: "" },
    // second review round: chains of use, clip paths on other containers, clip path units, empty clip paths,
    // per-glyph text positions, sums which are whole numbers only in exact arithmetic
    Item { name: "use-of-use", src: r##"<use href="#duu"/>"##, bbox: Some((100., 7., 104., 10.)), defs: r##"<rect id="du2" wh="4 3"/><use id="duu" href="#du2" x="100" y="7"/>"## },
    Item { name: "use-of-use-transform", src: r##"<use href="#dut" x="1"/>"##, bbox: Some((21., 0., 29., 6.)), defs: r##"<rect id="du3" wh="4 3"/><use id="dut" href="#du3" x="10" transform="scale(2)"/>"## },
    Item { name: "a-clipped", src: r##"<a href="x" clip-path="url(#dc10)"><rect wh="100"/></a>"##, bbox: Some((0., 0., 10., 10.)), defs: r#"<clipPath id="dc10"><rect wh="10"/></clipPath>"# },
    Item { name: "switch-clipped", src: r##"<switch clip-path="url(#dc10)"><rect xy="5" wh="100"/></switch>"##, bbox: Some((5., 5., 10., 10.)), defs: r#"<clipPath id="dc10"><rect wh="10"/></clipPath>"# },
    Item { name: "clip-object-bounding-box", src: r##"<rect xy="50" wh="20" clip-path="url(#dcobb)"/>"##, bbox: Some((50., 50., 70., 70.)), defs: r#"<clipPath id="dcobb" clipPathUnits="objectBoundingBox"><rect wh="1"/></clipPath>"# },
    Item { name: "clip-object-bounding-box-half", src: r##"<g clip-path="url(#dcobh)"><rect xy="-50 10" wh="40 20"/></g>"##, bbox: Some((-30., 10., -10., 20.)), defs: r#"<clipPath id="dcobh" clipPathUnits="objectBoundingBox"><rect xy="0.5 0" wh="0.5 0.5"/></clipPath>"# },
    Item { name: "use-of-clipped-shape", src: r##"<use href="#dclr" x="3"/>"##, bbox: Some((3., 0., 13., 10.)), defs: r##"<clipPath id="dc10s"><rect wh="10"/></clipPath><rect id="dclr" wh="50" clip-path="url(#dc10s)"/>"## },
    Item { name: "use-of-translated-clipped-group", src: r##"<use href="#dclg"/>"##, bbox: Some((100., 0., 110., 10.)), defs: r##"<clipPath id="dc10g"><rect wh="10"/></clipPath><g id="dclg" transform="translate(100)" clip-path="url(#dc10g)"><rect wh="50"/></g>"## },
    Item { name: "clip-empty", src: r##"<rect xy="-500 -500" wh="100" clip-path="url(#dcempty)"/>"##, bbox: None, defs: r#"<clipPath id="dcempty"/>"# },
    Item { name: "clip-only-comment", src: r##"<g clip-path="url(#dccom)"><rect xy="-500 -500" wh="100"/></g>"##, bbox: None, defs: r#"<clipPath id="dccom"><!-- nothing --></clipPath>"# },
    Item { name: "text-x-list", src: r#"<text x="10 20 30" y="50">abc</text>"#, bbox: Some((10., 50., 10., 50.)), defs: "" },
    Item { name: "text-y-list", src: r#"<text x="-10" y="50, 60">ab</text>"#, bbox: Some((-10., 50., -10., 50.)), defs: "" },
    Item { name: "rect-sum-whole", src: r#"<rect x="-21.8" y="0" width="7.8" height="1"/>"#, bbox: Some((-21.8, 0., -14., 1.)), defs: "" },
    Item { name: "rect-sum-whole-2", src: r#"<rect x="0.7" y="0.1" width="2.3" height="0.2"/>"#, bbox: Some((0.7, 0.1, 3., 0.3)), defs: "" },
    Item { name: "g-scale-sum-whole", src: r#"<g transform="scale(0.3)"><rect wh="100 1"/></g>"#, bbox: Some((0., 0., 30., 0.3)), defs: "" },
    Item { name: "use-symbol-viewbox", src: r##"<use href="#dsv" x="20" y="20" width="10" height="10"/>"##, bbox: Some((20., 20., 30., 30.)), defs: r#"<symbol id="dsv" viewBox="0 0 100 100"><rect wh="100"/></symbol>"# },
    // third review round
    Item { name: "clip-object-units-quarter", src: r##"<rect xy="0 0" wh="100" clip-path="url(#dcobq)"/>"##, bbox: Some((0., 0., 50., 50.)), defs: r#"<clipPath id="dcobq" clipPathUnits="objectBoundingBox"><rect wh="0.5"/></clipPath>"# },
    Item { name: "use-of-object-units-clipped", src: r##"<use href="#dobr" x="10"/>"##, bbox: Some((10., 0., 60., 50.)), defs: r##"<clipPath id="dcobq2" clipPathUnits="objectBoundingBox"><rect wh="0.5"/></clipPath><rect id="dobr" wh="100" clip-path="url(#dcobq2)"/>"## },
    Item { name: "group-object-units-clipped-translated", src: r##"<g transform="translate(200)" clip-path="url(#dcobq)"><rect wh="40"/></g>"##, bbox: Some((200., 0., 220., 20.)), defs: r#"<clipPath id="dcobq" clipPathUnits="objectBoundingBox"><rect wh="0.5"/></clipPath>"# },
    Item { name: "clipped-path-positioned", src: r##"<path xy="100" d="M0 0 h10 v10 h-10 z" clip-path="url(#dc10)"/>"##, bbox: Some((100., 100., 110., 110.)), defs: r#"<clipPath id="dc10"><rect wh="10"/></clipPath>"# },
    Item { name: "clipped-polyline-offset", src: r##"<polyline dxy="100 0" points="0 0 20 20" clip-path="url(#dc10)"/>"##, bbox: Some((100., 0., 110., 10.)), defs: r#"<clipPath id="dc10"><rect wh="10"/></clipPath>"# },
    Item { name: "clip-chain-empty", src: r##"<rect xy="-500 -500" wh="100" clip-path="url(#dce2)"/>"##, bbox: None, defs: r##"<clipPath id="dce1"><rect xy="50" wh="10"/></clipPath><clipPath id="dce2" clip-path="url(#dce1)"><rect wh="20"/></clipPath>"## },
    Item { name: "group-clip-chain-empty", src: r##"<g clip-path="url(#dce2)"><rect xy="-500 -500" wh="100"/></g>"##, bbox: None, defs: r##"<clipPath id="dce1"><rect xy="50" wh="10"/></clipPath><clipPath id="dce2" clip-path="url(#dce1)"><rect wh="20"/></clipPath>"## },
    Item { name: "clip-path-by-variable", src: r##"<var cvid="dc10"/><g clip-path="url(#$cvid)"><rect wh="100"/></g><rect xy="0 200" wh="100" clip-path="url(#$cvid)"/>"##, bbox: Some((0., 0., 10., 10.)), defs: r#"<clipPath id="dc10"><rect wh="10"/></clipPath>"# },
    Item { name: "path-subpaths-rel", src: r#"<path d="m0 0 h10 m40 50 h10 v10 z m-30 -30 l-40 0"/>"#, bbox: Some((-20., 0., 60., 60.)), defs: "" },
];

/// (name, attributes source, supplied width, height, viewBox)
const ROOTS: &[(&str, &str, Option<&str>, Option<&str>, Option<&str>)] = &[
    ("none", "", None, None, None),
    ("width", r#" width="10cm""#, Some("10cm"), None, None),
    ("height", r#" height="50%""#, None, Some("50%"), None),
    ("width+height", r#" width="2in" height="3in""#, Some("2in"), Some("3in"), None),
    ("viewBox", r#" viewBox="0 0 7 9""#, None, None, Some("0 0 7 9")),
    ("viewBox+width", r#" viewBox="1 2 3 4" width="120""#, Some("120"), None, Some("1 2 3 4")),
    ("viewBox+height", r#" viewBox="1 2 3 4" height="6.5mm""#, None, Some("6.5mm"), Some("1 2 3 4")),
    ("all", r#" width="1" height="2" viewBox="3 4 5 6""#, Some("1"), Some("2"), Some("3 4 5 6")),
    ("version+xmlns", r#" version="1.0" xmlns:xlink="http://www.w3.org/1999/xlink""#, None, None, None),
    ("width+height-plain", r#" width="100" height="50""#, Some("100"), Some("50"), None),
    ("width-plain", r#" width="120""#, Some("120"), None, None),
    ("height-plain", r#" height="40" class="mine""#, None, Some("40"), None),
];

fn split_unit(s: &str) -> Option<(f64, String)> {
    let idx = s.find(|c: char| !(c.is_ascii_digit() || c == '.' || c == '-')).unwrap_or(s.len());
    Some((s[..idx].parse().ok()?, s[idx..].to_string()))
}

struct Case {
    items: Vec<usize>,
    border: u16,
    scale: f32,
    root: usize,
}

fn document(c: &Case) -> String {
    // targets of <use> / clip-path must exist in the output, so they live in <defs> (whose content
    // adds nothing to the extent); reuse templates live in <specs>
    let mut defs = String::new();
    let mut specs = String::new();
    for i in &c.items {
        let d = ITEMS[*i].defs;
        if let Some(sp) = d.strip_prefix("SPECS") {
            if !specs.contains(sp) {
                specs.push_str(sp);
            }
        } else if !d.is_empty() && !defs.contains(d) {
            defs.push_str(d);
        }
    }
    let body: String = c.items.iter().map(|i| ITEMS[*i].src).collect::<Vec<_>>().join("\n  ");
    format!(
        "<svg{}>\n  {}{}{}\n</svg>",
        ROOTS[c.root].1,
        if defs.is_empty() { String::new() } else { format!("<defs>{defs}</defs>\n  ") },
        if specs.is_empty() { String::new() } else { format!("<specs>{specs}</specs>\n  ") },
        body
    )
}

fn check(c: &Case) -> CaseResult {
    let doc = document(c);
    let cfg = Cfg { border: c.border, scale: c.scale, ..Cfg::plain() };
    let out = run_str(&doc, &cfg);
    let names: Vec<&str> = c.items.iter().map(|i| ITEMS[*i].name).collect();
    let case = json!({"input": doc, "items": names, "border": c.border, "scale": c.scale, "root": ROOTS[c.root].0});
    let sig = format!("{}/{}", names.join("+"), ROOTS[c.root].0);
    let mut viol = None;
    let mut mk = |clause: &str, detail: String| {
        if viol.is_none() {
            viol = Some(Violation { clause: clause.into(), signature: format!("C08/{clause}/{sig}"), case: case.clone(), detail });
        }
    };
    // reference extent
    let mut e: Option<BBox> = None;
    for i in &c.items {
        if let Some(b) = ITEMS[*i].bbox {
            let b = BBox::new(b.0, b.1, b.2, b.3);
            e = Some(match e {
                None => b,
                Some(x) => x.union(&b),
            });
        }
    }
    let (_, _, sw, sh, svb) = ROOTS[c.root];
    let mut ok = false;
    let mut oh = 0;
    match &out {
        Outcome::Panic(p) => mk("panic", p.clone()),
        Outcome::Err(er) => mk("rejected", format!("{doc}\n{}", clip(er, 300))),
        Outcome::Ok(o) => {
            oh = hash64(o);
            let text = String::from_utf8_lossy(o).to_string();
            let tree = xmlref::parse_tree(o, Mode::Document).unwrap_or_default();
            match xmlref::root(&tree) {
                None => mk("no-root", clip(&text, 300)),
                Some(r) => {
                    ok = true;
                    let head = clip(&text, 260);
                    // standalone text (marker "SA:"): the anchor as found in the output belongs to the extent; a
                    // transform on the text element itself moves it
                    for t in r.descendants().into_iter().filter(|t| t.name == "text" && t.text().starts_with("SA:")) {
                        match (t.attr("x").and_then(|v| v.parse::<f64>().ok()), t.attr("y").and_then(|v| v.parse::<f64>().ok())) {
                            (Some(mut x), Some(y)) => {
                                if let Some(tr) = t.attr("transform") {
                                    if let Some(dx) = tr.strip_prefix("translate(").and_then(|v| v.strip_suffix(')')).and_then(|v| v.parse::<f64>().ok()) {
                                        x += dx;
                                    }
                                }
                                let b = BBox::new(x, y, x, y);
                                e = Some(match e {
                                    None => b,
                                    Some(q) => q.union(&b),
                                });
                            }
                            _ => mk("standalone-text-unobservable", format!("{doc}\n{head}")),
                        }
                    }
                    // version / namespace
                    let want_version = if ROOTS[c.root].0 == "version+xmlns" { "1.0" } else { "1.1" };
                    if r.attr("version") != Some(want_version) {
                        mk("version", format!("expected version {want_version}: {head}"));
                    }
                    if r.attr("xmlns") != Some("http://www.w3.org/2000/svg") {
                        mk("xmlns", head.clone());
                    }
                    match e {
                        None => {
                            // nothing rendered: supplied attributes verbatim, nothing synthesised
                            for (k, s) in [("width", sw), ("height", sh), ("viewBox", svb)] {
                                if r.attr(k) != s {
                                    mk("empty-extent-root-attribute", format!("{k}: expected {s:?}, observed {:?}\n{head}", r.attr(k)));
                                }
                            }
                        }
                        Some(e) => {
                            let b = c.border as f64;
                            let (x1, y1, x2, y2) = ((e.x1 - b).floor(), (e.y1 - b).floor(), (e.x2 + b).ceil(), (e.y2 + b).ceil());
                            let (w, h) = (x2 - x1, y2 - y1);
                            // viewBox
                            match svb {
                                Some(v) => {
                                    if r.attr("viewBox") != Some(v) {
                                        mk("supplied-viewBox-changed", format!("expected {v:?}, observed {:?}", r.attr("viewBox")));
                                    }
                                }
                                None => {
                                    let got: Vec<f64> = r.attr("viewBox").map(crate::geom::numbers).unwrap_or_default();
                                    let want = [x1, y1, w, h];
                                    if got.len() != 4 || got.iter().zip(want.iter()).any(|(g, w)| (g - w).abs() > 0.0011) {
                                        mk("viewBox", format!("{doc}\nextent of the drawn content {e:?}, border {b}: expected viewBox {want:?}, observed {:?}", r.attr("viewBox")));
                                    }
                                }
                            }
                            // width / height
                            let sc = c.scale as f64;
                            let (ew, eh): (Option<(f64, String)>, Option<(f64, String)>) = match (sw, sh) {
                                (None, None) => (Some((w * sc, "mm".into())), Some((h * sc, "mm".into()))),
                                (Some(ws), None) => {
                                    let (v, u) = split_unit(ws).unwrap();
                                    (None, Some((v / (w / h), u)))
                                }
                                (None, Some(hs)) => {
                                    let (v, u) = split_unit(hs).unwrap();
                                    (Some((v * (w / h), u)), None)
                                }
                                _ => (None, None),
                            };
                            for (k, supplied, derived) in [("width", sw, ew), ("height", sh, eh)] {
                                match (supplied, derived) {
                                    (Some(s), _) => {
                                        if r.attr(k) != Some(s) {
                                            mk("supplied-dimension-changed", format!("{k}: expected {s:?}, observed {:?}", r.attr(k)));
                                        }
                                    }
                                    // a zero-width or zero-height extent has no aspect ratio: no value is asserted, but
                                    // whatever is written must be a number
                                    (None, Some((v, _))) if !v.is_finite() || w == 0. || h == 0. => {
                                        if let Some(a) = r.attr(k) {
                                            if a.contains("inf") || a.contains("NaN") {
                                                mk("non-finite-dimension", format!("{doc}\n{k}=\"{a}\" in the output"));
                                            }
                                        }
                                    }
                                    (None, Some((v, u))) => match r.attr(k).and_then(split_unit) {
                                        Some((g, gu)) if gu == u && (g - v).abs() <= 0.0011 + 1e-6 * v.abs() => {}
                                        other => mk("derived-dimension", format!("{doc}\n{k}: expected {v}{u} (extent {w} x {h}, scale {sc}), observed {other:?} ({:?})", r.attr(k))),
                                    },
                                    (None, None) => {
                                        if h == 0. || w == 0. {
                                            // degenerate aspect ratio: nothing sensible to assert
                                        }
                                    }
                                }
                            }
                        }
                    }
                }
            }
        }
    }
    CaseResult { case_hash: hash64(&(doc, c.border, c.scale.to_bits())), nontrivial: ok && viol.is_none() && e.is_some(), outcome_hash: oh, executions: 1, violation: viol }
}

pub fn run(tier: Tier) -> i32 {
    let mut rep = Report::new("C08", tier, "exploration");
    // the quick tier explores what used to be the thorough space (it takes seconds); `deep` adds the wider bounds
    #[allow(unused_variables)]
    let deep = tier == Tier::Thorough;
    let tier = Tier::Thorough;
    let n = ITEMS.len();
    let mut lists: Vec<Vec<usize>> = Vec::new();
    for a in 0..n {
        lists.push(vec![a]);
        for b in 0..n {
            if a != b {
                lists.push(vec![a, b]);
            }
        }
    }
    if tier == Tier::Thorough {
        for a in 0..n {
            for b in (a + 1)..n {
                for c in (b + 1)..n {
                    lists.push(vec![a, b, c]);
                }
            }
        }
    }
    let mut cases = Vec::new();
    for l in &lists {
        for (bi, border) in [0u16, 5, 13].iter().enumerate() {
            for (si, scale) in [1.0f32, 2.5, 0.5].iter().enumerate() {
                for root in 0..ROOTS.len() {
                    if l.len() >= 2 && tier == Tier::Quick && (bi + si + root + l[0] + l[1]) % 3 != 0 {
                        continue;
                    }
                    if l.len() == 3 && (bi + si + root) % 9 != (l[0] + l[2]) % 9 {
                        continue;
                    }
                    // (the every-change tier takes a third of the triples)
                    if l.len() == 3 && !deep && (l[0] + l[1] + l[2]) % 3 != 0 {
                        continue;
                    }
                    cases.push(Case { items: l.clone(), border: *border, scale: *scale, root });
                }
            }
        }
    }
    rep.set("rule", json!(format!("Documents of 1-2 (thorough: 3) items from {} items with known contribution to the extent: every bbox-bearing kind (rect, circle, ellipse, line, polyline, polygon, absolute and relative path, image, foreignObject, nested svg, use of rect/circle/symbol), standalone text (anchor point), shape with generated text outside (adds only the shape), box (invisible, included), point (nothing), groups with no/translate/uniform/non-uniform/mirroring/combined transforms, a shape with its own transform, a clipped shape, content of defs/specs/symbol/marker/pattern (nothing), a forward-referenced pair, a loop, a reuse x border {{0,5,13}} x scale {{1,2.5,0.5}} x 9 root attribute sets (none, width with unit, height in percent, both, viewBox, viewBox+width, viewBox+height, all, version+xmlns:xlink). Reference model: union of the known boxes, grown by the border, rounded outward; viewBox = that box; width/height = size x scale in mm; supplied attributes verbatim; a single supplied dimension determines the other by the aspect ratio with the same unit; version/xmlns only when missing. Non-trivial = Ok, non-empty extent, all root attributes as expected.", ITEMS.len())));
    rep.set("also_later", json!("Rounds 3-5 added items for use chains, clip chains, clipPathUnits, empty clip paths, symbol viewports, and whole documents: settings made by waiting elements (also against a later <config>), a transform on the root, nested <svg x y> without a size."));
    rep.set("also", json!("Also: transforms on <use> and <a>, transform combined with clip-path (on a group, on a shape, and a <use> of such a group), url() references written with quotes / blanks, clip-path on <reuse>, clipPath / mask / marker / pattern / gradient / filter written outside <defs>, variables and expressions in a group's transform, standalone text whose anchor is read from the OUTPUT (relative, text-loc, at a corner, with tspan child, with its own transform), paths with several sub-paths, root width / height given as plain numbers, a root wrapped in <if> / <loop>; derived dimensions must never be inf / NaN. Second review round: a <use> of a <use> (with position / transform), a <use> of an element with its own clip-path, clip-path on <a> and <switch>, clipPathUnits=objectBoundingBox (whole and part of the box), empty and comment-only clip paths (clip everything), <text> with glyph position lists, boxes whose far edge is a whole number only in exact arithmetic (-21.8 + 7.8, 0.7 + 2.3, 100 x 0.3), a <use> with width/height of a <symbol> with a viewBox."));
    let st = run_space(cases.len(), |i| check(&cases[i]));
    rep.sample(json!({"doc": document(&cases[cases.len() / 2]), "border": cases[cases.len() / 2].border}));
    rep.sample(json!({"doc": document(&cases[5])}));
    rep.absorb("extent", st);
    // the root element wrapped in control elements which leave no trace in the output
    let wrapped = [
        ("<if test=\"1\"><svg width=\"100\" height=\"50\"><rect xy=\"30 30\" wh=\"20 10\"/></svg></if>", "30 30 20 10"),
        ("<loop count=\"1\"><svg width=\"100\" height=\"50\"><rect xy=\"30 30\" wh=\"20 10\"/></svg></loop>", "30 30 20 10"),
        ("<var a=\"1\"/><if test=\"$a\"><svg height=\"50\" width=\"100\"><g><rect xy=\"30 30\" wh=\"20 10\"/></g></svg></if>", "30 30 20 10"),
    ];
    let st = run_space(wrapped.len(), |i| {
        let (doc, vb) = wrapped[i];
        let out = run_str(doc, &Cfg { border: 0, ..Cfg::plain() });
        let got = match &out {
            Outcome::Ok(o) => xmlref::parse_tree(o, Mode::Document).ok().and_then(|t| xmlref::root(&t).and_then(|r| r.attr("viewBox").map(|v| v.to_string()))),
            _ => None,
        };
        let ok = got.as_deref() == Some(vb);
        CaseResult {
            case_hash: hash64(&doc),
            nontrivial: ok,
            outcome_hash: hash64(&format!("{out:?}")),
            executions: 1,
            violation: if ok { None } else { Some(Violation { clause: "viewBox".into(), signature: format!("C08/wrapped-root/{i}"), case: json!({"input": doc, "wrapped": true}), detail: format!("{doc}\nexpected viewBox {vb:?}, observed {got:?}") }) },
        }
    });
    rep.absorb("wrapped-root", st);
    // whole documents with their expected viewBox (None: no viewBox at all), default border
    let whole: Vec<(&str, &str, Option<&str>)> = vec![
        ("config-in-waiting-group", "<svg><g><rect xy=\"#z|h\" wh=\"5\"/><config border=\"0\"/></g><rect id=\"z\" wh=\"10\"/></svg>", Some("0 0 15 10")),
        ("config-in-waiting-if", "<svg><if test=\"1\"><rect xy=\"#z|h\" wh=\"5\"/><config border=\"2\"/></if><rect id=\"z\" wh=\"10\"/></svg>", Some("-2 -2 19 14")),
        ("config-in-group-control", "<svg><g><rect wh=\"5\"/><config border=\"0\"/></g><rect id=\"z\" xy=\"5 0\" wh=\"10\"/></svg>", Some("0 0 15 10")),
        // fifth review round
        ("root-transform-does-not-move-the-extent", "<svg transform=\"translate(100)\"><rect wh=\"10\"/></svg>", Some("-5 -5 20 20")),
        ("root-scale-does-not-grow-the-extent", "<svg transform=\"scale(2)\"><rect wh=\"10\"/></svg>", Some("-5 -5 20 20")),
        ("nested-svg-offset-without-size", "<svg><svg x=\"50\" y=\"50\"><rect wh=\"10\"/></svg></svg>", Some("45 45 20 20")),
        ("nested-svg-offset-with-width-only", "<svg><g><svg x=\"50\" y=\"20\" width=\"30\"><rect wh=\"10\"/></svg></g></svg>", Some("45 15 20 20")),
        ("config-in-waiting-group-then-later-config", "<svg><g><rect xy=\"#z|h 5\" wh=\"10\"/><config border=\"1\"/></g><config border=\"3\"/><rect id=\"z\" wh=\"10\"/></svg>", Some("-3 -3 31 16")),
        ("config-in-group-then-later-config-control", "<svg><rect id=\"z\" wh=\"10\"/><g><rect xy=\"#z|h 5\" wh=\"10\"/><config border=\"1\"/></g><config border=\"3\"/></svg>", Some("-3 -3 31 16")),
        // sixth review round: a shape with a negative size is not rendered, and adds nothing
        ("negative-size/rect", "<svg><rect wh=\"10\" dw=\"-30\"/><rect xy=\"0\" wh=\"4\"/></svg>", Some("-5 -5 14 14")),
        ("negative-size/circle", "<svg><circle r=\"5\"/><circle cxy=\"10\" r=\"-5\"/></svg>", Some("-10 -10 20 20")),
        ("negative-size/only-shape", "<svg><rect wh=\"10\" dw=\"-30\"/></svg>", None),
        ("empty-root-with-size", "<svg width=\"100\" height=\"50\"/>", None),
        ("empty-root-with-size-end-tag", "<svg width=\"100\" height=\"50\"></svg>", None),
        ("empty-root-plain", "<svg/>", None),
    ];
    let st = run_space(whole.len(), |i| {
        let (name, doc, vb) = whole[i];
        let out = run_str(doc, &Cfg::plain());
        let got = match &out {
            Outcome::Ok(o) => xmlref::parse_tree(o, Mode::Document).ok().and_then(|t| xmlref::root(&t).map(|r| r.attr("viewBox").map(|v| v.to_string()))),
            _ => None,
        };
        let ok = got == Some(vb.map(|v| v.to_string()));
        CaseResult {
            case_hash: hash64(&doc),
            nontrivial: ok,
            outcome_hash: hash64(&format!("{out:?}")),
            executions: 1,
            violation: if ok { None } else { Some(Violation { clause: "viewBox".into(), signature: format!("C08/whole-document/{name}"), case: json!({"input": doc, "wrapped": true}), detail: format!("{doc}\nexpected viewBox {vb:?}, observed {got:?}") }) },
        }
    });
    rep.absorb("whole-documents", st);
    rep.assume("item boxes are the generator's knowledge of absolute geometry (the per-element geometry itself is checked by C09/C11/C12/C13)");
    rep.finish()
}

pub fn replay_case(case: &Value) -> Option<Violation> {
    let items: Vec<usize> = case["items"].as_array()?.iter().filter_map(|n| ITEMS.iter().position(|i| Some(i.name) == n.as_str())).collect();
    let root = ROOTS.iter().position(|r| Some(r.0) == case["root"].as_str())?;
    check(&Case { items, border: case["border"].as_u64()? as u16, scale: case["scale"].as_f64()? as f32, root }).violation
}
