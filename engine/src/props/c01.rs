//! C01 — Totality: every input gives a result or an error, never a crash or a hang.
//!
//! Bounded-exhaustive input spaces (XML token strings, attribute mini-language
//! token strings in carrier documents, shape ladders) are executed in sandboxed
//! worker subprocesses (2 MiB stack thread, watchdog, death-by-signal
//! detection, careful re-run to pin the offending case), plus front-end legs
//! (CLI, server) and environment-answer enumeration (failing writes, chunked
//! reads).

use crate::common::*;
use serde_json::{json, Value};
use std::io::{BufRead, BufReader, Read, Write};
use std::process::{Command, Stdio};
use std::sync::atomic::{AtomicBool, AtomicU64, Ordering};
use std::sync::{Arc, Mutex};
use std::time::{Duration, Instant};

// ------------------------------------------------------------------ spaces

const XML_TOKENS: &[&[u8]] = &[
    b"<svg>", b"</svg>", b"<g>", b"</g>", b"<rect ", b"<text>", b"</text>", b"<reuse ", b"<loop ", b"</loop>", b"a=\"", b"xy=\"", b"text=\"", b"\"", b"'", b"/>", b">",
    b"<!--", b"-->", b"<![CDATA[", b"]]>", b"<?x", b"?>", b"&amp;", b"&#", b"\xFF", b"x", b" ",
];

const EXPR_TOKENS: &[&str] = &[
    "1", "2.5", "(", ")", "+", "-", "*", "/", "%", ",", " ", "lt", "and", "abs(", "max(", "$v", "${v}", "#a~w", "#a", "'", "\"", "\\", "é", "e", ".", "{{", "}}", "^", "randint(", "$", "{",
];
const PATH_TOKENS: &[&str] = &["M", "m", "L", "h", "V", "z", "Z", "C", "a", "A", "b", "B", "10", "-", ".", "e", ",", " ", "#a@tl", "1e9", "é"];
const REL_TOKENS: &[&str] = &["#a", "^", "|h", "|V", "@tl", "@t:", "~w", ":", "%", "10", "-5", " ", ",", ".", "$v", "{{", "}}", "(", ")", "url(#a)", "e", "#", "@", "|", "~"];

/// reference-graph alphabets: documents are sequences of these items inside <svg>..</svg>; ids a / b are
/// deliberately re-used so that chains, self references and cycles (through #id and through ^) arise
const REFUSE_ITEMS: &[&str] = &[
    r##"<rect wh="2"/>"##,
    r##"<use id="a" href="^"/>"##,
    r##"<use id="a" href="#a"/>"##,
    r##"<use id="a" href="#b"/>"##,
    r##"<use id="b" href="^"/>"##,
    r##"<use id="b" href="#a"/>"##,
    r##"<use id="b" href="#b"/>"##,
    r##"<use href="^"/>"##,
    r##"<use href="#a"/>"##,
    r##"<use href="#b"/>"##,
];
const REFMIX_ITEMS: &[&str] = &[
    r##"<rect wh="2"/>"##,
    r##"<rect id="a" wh="2"/>"##,
    r##"<rect id="b" xy="#a|h" wh="2"/>"##,
    r##"<rect id="a" xy="#b|h" wh="2"/>"##,
    r##"<rect id="a" xy="#a|h" wh="2"/>"##,
    r##"<clipPath id="a" clip-path="url(#a)"><rect wh="3"/></clipPath>"##,
    r##"<clipPath id="a" clip-path="url(#b)"><rect wh="3"/></clipPath>"##,
    r##"<clipPath id="b" clip-path="url(#a)"><rect wh="3"/></clipPath>"##,
    r##"<rect wh="2" clip-path="url(#a)"/>"##,
    r##"<g id="b" clip-path="url(#b)"><rect wh="1"/></g>"##,
    r##"<rect id="a" surround="#b"/>"##,
    r##"<rect id="b" surround="#a #b"/>"##,
    r##"<circle id="b" inside="#a"/>"##,
    r##"<reuse id="a" href="#b"/>"##,
    r##"<reuse id="b" href="#a"/>"##,
    r##"<reuse href="^"/>"##,
    r##"<use id="a" href="#b"/>"##,
    r##"<use id="b" href="^"/>"##,
    r##"<line id="b" start="#a" end="#b"/>"##,
    r##"<g id="a"><use href="#a"/></g>"##,
    r##"<symbol id="b"><reuse href="#b"/></symbol>"##,
    r##"<rect id="a" wh="#b"/>"##,
    r##"<rect id="b" wh="#a" xy="^|v"/>"##,
    r##"<text id="a" xy="#b|h" text="t"/>"##,
    // computed ids and state which advances on every (re-)evaluation, next to references that never resolve
    r##"<rect id="r{{random()}}{{random()}}{{random()}}" wh="1"/>"##,
    r##"<var i="{{$i + 1}}"/><rect id="r$i" wh="1"/>"##,
    r##"<rect xy="#nope" wh="1"/>"##,
    r##"<g><rect id="g{{random()}}{{random()}}{{random()}}" wh="1"/><rect xy="#nope2|h" wh="1"/></g>"##,
];

/// (element template with `@` for the value) carriers for the generic relspec-ish alphabet
const CARRIERS: &[&str] = &[
    r##"<rect xy="@" wh="4"/>"##,
    r##"<rect cxy="@" wh="4"/>"##,
    r##"<rect x="@" y="@" wh="4"/>"##,
    r##"<rect wh="@"/>"##,
    r##"<rect width="@" height="4"/>"##,
    r##"<rect wh="4" dw="@" dh="@"/>"##,
    r##"<rect wh="4" dxy="@"/>"##,
    r##"<line start="@" end="9 9"/>"##,
    r##"<polyline start="#a" end="@"/>"##,
    r##"<rect surround="@"/>"##,
    r##"<circle inside="@"/>"##,
    r##"<rect surround="#a" margin="@"/>"##,
    r##"<polyline start="#a" end="20 20" corner-offset="@"/>"##,
    r##"<rect wh="4" text="t" text-loc="@"/>"##,
    r##"<rect wh="4" text="t" text-dxy="@"/>"##,
    r##"<rect wh="4" text="t" text-offset="@" text-lsp="@"/>"##,
    r##"<rect xy="#a" xy-loc="@" wh="4"/>"##,
    r##"<use href="@"/>"##,
    r##"<reuse href="@"/>"##,
    r##"<rect wh="4" clip-path="@"/>"##,
    r##"<polyline points="@"/>"##,
    r##"<rect wh="4" transform="@"/>"##,
    r##"<g transform="@"><rect wh="2"/></g>"##,
    r##"<circle r="@"/>"##,
    r##"<ellipse rxy="@"/>"##,
    r##"<line xy1="@" xy2="@"/>"##,
    r##"<loop count="@"><rect wh="1"/></loop>"##,
    r##"<loop while="@"><rect wh="1"/></loop>"##,
    r##"<loop until="@"><rect wh="1"/></loop>"##,
    r##"<loop count="2" loop-var="i" start="@" step="@"><rect wh="1"/></loop>"##,
    r##"<for var="q" data="@"><rect wh="1"/></for>"##,
    r##"<if test="@"><rect wh="1"/></if>"##,
    r##"<var v="@"/><rect wh="$v"/>"##,
    r##"<config scale="@"/>"##,
    r##"<config border="@" seed="@"/>"##,
    r##"<config theme="@" background="@"/>"##,
    r##"<config depth-limit="@" loop-limit="@"/>"##,
    r##"<defaults><rect match="@" wh="2"/></defaults><rect/>"##,
    r##"<rect wh="4" id="@"/>"##,
    r##"<rect wh="4" class="@"/>"##,
];

#[derive(Clone)]
pub struct Case {
    pub doc: Vec<u8>,
    pub cfg: Cfg,
    /// requested work (elements x loop iterations) for the proportionality bound
    pub work: Option<u64>,
    pub label: String,
    /// evaluate through eval_attr_probe instead of a document
    pub expr_direct: bool,
}

fn strings_case(tokens_len: usize, mut idx: usize, max: usize) -> Option<Vec<usize>> {
    // enumerate all strings of length 0..=max, shortest first
    let mut len = 0;
    let mut count = 1usize;
    loop {
        if idx < count {
            let mut v = Vec::with_capacity(len);
            for _ in 0..len {
                v.push(idx % tokens_len);
                idx /= tokens_len;
            }
            return Some(v);
        }
        idx -= count;
        len += 1;
        if len > max {
            return None;
        }
        count *= tokens_len;
    }
}

fn strings_total(tokens_len: usize, max: usize) -> usize {
    (0..=max).map(|l| tokens_len.pow(l as u32)).sum()
}

fn small_limits() -> Cfg {
    Cfg { loop_limit: 10, var_limit: 10, depth_limit: 10, ..Cfg::plain() }
}

struct Space {
    name: String,
    len: usize,
}

fn spaces(tier: Tier) -> Vec<Space> {
    let mut v = vec![
        Space { name: "xml".into(), len: strings_total(XML_TOKENS.len(), tier.pick(4, 5)) * 2 },
        Space { name: "expr".into(), len: strings_total(EXPR_TOKENS.len(), tier.pick(4, 5)) },
        Space { name: "exprdoc".into(), len: strings_total(EXPR_TOKENS.len(), tier.pick(3, 4)) },
        Space { name: "path".into(), len: strings_total(PATH_TOKENS.len(), tier.pick(4, 5)) },
    ];
    v.push(Space { name: "refuse".into(), len: strings_total(REFUSE_ITEMS.len(), tier.pick(5, 7)) });
    v.push(Space { name: "refchain".into(), len: (1..=tier.pick(3, 4)).map(refchain_count).sum() });
    v.push(Space { name: "refmix".into(), len: strings_total(REFMIX_ITEMS.len(), tier.pick(3, 5)) });
    for c in 0..CARRIERS.len() {
        v.push(Space { name: format!("rel{c}"), len: strings_total(REL_TOKENS.len(), tier.pick(3, 4)) });
    }
    v
}

/// Reference chains: k named use / reuse elements (ids a..d) with EVERY assignment of hrefs among
/// {^, #a..} x each optionally preceded by a plain rect (which moves what `^` means) x use|reuse per
/// element x a final probe (use of / position relative to one of them, or none).
fn refchain_count(k: usize) -> usize {
    (k + 1).pow(k as u32) * (1 << k) * (1 << k) * (2 * k + 1)
}

fn refchain_doc(mut idx: usize, kmax: usize) -> Option<String> {
    let mut k = 1;
    loop {
        if k > kmax {
            return None;
        }
        let c = refchain_count(k);
        if idx < c {
            break;
        }
        idx -= c;
        k += 1;
    }
    let ids = ["a", "b", "c", "d"];
    let mut s = String::from("<svg><rect wh=\"2\"/>");
    let mut hrefs = Vec::new();
    for _ in 0..k {
        hrefs.push(idx % (k + 1));
        idx /= k + 1;
    }
    let seps = idx % (1 << k);
    idx /= 1 << k;
    let kinds = idx % (1 << k);
    idx /= 1 << k;
    let probe = idx;
    for i in 0..k {
        if seps >> i & 1 == 1 {
            s.push_str("<rect wh=\"2\"/>");
        }
        let href = if hrefs[i] == 0 { "^".to_string() } else { format!("#{}", ids[hrefs[i] - 1]) };
        s.push_str(&format!("<{} id=\"{}\" href=\"{}\"/>", if kinds >> i & 1 == 1 { "reuse" } else { "use" }, ids[i], href));
    }
    if probe >= 1 && probe <= k {
        s.push_str(&format!("<use href=\"#{}\"/>", ids[probe - 1]));
    } else if probe > k {
        s.push_str(&format!("<rect xy=\"#{}|h 1\" wh=\"1\"/>", ids[probe - k - 1]));
    }
    s.push_str("</svg>");
    Some(s)
}

fn space_case(space: &str, idx: usize, tier: Tier) -> Option<Case> {
    let plain = Cfg::plain();
    if space == "refchain" {
        let doc = refchain_doc(idx, tier.pick(3, 4))?;
        return Some(Case { doc: doc.into_bytes(), cfg: plain, work: None, label: "refchain".into(), expr_direct: false });
    }
    if space == "xml" {
        let s = strings_case(XML_TOKENS.len(), idx / 2, tier.pick(4, 5))?;
        let mut doc = Vec::new();
        for t in &s {
            doc.extend_from_slice(XML_TOKENS[*t]);
        }
        let cfg = if idx % 2 == 0 { Cfg::default() } else { Cfg { debug: true, add_metadata: true, ..small_limits() } };
        return Some(Case { doc, cfg, work: None, label: format!("xml/{}", s.len()), expr_direct: false });
    }
    if space == "expr" || space == "exprdoc" {
        let s = strings_case(EXPR_TOKENS.len(), idx, if space == "expr" { tier.pick(4, 5) } else { tier.pick(3, 4) })?;
        let e: String = s.iter().map(|t| EXPR_TOKENS[*t]).collect();
        if space == "expr" {
            return Some(Case { doc: format!("{{{{{e}}}}}").into_bytes(), cfg: plain, work: None, label: "expr".into(), expr_direct: true });
        }
        let esc = e.replace('&', "&amp;").replace('<', "&lt;").replace('"', "&quot;");
        let doc = format!("<svg><var v=\"3\"/><rect id=\"a\" wh=\"4\"/><rect xy=\"{{{{{esc}}}}}\" wh=\"{esc}\" text=\"{{{{{esc}}}}}\"/><if test=\"{esc}\"><rect wh=\"1\"/></if></svg>");
        return Some(Case { doc: doc.into_bytes(), cfg: plain, work: None, label: "exprdoc".into(), expr_direct: false });
    }
    if space == "path" {
        let s = strings_case(PATH_TOKENS.len(), idx, tier.pick(4, 5))?;
        let d: String = s.iter().map(|t| PATH_TOKENS[*t]).collect();
        let doc = format!("<svg><rect id=\"a\" wh=\"4\"/><path d=\"M0 0 {d}\"/><path d=\"{d}\" xy=\"#a|h\"/></svg>");
        return Some(Case { doc: doc.into_bytes(), cfg: plain, work: None, label: "path".into(), expr_direct: false });
    }
    if space == "refuse" || space == "refmix" {
        let (items, max) = if space == "refuse" { (REFUSE_ITEMS, tier.pick(5, 7)) } else { (REFMIX_ITEMS, tier.pick(3, 5)) };
        let s = strings_case(items.len(), idx, max)?;
        let body: String = s.iter().map(|t| items[*t]).collect();
        // (a counter variable defined before the root, for the items which advance it)
        let pre = if space == "refmix" { "<var i=\"0\"/>" } else { "" };
        return Some(Case { doc: format!("{pre}<svg>{body}</svg>").into_bytes(), cfg: plain, work: None, label: space.to_string(), expr_direct: false });
    }
    if let Some(c) = space.strip_prefix("rel") {
        let ci: usize = c.parse().ok()?;
        let s = strings_case(REL_TOKENS.len(), idx, tier.pick(3, 4))?;
        let v: String = s.iter().map(|t| REL_TOKENS[*t]).collect();
        let doc = format!("<svg><var v=\"3\"/><rect id=\"a\" xy=\"1 2\" wh=\"4\"/>{}</svg>", CARRIERS[ci].replace('@', &v));
        return Some(Case { doc: doc.into_bytes(), cfg: if idx % 7 == 0 { small_limits() } else { plain }, work: None, label: format!("carrier{ci}"), expr_direct: false });
    }
    None
}

// ------------------------------------------------------------------ ladders

const LADDERS: &[&str] = &[
    "expr-parens", "expr-unary-minus", "expr-nested-calls", "expr-list-length", "expr-op-chain", "expr-string-length", "nest-g", "nest-a", "nest-defs", "nest-svg", "nest-text-tspan",
    "nest-symbol", "nest-loop", "nest-if", "nest-specs", "siblings-rect", "siblings-text-content", "siblings-g", "attr-count", "attr-value-length", "text-length", "text-lines", "path-segments",
    "path-after-closepath", "points-length", "transform-list", "reuse-chain", "use-chain", "var-chain-reverse", "prev-chain", "forward-ref-chain", "forward-ref-nested-groups", "loop-nest",
    "loop-count", "for-list", "var-growth", "defaults-count", "comment-length", "cdata-length", "entity-count", "class-count", "surround-list", "connector-count", "deep-unclosed", "many-roots",
    "var-paren-indirection", "clip-chain", "var-doubling-groups", "var-doubling-reuse", "var-sum-tree", "nest-g-lifted-limit", "loop-defaults",
    "waiting-many-vars", "waiting-then-comments", "waiting-many", "points-references", "retry-growing-id", "specs-double-reuse",
    "entity-empty-fanout", "entity-many-declared", "waiting-then-vars", "indent-repeated", "points-box-referenced",
    "nest-g-waiting-content-shape",
];

fn rungs(tier: Tier) -> Vec<u64> {
    let top = tier.pick(12, 17);
    (0..=top).map(|k| 1u64 << k).collect()
}

/// Build ladder document for (family, n). Returns (doc, work).
fn ladder_doc(family: &str, n: u64) -> Option<(String, u64)> {
    let n_us = n as usize;
    let rep = |s: &str, k: usize| s.repeat(k);
    Some(match family {
        "expr-parens" => (format!("<rect wh=\"{{{{{}1{}}}}}\"/>", rep("(", n_us), rep(")", n_us)), 1),
        "expr-unary-minus" => (format!("<rect wh=\"2\" x=\"{{{{{}1}}}}\"/>", rep("-", n_us)), 1),
        "expr-nested-calls" => (format!("<rect wh=\"{{{{{}1{}}}}}\"/>", rep("abs(", n_us), rep(")", n_us)), 1),
        "expr-list-length" => (format!("<rect wh=\"{{{{max({}1)}}}}\"/>", rep("1,", n_us)), 1),
        "expr-op-chain" => (format!("<rect wh=\"{{{{1{}}}}}\"/>", rep("+1", n_us)), 1),
        "expr-string-length" => (format!("<rect wh=\"2\" text=\"{{{{'{}'}}}}\"/>", rep("s", n_us)), 1),
        "nest-g" | "nest-a" | "nest-defs" | "nest-svg" | "nest-symbol" => {
            let t = family.strip_prefix("nest-").unwrap();
            (format!("{}<rect wh=\"1\"/>{}", rep(&format!("<{t}>"), n_us), rep(&format!("</{t}>"), n_us)), n + 1)
        }
        // the document lifts the depth limit itself (docs: `depth-limit="10000"`), then nests
        "nest-g-lifted-limit" => (format!("<config depth-limit=\"100000000\"/>{}<rect wh=\"1\"/>{}", rep("<g>", n_us), rep("</g>", n_us)), n + 1),
        // n x 250 iterations of a body holding a <defaults> element
        "loop-defaults" => (format!("<svg><loop count=\"{n}\"><loop count=\"250\"><defaults><rect fill=\"red\"/></defaults><rect wh=\"1\"/></loop></loop></svg>"), 500 * n + 2),
        "nest-text-tspan" => (format!("<text>{}t{}</text>", rep("<tspan>", n_us), rep("</tspan>", n_us)), n + 1),
        "nest-loop" => (format!("{}<rect wh=\"1\"/>{}", rep("<loop count=\"1\">", n_us), rep("</loop>", n_us)), n + 1),
        "nest-if" => (format!("{}<rect wh=\"1\"/>{}", rep("<if test=\"1\">", n_us), rep("</if>", n_us)), n + 1),
        "nest-specs" => (format!("{}<rect wh=\"1\"/>{}", rep("<specs>", n_us), rep("</specs>", n_us)), n + 1),
        "siblings-rect" => (format!("<svg>{}</svg>", rep("<rect wh=\"1\"/>", n_us)), n + 1),
        "siblings-text-content" => (format!("<svg>{}</svg>", rep("<text>hi</text>", n_us)), 2 * n + 1),
        "siblings-g" => (format!("<svg>{}</svg>", rep("<g><rect wh=\"1\"/></g>", n_us)), 2 * n + 1),
        "attr-count" => {
            let attrs: String = (0..n_us).map(|i| format!(" a{i}=\"{i}\"")).collect();
            (format!("<rect wh=\"1\"{attrs}/>"), 1)
        }
        "attr-value-length" => (format!("<rect wh=\"1\" a=\"{}\" class=\"{}\"/>", rep("v", n_us), rep("c ", n_us)), 1),
        "text-length" => (format!("<rect wh=\"1\" text=\"{}\"/>", rep("t", n_us)), 1),
        "text-lines" => (format!("<rect wh=\"1\" text=\"{}\"/>", rep("l\\n", n_us)), 1),
        "path-segments" => (format!("<path d=\"M0 0{}\"/>", rep(" l1 1", n_us)), 1),
        "path-after-closepath" => (format!("<path d=\"M0 0 h1 z{}\"/>", rep(" 5", n_us)), 1),
        "points-length" => (format!("<polyline points=\"{}\"/>", rep("1 2 ", n_us)), 1),
        "transform-list" => (format!("<rect wh=\"1\" transform=\"{}\"/>", rep("translate(1) ", n_us)), 1),
        "reuse-chain" => {
            let mut s = String::from("<specs><rect id=\"t0\" wh=\"1\"/>");
            for i in 1..=n_us {
                s.push_str(&format!("<reuse id=\"t{i}\" href=\"#t{}\"/>", i - 1));
            }
            s.push_str(&format!("</specs><reuse href=\"#t{n_us}\"/>"));
            // each reuse inside <specs> is itself instantiated there: the document asks for 1+2+..+n expansions
            (s, n * (n + 1) / 2 + 2 * n + 2)
        }
        "use-chain" => {
            let mut s = String::from("<defs><rect id=\"t0\" wh=\"1\"/>");
            for i in 1..=n_us {
                s.push_str(&format!("<use id=\"t{i}\" href=\"#t{}\"/>", i - 1));
            }
            s.push_str(&format!("</defs><rect xy=\"#t{n_us}|h\" wh=\"1\"/>"));
            (s, n + 3)
        }
        "var-chain-reverse" => {
            // each variable refers to one defined later (so the reference stays unexpanded until used)
            let mut s = String::new();
            for i in (1..=n_us).rev() {
                s.push_str(&format!("<var v{i}=\"$v{}\"/>", i - 1));
            }
            s.push_str(&format!("<var v0=\"1\"/><rect wh=\"{{{{$v{n_us}}}}}\"/>"));
            (s, n + 2)
        }
        "prev-chain" => (format!("<rect wh=\"1\"/>{}", rep("<rect xy=\"^|h\" wh=\"1\"/>", n_us)), n + 1),
        "forward-ref-chain" => {
            let mut s = String::new();
            for i in 0..n_us {
                s.push_str(&format!("<rect id=\"f{i}\" xy=\"#f{}|h\" wh=\"1\"/>", i + 1));
            }
            s.push_str(&format!("<rect id=\"f{n_us}\" wh=\"1\"/>"));
            (s, n + 1)
        }
        "forward-ref-nested-groups" => {
            if n > 64 {
                return None;
            }
            (format!("{}<rect wh=\"1\"/><rect xy=\"#z|h\" wh=\"1\"/>{}<rect id=\"z\" wh=\"1\"/>", rep("<g><rect wh=\"1\"/>", n_us), rep("</g>", n_us)), 2 * n + 3)
        }
        "loop-nest" => {
            if n > 1000 {
                return None;
            }
            (format!("<loop count=\"{n}\"><loop count=\"{n}\"><rect wh=\"1\"/></loop></loop>"), n * n + n + 1)
        }
        "loop-count" => (format!("<loop count=\"{n}\"><rect wh=\"1\"/></loop>"), n.min(1001) + 1),
        "for-list" => (format!("<for var=\"q\" data=\"{}1\"><rect wh=\"1\"/></for>", rep("1,", n_us)), n.min(1001) + 2),
        "var-growth" => (format!("<var v=\"a\"/><loop count=\"{}\"><var v=\"$v$v\"/></loop><rect wh=\"1\" text=\"$v\"/>", n.min(40)), n.min(40) + 3),
        "defaults-count" => (format!("<defaults>{}</defaults><rect wh=\"1\"/>", rep("<rect class=\"k\"/>", n_us)), n + 2),
        "comment-length" => (format!("<!--{}--><rect wh=\"1\" _=\"{}\"/>", rep("c", n_us), rep("d", n_us)), 1),
        "cdata-length" => (format!("<text><![CDATA[{}]]></text>", rep("<&>", n_us)), 2),
        "entity-count" => (format!("<rect wh=\"1\" text=\"{}\"/>", rep("&amp;&#65;", n_us)), 1),
        "class-count" => {
            let cls: String = (0..n_us).map(|i| format!("c{i} ")).collect();
            (format!("<svg><rect wh=\"1\" class=\"{cls}d-red d-grid-5\" text=\"t\"/></svg>"), 2)
        }
        "surround-list" => {
            let ids: String = (0..n_us).map(|i| format!("#s{i} ")).collect();
            let els: String = (0..n_us).map(|i| format!("<rect id=\"s{i}\" xy=\"{i} 0\" wh=\"1\"/>")).collect();
            (format!("{els}<rect surround=\"{ids}\"/>"), n + 1)
        }
        "connector-count" => {
            let mut s = String::from("<rect id=\"a\" wh=\"2\"/><rect id=\"b\" xy=\"9 9\" wh=\"2\"/>");
            s.push_str(&rep("<polyline start=\"#a\" end=\"#b\"/>", n_us));
            (s, n + 2)
        }
        "deep-unclosed" => (rep("<g>", n_us), n),
        // n variables written in reverse order, each wrapping the previous one in 62 parentheses
        "var-paren-indirection" => {
            let k = n_us.min(64);
            let mut s = String::new();
            for i in (1..=k).rev() {
                s.push_str(&format!("<var v{i}=\"{}$v{}{}\"/>", "(".repeat(62), i - 1, ")".repeat(62)));
            }
            s.push_str(&format!("<var v0=\"1\"/><rect wh=\"{{{{$v{k}}}}}\"/>"));
            (s, k as u64 + 2)
        }
        // n clip paths each clipped by the previous one
        "clip-chain" => {
            let mut s = String::from("<svg><clipPath id=\"c0\"><rect wh=\"10\"/></clipPath>");
            for i in 1..=n_us {
                s.push_str(&format!("<clipPath id=\"c{i}\" clip-path=\"url(#c{})\"><rect wh=\"10\"/></clipPath>", i - 1));
            }
            s.push_str(&format!("<rect wh=\"20\" clip-path=\"url(#c{n_us})\"/></svg>"));
            (s, 2 * n + 2)
        }
        // a local variable doubling at every level of nested groups / of a recursive reuse
        "var-doubling-groups" => {
            let k = n_us.min(90);
            (format!("<svg><g a=\"xx\">{}<rect wh=\"1\"/>{}</g></svg>", rep("<g a=\"$a$a\">", k), rep("</g>", k)), k as u64 + 2)
        }
        "var-doubling-reuse" => (format!("<svg><specs><g id=\"a\"><rect wh=\"1\"/><reuse href=\"#a\" s=\"$s$s\"/></g></specs><reuse href=\"#a\" s=\"{}\"/></svg>", "x".repeat(n_us.min(1000))), 110),
        // n variables in reverse order, each the sum of the previous one with itself
        "var-sum-tree" => {
            // (the nesting limit of expressions stops this at about 31 levels; 28 levels are 2^28 additions)
            let k = n_us.min(28);
            let mut s = String::new();
            for i in (1..=k).rev() {
                s.push_str(&format!("<var v{i}=\"$v{} + $v{}\"/>", i - 1, i - 1));
            }
            s.push_str(&format!("<var v0=\"1\"/><rect wh=\"{{{{$v{k}}}}}\"/>"));
            (s, k as u64 + 2)
        }
        // third review round: the bookkeeping of elements which wait for a forward reference
        "waiting-many-vars" => {
            // n variables in scope, one element which waits, n groups after it
            let vars: String = (0..n_us).map(|i| format!("<var v{i}=\"{i}\"/>")).collect();
            (format!("<svg>{vars}<rect xy=\"#z|h\" wh=\"1\"/>{}<rect id=\"z\" wh=\"1\"/></svg>", rep("<g><rect wh=\"1\"/></g>", n_us)), 3 * n + 3)
        }
        "waiting-then-comments" => (format!("<svg><rect xy=\"#z\" wh=\"1\"/>{}<rect id=\"z\" wh=\"1\"/></svg>", rep("<!--c--><defs/>", n_us)), n + 3),
        "waiting-many" => {
            // n variables in scope and n elements which all wait for the last one
            let vars: String = (0..n_us).map(|i| format!("<var v{i}=\"{i}\"/>")).collect();
            (format!("<svg>{vars}{}<rect id=\"z\" wh=\"1\"/></svg>", rep("<rect xy=\"#z|h\" wh=\"1\"/>", n_us)), 3 * n + 3)
        }
        "points-references" => (format!("<svg><rect id=\"a\" wh=\"5\"/><polyline points=\"{}\"/><path d=\"M {}\"/></svg>", rep("#a@c ", n_us), rep("#a@t:2.5 ", n_us)), 3),
        // a group which fails for good while an id inside it takes a new value at every attempt
        "retry-growing-id" => (format!("<svg><g id=\"t\"><rect wh=\"1\"/></g><rect id=\"b\" wh=\"1\"/>{}<g><rect id=\"a\" width=\"{{{{#b~w + 1}}}}\" height=\"1\"/><rect id=\"b\" width=\"{{{{#a~w}}}}\" height=\"1\"/><reuse id=\"r{{{{#b~w}}}}\" href=\"#t\"/><rect xy=\"#nope\" wh=\"1\"/></g></svg>", rep("<rect wh=\"1\"/>", n_us.min(64))), n.min(64) + 10),
        // fifth review round
        // entities whose replacement text is empty, each ten references to the previous one: 10^k steps for k declarations
        "entity-empty-fanout" => {
            // (at most 15 levels: the nesting of entities is itself bounded at 16)
            let k = n_us.min(15);
            let mut s = String::from("<!DOCTYPE svg [<!ENTITY e0 \"\">");
            for i in 1..=k {
                s.push_str(&format!("<!ENTITY e{i} \"{}\">", format!("&e{};", i - 1).repeat(10)));
            }
            s.push_str(&format!("]><svg><text>&e{k};</text><rect wh=\"1\"/></svg>"));
            (s, 10 * k as u64 + 3)
        }
        // n declared entities and n references to them
        "entity-many-declared" => {
            let decls: String = (0..n_us).map(|i| format!("<!ENTITY a{i} \"{i}\">")).collect();
            let refs: String = (0..n_us).map(|i| format!("&a{i}; ")).collect();
            (format!("<!DOCTYPE svg [{decls}]><svg><text>{refs}</text></svg>"), 2 * n + 3)
        }
        // one element which waits, then n variable assignments
        "waiting-then-vars" => {
            let vars: String = (0..n_us).map(|i| format!("<var v{i}=\"1\"/>")).collect();
            (format!("<svg><rect xy=\"#z\" wh=\"1\"/>{vars}<rect id=\"z\" wh=\"1\"/></svg>"), n + 3)
        }
        // a long indentation before n elements with text on the same line
        "indent-repeated" => (format!("<svg>\n{}{}</svg>", " ".repeat(n_us), rep("<rect wh=\"1\" text=\"a\"/>", n_us)), 2 * n + 3),
        // n nested groups, each holding a shape with text content which waits for an element written after them all
        // (beyond the depth limit this is an error at once, however often the shapes fail)
        "nest-g-waiting-content-shape" => (format!("<svg>{}{}<rect id=\"t\" wh=\"1\"/></svg>", rep("<g><rect wh=\"2\" xy=\"#t|h\">x</rect>", n_us), rep("</g>", n_us)), 4 * n + 3),
        // a polyline of n points referenced n times
        "points-box-referenced" => (format!("<svg><polyline id=\"p\" points=\"{}\"/>{}</svg>", rep("1 2 ", n_us), rep("<rect xy=\"#p@tl\" wh=\"1\"/>", n_us)), 2 * n + 3),
        // templates in <specs> which each reuse the previous one twice: 2^k instances for 2k elements
        "specs-double-reuse" => {
            let k = n_us.min(40);
            let mut s = String::from("<svg><specs><g id=\"a0\"><rect wh=\"1\"/></g>");
            for i in 1..=k {
                s.push_str(&format!("<g id=\"a{i}\"><reuse href=\"#a{}\"/><reuse href=\"#a{}\"/></g>", i - 1, i - 1));
            }
            s.push_str("</specs><rect wh=\"1\"/></svg>");
            (s, 3 * k as u64 + 3)
        }
        "many-roots" => (rep("<svg><rect wh=\"1\"/></svg>", n_us), 2 * n),
        _ => return None,
    })
}

/// Ladder cases ordered by (family, limits, rung); `ladder_groups` gives the index range of each
/// (family, limits) ladder so that a ladder can be abandoned at its first abort/hang (the first
/// failing rung is the witness; higher rungs of a monotone ladder add nothing but waiting time).
fn ladder_cases(tier: Tier) -> Vec<Case> {
    let mut v = Vec::new();
    let max_work: u64 = tier.pick(100_000, 5_000_000);
    for f in LADDERS {
        if *f == "loop-defaults" && tier == Tier::Quick {
            continue; // a quadratic cost: the first rung beyond the watchdog costs about 25 s of one worker (thorough tier only)
        }
        for (li, cfg) in [Cfg::plain(), small_limits(), Cfg { loop_limit: 1, var_limit: 1, depth_limit: 1, ..Cfg::plain() }].into_iter().enumerate() {
            for n in rungs(tier) {
                if li > 0 && n > 4096 {
                    continue;
                }
                if let Some((doc, work)) = ladder_doc(f, n) {
                    if work > max_work {
                        continue; // keeps the tier's wall time bounded; the ladder watchdog below scales with requested work
                    }
                    v.push(Case { doc: doc.into_bytes(), cfg: cfg.clone(), work: Some(work), label: format!("{f}/{n}/limits{li}"), expr_direct: false });
                }
            }
        }
    }
    v
}

fn ladder_groups(cases: &[Case]) -> Vec<(usize, usize)> {
    let key = |c: &Case| {
        let mut p = c.label.split('/');
        (p.next().unwrap_or("").to_string(), p.nth(1).unwrap_or("").to_string())
    };
    let mut out = Vec::new();
    let mut start = 0;
    for i in 1..=cases.len() {
        if i == cases.len() || key(&cases[i]) != key(&cases[start]) {
            out.push((start, i - start));
            start = i;
        }
    }
    out
}

// ------------------------------------------------------------------ worker (subprocess)

fn run_case(c: &Case) -> Result<(bool, u64), String> {
    // Ok((transform_ok, element_evals)) or Err(panic message)
    if c.expr_direct {
        let s = String::from_utf8_lossy(&c.doc).to_string();
        let r = std::panic::catch_unwind(|| svgdx::verif::eval_attr_probe(&s, &[("v", "3")], 0));
        return match r {
            Ok((r, _)) => Ok((r.is_ok(), 0)),
            Err(p) => Err(panic_text(p)),
        };
    }
    let (out, probe) = run_probe(&c.doc, &c.cfg);
    match out {
        Outcome::Panic(p) => Err(p),
        o => Ok((o.is_ok(), probe.map(|p| p.element_evals).unwrap_or(0))),
    }
}

fn panic_text(p: Box<dyn std::any::Any + Send>) -> String {
    if let Some(s) = p.downcast_ref::<&str>() {
        s.to_string()
    } else if let Some(s) = p.downcast_ref::<String>() {
        s.clone()
    } else {
        "panic".into()
    }
}

thread_local! {
    static LAST_PANIC_LOC: std::cell::RefCell<String> = const { std::cell::RefCell::new(String::new()) };
}

/// `vcheck worker-c01 <tier> <space|ladder> <start> <count> <careful 0|1>`
pub fn worker(args: &[String]) -> i32 {
    let tier = if args[0] == "thorough" { Tier::Thorough } else { Tier::Quick };
    let space = args[1].clone();
    let start: usize = args[2].parse().unwrap();
    let count: usize = args[3].parse().unwrap();
    let careful = args[4] == "1";
    std::panic::set_hook(Box::new(|info| {
        let loc = info.location().map(|l| format!("{}:{}", l.file(), l.line())).unwrap_or_default();
        LAST_PANIC_LOC.with(|l| *l.borrow_mut() = loc);
    }));
    let ladders = if space == "ladder" { ladder_cases(tier) } else { vec![] };
    // the transform runs on a thread with a 2 MiB stack: the smallest a library caller realistically provides
    let h = std::thread::Builder::new()
        .stack_size(2 * 1024 * 1024)
        .spawn(move || {
            let out = std::io::stdout();
            for idx in start..start + count {
                let case = if space == "ladder" { ladders.get(idx).cloned() } else { space_case(&space, idx, tier) };
                let Some(case) = case else { break };
                if careful {
                    let mut o = out.lock();
                    let _ = writeln!(o, "S {idx}");
                    let _ = o.flush();
                }
                match run_case(&case) {
                    Err(msg) => {
                        let loc = LAST_PANIC_LOC.with(|l| l.borrow().clone());
                        let mut o = out.lock();
                        let _ = writeln!(o, "P {idx} {loc} {}", msg.replace('\n', " "));
                    }
                    Ok((ok, evals)) => {
                        if let Some(w) = case.work {
                            if evals > 8 * (w + 8) {
                                let mut o = out.lock();
                                let _ = writeln!(o, "W {idx} {evals} {w}");
                            }
                        }
                        if careful {
                            let mut o = out.lock();
                            let _ = writeln!(o, "R {idx} {}", if ok { "ok" } else { "err" });
                        }
                    }
                }
                if !careful && (idx - start) % 256 == 255 {
                    let mut o = out.lock();
                    let _ = writeln!(o, "H {idx}");
                    let _ = o.flush();
                }
            }
            let mut o = out.lock();
            let _ = writeln!(o, "D");
            let _ = o.flush();
        })
        .unwrap();
    let _ = h.join();
    0
}

// ------------------------------------------------------------------ parent: sandbox driver

#[derive(Debug, Clone)]
enum Event {
    Panic { idx: usize, msg: String },
    Work { idx: usize, evals: u64, work: u64 },
    Abort { idx: usize, how: String },
    Hang { idx: usize, secs: f64 },
}

struct RangeResult {
    events: Vec<Event>,
    /// first index that was NOT completed (== end when everything ran)
    completed_to: usize,
    died: Option<String>,
    last_started: Option<usize>,
    results_ok: u64,
}

fn run_range(tier: Tier, space: &str, start: usize, count: usize, careful: bool, stall: Duration) -> RangeResult {
    let exe = std::env::current_exe().unwrap();
    let mut child = Command::new(exe)
        .args(["worker-c01", tier.name(), space, &start.to_string(), &count.to_string(), if careful { "1" } else { "0" }])
        .stdin(Stdio::null())
        .stdout(Stdio::piped())
        .stderr(Stdio::null())
        .spawn()
        .expect("spawn worker");
    let stdout = child.stdout.take().unwrap();
    let last = Arc::new(Mutex::new(Instant::now()));
    let done = Arc::new(AtomicBool::new(false));
    let killed = Arc::new(AtomicBool::new(false));
    let pid = child.id();
    let (l2, d2, k2) = (last.clone(), done.clone(), killed.clone());
    let wd = std::thread::spawn(move || {
        while !d2.load(Ordering::Relaxed) {
            std::thread::sleep(Duration::from_millis(100));
            if l2.lock().unwrap().elapsed() > stall {
                k2.store(true, Ordering::Relaxed);
                unsafe {
                    libc::kill(pid as i32, libc::SIGKILL);
                }
                break;
            }
        }
    });
    let mut events = Vec::new();
    let mut completed_to = start;
    let mut finished = false;
    let mut last_started = None;
    let mut results_ok = 0;
    let mut started_at = Instant::now();
    for line in BufReader::new(stdout).lines() {
        let Ok(line) = line else { break };
        *last.lock().unwrap() = Instant::now();
        let mut it = line.splitn(3, ' ');
        match it.next() {
            Some("H") => completed_to = it.next().and_then(|s| s.parse::<usize>().ok()).map(|i| i + 1).unwrap_or(completed_to),
            Some("S") => {
                last_started = it.next().and_then(|s| s.parse().ok());
                started_at = Instant::now();
            }
            Some("R") => {
                if let Some(i) = it.next().and_then(|s| s.parse::<usize>().ok()) {
                    completed_to = i + 1;
                    if it.next() == Some("ok") {
                        results_ok += 1;
                    }
                }
            }
            Some("P") => {
                let idx = it.next().and_then(|s| s.parse().ok()).unwrap_or(0);
                events.push(Event::Panic { idx, msg: it.next().unwrap_or("").to_string() });
            }
            Some("W") => {
                let idx = it.next().and_then(|s| s.parse().ok()).unwrap_or(0);
                let rest = it.next().unwrap_or("");
                let mut p = rest.split(' ');
                let evals = p.next().and_then(|s| s.parse().ok()).unwrap_or(0);
                let work = p.next().and_then(|s| s.parse().ok()).unwrap_or(0);
                events.push(Event::Work { idx, evals, work });
            }
            Some("D") => finished = true,
            _ => {}
        }
    }
    done.store(true, Ordering::Relaxed);
    let status = child.wait().ok();
    let _ = wd.join();
    let mut died = None;
    if finished {
        completed_to = start + count;
    } else if killed.load(Ordering::Relaxed) {
        died = Some(format!("no progress for {:.0}s (killed by the watchdog)", stall.as_secs_f64()));
        if let (true, Some(i)) = (careful, last_started) {
            events.push(Event::Hang { idx: i, secs: started_at.elapsed().as_secs_f64() });
            completed_to = i + 1;
        }
    } else {
        use std::os::unix::process::ExitStatusExt;
        let how = match status {
            Some(s) => match s.signal() {
                Some(sig) => format!("killed by signal {sig}"),
                None => format!("exit status {:?}", s.code()),
            },
            None => "unknown".into(),
        };
        died = Some(how.clone());
        if let (true, Some(i)) = (careful, last_started) {
            events.push(Event::Abort { idx: i, how });
            completed_to = i + 1;
        }
    }
    RangeResult { events, completed_to, died, last_started, results_ok }
}

/// Run a whole range; on death / stall re-run the unfinished window carefully to pin the case, then continue.
fn run_range_robust(tier: Tier, space: &str, start: usize, count: usize, always_careful: bool, stall: Duration, machinery: &Mutex<Vec<String>>) -> Vec<Event> {
    let mut events = Vec::new();
    let end = start + count;
    let mut at = start;
    let mut guard = 0;
    while at < end {
        guard += 1;
        if guard > 200 {
            machinery.lock().unwrap().push(format!("space {space}: too many worker restarts in range {start}..{end}"));
            break;
        }
        if events.iter().filter(|e| matches!(e, Event::Abort { .. } | Event::Hang { .. })).count() >= 3 {
            break;
        }
        let r = run_range(tier, space, at, end - at, always_careful, stall);
        events.extend(r.events.clone());
        if r.died.is_none() {
            break;
        }
        if always_careful {
            // the offending case has been recorded (Abort/Hang event); continue after it
            if r.completed_to <= at {
                machinery.lock().unwrap().push(format!("space {space}: worker died before starting a case at {at}: {:?}", r.died));
                break;
            }
            at = r.completed_to;
            continue;
        }
        // normal mode: the culprit is in [completed_to, completed_to + 256]; re-run that window carefully
        let w_start = r.completed_to;
        let w_len = (end - w_start).min(257);
        let c = run_range(tier, space, w_start, w_len, true, stall);
        events.extend(c.events.iter().filter(|e| matches!(e, Event::Abort { .. } | Event::Hang { .. })).cloned());
        if c.died.is_none() {
            // did not reproduce: a transient failure of the worker is a machinery problem, not a verdict
            machinery.lock().unwrap().push(format!("space {space}: worker death at ~{w_start} ({:?}) did not reproduce in careful mode", r.died));
            at = w_start + w_len;
        } else if c.completed_to <= w_start && c.last_started.is_none() {
            machinery.lock().unwrap().push(format!("space {space}: careful worker died before starting a case at {w_start}"));
            break;
        } else {
            at = c.completed_to;
        }
    }
    events
}

fn describe(space: &str, idx: usize, tier: Tier, ladders: &[Case]) -> (String, Value, String) {
    let case = if space == "ladder" { ladders.get(idx).cloned() } else { space_case(space, idx, tier) };
    match case {
        Some(c) => {
            let input = String::from_utf8_lossy(&c.doc).to_string();
            let fam = if space == "ladder" { c.label.split('/').next().unwrap_or("").to_string() } else { c.label.clone() };
            (
                fam,
                json!({"space": space, "index": idx, "input": clip(&input, 4000), "input_len": c.doc.len(), "config": c.cfg.to_json(), "label": c.label, "expr_direct": c.expr_direct, "tier": tier.name()}),
                clip(&input, 300),
            )
        }
        None => ("?".into(), json!({"space": space, "index": idx}), String::new()),
    }
}

// ------------------------------------------------------------------ front-end legs

fn frontend_docs() -> Vec<(String, Vec<u8>)> {
    let mut v: Vec<(String, Vec<u8>)> = vec![
        ("empty".into(), b"".to_vec()),
        ("ok-rect".into(), b"<svg><rect wh=\"5\" text=\"t\"/></svg>".to_vec()),
        ("fragment".into(), b"<rect wh=\"5\"/>".to_vec()),
        ("real-svg".into(), b"<svg xmlns=\"http://www.w3.org/2000/svg\"><rect/></svg>".to_vec()),
        ("unclosed".into(), b"<svg><rect wh=\"5\">".to_vec()),
        ("mismatched".into(), b"<svg></g>".to_vec()),
        ("bad-attr".into(), b"<svg><rect wh=5/></svg>".to_vec()),
        ("non-utf8-name".into(), b"<r\xFFct/>".to_vec()),
        ("non-utf8-comment".into(), b"<svg xmlns=\"http://www.w3.org/2000/svg\"><!-- \xFF --></svg>".to_vec()),
        ("non-utf8-text".into(), b"<svg><text>\xFF\xFE</text></svg>".to_vec()),
        ("bom".into(), b"\xEF\xBB\xBF<svg><rect wh=\"5\"/></svg>".to_vec()),
        ("crlf".into(), b"<svg>\r\n<rect wh=\"5\"/>\r\n</svg>\r\n".to_vec()),
        ("unknown-ref".into(), b"<svg><rect xy=\"#nope|h\" wh=\"5\"/></svg>".to_vec()),
        ("bad-expr".into(), b"<svg><rect wh=\"{{1+}}\"/></svg>".to_vec()),
        ("closepath-number".into(), b"<path d=\"M0 0 z 5\"/>".to_vec()),
        ("config-bad".into(), b"<config nosuch=\"1\"/>".to_vec()),
        ("loop-over-limit".into(), b"<loop count=\"100000\"><rect wh=\"1\"/></loop>".to_vec()),
        ("only-text".into(), b"just some text".to_vec()),
        ("pi-doctype".into(), b"<?xml version=\"1.0\"?><!DOCTYPE svg><svg><rect wh=\"1\"/></svg>".to_vec()),
        ("null-byte".into(), b"<svg><rect wh=\"1\" a=\"\x00\"/></svg>".to_vec()),
    ];
    for (f, n) in [("expr-parens", 20000u64), ("expr-unary-minus", 20000), ("nest-g", 5000), ("path-after-closepath", 64), ("expr-nested-calls", 5000), ("deep-unclosed", 50000), ("text-lines", 4096), ("var-chain-reverse", 2000), ("reuse-chain", 500), ("loop-nest", 40),
        // every nesting construct just beyond the default depth limit: the server answers from a 2 MiB thread stack
        ("nest-a", 150), ("nest-defs", 150), ("nest-svg", 150), ("nest-text-tspan", 150), ("nest-symbol", 150), ("nest-loop", 150), ("nest-if", 150), ("nest-specs", 150), ("nest-g", 150), ("use-chain", 150), ("reuse-chain", 150), ("forward-ref-nested-groups", 90), ("var-paren-indirection", 3), ("var-paren-indirection", 16), ("clip-chain", 900), ("var-doubling-groups", 40), ("var-doubling-reuse", 2)] {
        if let Some((d, _)) = ladder_doc(f, n) {
            v.push((format!("ladder-{f}-{n}"), d.into_bytes()));
        }
    }
    v
}

fn run_cli(bin: &str, doc: &[u8], file_mode: bool, secs: u64, tmp: &std::path::Path, k: usize) -> Result<(Option<i32>, Vec<u8>, Vec<u8>), String> {
    let mut cmd = Command::new(bin);
    let inp = tmp.join(format!("in{k}.xml"));
    let outp = tmp.join(format!("out{k}.svg"));
    if file_mode {
        std::fs::write(&inp, doc).map_err(|e| e.to_string())?;
        let _ = std::fs::remove_file(&outp);
        cmd.arg(&inp).arg("-o").arg(&outp);
    }
    let mut child = cmd.stdin(Stdio::piped()).stdout(Stdio::piped()).stderr(Stdio::piped()).spawn().map_err(|e| e.to_string())?;
    {
        let mut si = child.stdin.take().unwrap();
        if !file_mode {
            let d = doc.to_vec();
            std::thread::spawn(move || {
                let _ = si.write_all(&d);
            });
        }
    }
    // drain both pipes concurrently (a full pipe would block the child and look like a hang)
    let mut so = child.stdout.take().unwrap();
    let mut se = child.stderr.take().unwrap();
    let t_out = std::thread::spawn(move || {
        let mut b = Vec::new();
        let _ = so.read_to_end(&mut b);
        b
    });
    let t_err = std::thread::spawn(move || {
        let mut b = Vec::new();
        let _ = se.read_to_end(&mut b);
        b
    });
    let start = Instant::now();
    let status = loop {
        match child.try_wait() {
            Ok(Some(st)) => break st,
            Ok(None) => {
                if start.elapsed() > Duration::from_secs(secs) {
                    let _ = child.kill();
                    let _ = child.wait();
                    return Err(format!("no exit within {secs}s"));
                }
                std::thread::sleep(Duration::from_millis(5));
            }
            Err(e) => return Err(e.to_string()),
        }
    };
    let out_bytes = t_out.join().unwrap_or_default();
    let err_bytes = t_err.join().unwrap_or_default();
    use std::os::unix::process::ExitStatusExt;
    if let Some(sig) = status.signal() {
        return Err(format!("killed by signal {sig}"));
    }
    let stdout = if file_mode { std::fs::read(&outp).unwrap_or_default() } else { out_bytes };
    Ok((status.code(), stdout, err_bytes))
}

fn http_post(port: u16, path: &str, body: &[u8], secs: u64) -> Result<(u16, Vec<u8>), String> {
    let mut s = std::net::TcpStream::connect(("127.0.0.1", port)).map_err(|e| format!("connect: {e}"))?;
    s.set_read_timeout(Some(Duration::from_secs(secs))).ok();
    s.set_write_timeout(Some(Duration::from_secs(secs))).ok();
    let head = format!("POST {path} HTTP/1.1\r\nHost: localhost\r\nContent-Type: text/plain\r\nContent-Length: {}\r\nConnection: close\r\n\r\n", body.len());
    s.write_all(head.as_bytes()).map_err(|e| format!("write: {e}"))?;
    s.write_all(body).map_err(|e| format!("write body: {e}"))?;
    let mut resp = Vec::new();
    s.read_to_end(&mut resp).map_err(|e| format!("read: {e}"))?;
    let text = String::from_utf8_lossy(&resp);
    let status: u16 = text.split(' ').nth(1).and_then(|c| c.parse().ok()).ok_or_else(|| format!("bad response: {}", clip(&text, 100)))?;
    let body_at = resp.windows(4).position(|w| w == b"\r\n\r\n").map(|i| i + 4).unwrap_or(resp.len());
    Ok((status, resp[body_at..].to_vec()))
}

pub struct Server {
    child: std::process::Child,
    pub port: u16,
}

impl Server {
    pub fn start(bin: &str) -> Result<Server, String> {
        for attempt in 0..20u16 {
            let port = 34000 + ((std::process::id() as u16).wrapping_mul(7).wrapping_add(attempt * 13)) % 20000;
            let mut child = Command::new(bin).args(["--port", &port.to_string()]).stdin(Stdio::null()).stdout(Stdio::null()).stderr(Stdio::null()).spawn().map_err(|e| e.to_string())?;
            for _ in 0..100 {
                std::thread::sleep(Duration::from_millis(30));
                if std::net::TcpStream::connect(("127.0.0.1", port)).is_ok() {
                    return Ok(Server { child, port });
                }
                if let Ok(Some(_)) = child.try_wait() {
                    break;
                }
            }
            let _ = child.kill();
            let _ = child.wait();
        }
        Err("could not start svgdx-server".into())
    }
    pub fn alive(&mut self) -> bool {
        matches!(self.child.try_wait(), Ok(None))
    }
}

impl Drop for Server {
    fn drop(&mut self) {
        let _ = self.child.kill();
        let _ = self.child.wait();
    }
}

pub const SVGDX_BIN: &str = "/verif/target/repo/debug/svgdx";
pub const SERVER_BIN: &str = "/verif/target/repo/debug/svgdx-server";

// ------------------------------------------------------------------ environment answers

/// fails the `fail_at`-th write call (all byte positions inside one call are equivalent)
struct FailingWriter {
    fail_at: usize,
    written: usize,
}
impl Write for FailingWriter {
    fn write(&mut self, buf: &[u8]) -> std::io::Result<usize> {
        if self.written >= self.fail_at {
            return Err(std::io::Error::new(std::io::ErrorKind::Other, "injected write failure"));
        }
        self.written += 1;
        Ok(buf.len())
    }
    fn flush(&mut self) -> std::io::Result<()> {
        Ok(())
    }
}

struct ChunkReader<'a> {
    data: &'a [u8],
    pos: usize,
    chunk: usize,
}
impl Read for ChunkReader<'_> {
    fn read(&mut self, buf: &mut [u8]) -> std::io::Result<usize> {
        let n = self.chunk.min(buf.len()).min(self.data.len() - self.pos);
        buf[..n].copy_from_slice(&self.data[self.pos..self.pos + n]);
        self.pos += n;
        Ok(n)
    }
}

// ------------------------------------------------------------------ run

pub fn run(tier: Tier) -> i32 {
    let mut rep = Report::new("C01", tier, "exploration");
    rep.set("rule", json!(format!("(1) all strings of <= {} XML tokens from a {}-token alphabet (tags of every element family, attribute openers, quotes, comment/CDATA/PI delimiters, entities, a raw 0xFF byte) under 2 configurations; (2) all strings of <= {} tokens of the expression alphabet ({} tokens) through the attribute evaluator and <= {} inside carrier documents; <= {} tokens of the path alphabet ({}); <= {} tokens of the relspec alphabet ({}) in each of {} attribute carriers (every attribute the code parses by hand); (2b) reference graphs: every sequence of <= 5 (thorough 7) items from 10 use elements over ids a/b and ^, every sequence of <= 3 (thorough 5) items from 24 reference-bearing elements (positions, clip paths, surround/inside, use/reuse, self and mutual references), and every chain of <= 3 (thorough 4) named use/reuse elements with every href assignment among ^ and the ids x optional separating rects x use|reuse x final probe; (3) {} shape ladders (expression nesting, XML nesting per container kind, sibling/attribute/text/path/points/transform lengths, reuse/use/variable/^ chains, forward-reference chains, loops, growth, comments/CDATA/entities, class/surround/connector counts, unclosed and repeated roots) with rungs 1,2,4..2^{} under default, small and minimal limits. Every case runs in a sandboxed worker subprocess on a 2 MiB-stack thread: a panic (reported with its location), death by signal, a stall beyond the watchdog, or element evaluations above 8 x (requested work + 8) is a violation; a dying worker's window is re-run case by case to pin the input. (4) 30 outcome-class representatives and deep ladder rungs through the svgdx command (stdin->stdout and file->file: exit status 0/1, message on failure, no signal, within the watchdog) and through a live svgdx-server (status 200/400, server still answers afterwards). (5) for 40 documents every position at which the writer fails and reads delivered in chunks of 1/2/7 bytes. Non-trivial counts distinct cases that ran to a verdict.", tier.pick(4, 5), XML_TOKENS.len(), tier.pick(4, 5), EXPR_TOKENS.len(), tier.pick(3, 4), tier.pick(4, 5), PATH_TOKENS.len(), tier.pick(3, 4), REL_TOKENS.len(), CARRIERS.len(), LADDERS.len(), tier.pick(12, 17))));
    rep.set("also_later", json!("Rounds 3-5 added ladders: elements waiting with many variables / comments / many waiting elements, references inside points, a retry with a growing id, templates reusing each other twice, entities with empty replacement text fanning out, many declared entities, many assignments after a waiting element, a long indentation repeated per element, a many-point polyline referenced many times."));
    let machinery: Mutex<Vec<String>> = Mutex::new(Vec::new());
    let stall = Duration::from_secs(tier.pick(10, 30));
    let evaluated = AtomicU64::new(0);

    // ---- token spaces, split into chunks and run 16 at a time
    let sp = spaces(tier);
    let mut chunks: Vec<(String, usize, usize)> = Vec::new();
    for s in &sp {
        let step = 40_000;
        let mut at = 0;
        while at < s.len {
            let n = step.min(s.len - at);
            chunks.push((s.name.clone(), at, n));
            at += n;
        }
    }
    let all_events: Mutex<Vec<(String, Event)>> = Mutex::new(Vec::new());
    let fatal_per_space: Mutex<std::collections::HashMap<String, usize>> = Mutex::new(std::collections::HashMap::new());
    let skipped = AtomicU64::new(0);
    {
        use rayon::prelude::*;
        chunks.par_iter().for_each(|(name, start, n)| {
            // a space that has already produced several aborts / hangs is not explored further: each one costs
            // a watchdog period, and the verdict (exit 1) no longer depends on the rest
            if fatal_per_space.lock().unwrap().get(name).copied().unwrap_or(0) >= 3 {
                skipped.fetch_add(*n as u64, Ordering::Relaxed);
                return;
            }
            let evs = run_range_robust(tier, name, *start, *n, false, stall, &machinery);
            let fatal = evs.iter().filter(|e| matches!(e, Event::Abort { .. } | Event::Hang { .. })).count();
            if fatal > 0 {
                *fatal_per_space.lock().unwrap().entry(name.clone()).or_insert(0) += fatal;
            }
            evaluated.fetch_add(*n as u64, Ordering::Relaxed);
            let mut g = all_events.lock().unwrap();
            for e in evs {
                g.push((name.clone(), e));
            }
        });
    }
    // ---- ladders: always careful, one worker per family slice
    let ladders = ladder_cases(tier);
    let lchunks = ladder_groups(&ladders);
    {
        use rayon::prelude::*;
        lchunks.par_iter().for_each(|(start, n)| {
            // one worker per ladder; it is abandoned at its first abort / hang
            // the watchdog allows 120 us per unit of REQUESTED work (measured: ~17 us per element, linear)
            // on top of the base, so a large but proportional document is never reported as a hang
            let maxwork = ladders[*start..*start + *n].iter().filter_map(|c| c.work).max().unwrap_or(0);
            let stall = stall + Duration::from_micros(maxwork * 120);
            let r = run_range(tier, "ladder", *start, *n, true, stall);
            if r.died.is_some() && r.last_started.is_none() {
                machinery.lock().unwrap().push(format!("ladder worker for cases {start}.. died before starting: {:?}", r.died));
            }
            let evs = r.events;
            evaluated.fetch_add((r.completed_to - *start) as u64, Ordering::Relaxed);
            let mut g = all_events.lock().unwrap();
            for e in evs {
                g.push(("ladder".to_string(), e));
            }
        });
    }
    let total_cases = evaluated.load(Ordering::Relaxed);
    let mut events = all_events.into_inner().unwrap();
    events.sort_by_key(|(s, e)| {
        (s.clone(), match e {
            Event::Panic { idx, .. } | Event::Work { idx, .. } | Event::Abort { idx, .. } | Event::Hang { idx, .. } => *idx,
        })
    });
    for (space, e) in &events {
        let (idx, clause, detail) = match e {
            Event::Panic { idx, msg } => (*idx, "panic", format!("panic at {msg}")),
            Event::Work { idx, evals, work } => (*idx, "work-not-proportional", format!("{evals} element evaluations for requested work {work} (bound 8 x (work + 8) = {})", 8 * (work + 8))),
            Event::Abort { idx, how } => (*idx, "abort", format!("the worker process died: {how}")),
            Event::Hang { idx, secs } => (*idx, "hang", format!("no result after {secs:.1}s (watchdog {}s + 120us per unit of requested work)", stall.as_secs())),
        };
        let (fam, case, shown) = describe(space, idx, tier, &ladders);
        let sig = match e {
            Event::Panic { msg, .. } => format!("C01/panic/{}", msg.split(' ').next().unwrap_or("")),
            _ if space == "ladder" => format!("C01/ladder/{fam}/{}", if clause == "abort" || clause == "hang" { "abort-or-hang" } else { clause }),
            _ => format!("C01/{space}/{clause}/{idx}"),
        };
        rep.violations.push(Violation { clause: clause.into(), signature: sig, case, detail: format!("{detail}\ninput ({space} #{idx}): {shown}") });
    }
    rep.add("evaluations", total_cases);
    rep.add("distinct_nontrivial", total_cases.saturating_sub(events.len() as u64));
    rep.set("sandboxed_cases", json!(total_cases));
    if skipped.load(Ordering::Relaxed) > 0 {
        rep.set("exhaustive", json!(false));
        rep.set("cap_note", json!(format!("{} cases were skipped in spaces that had already produced 3 aborts / hangs (violations reported)", skipped.load(Ordering::Relaxed))));
    }
    rep.set("token_spaces", json!(sp.iter().map(|s| json!({"space": s.name, "cases": s.len})).collect::<Vec<_>>()));
    rep.set("ladder_cases", json!(ladders.len()));
    rep.sample(json!({"space": "xml", "index": 123456, "input": String::from_utf8_lossy(&space_case("xml", 123456, tier).map(|c| c.doc).unwrap_or_default())}));
    rep.sample(json!({"space": "rel3", "index": 4321, "input": String::from_utf8_lossy(&space_case("rel3", 4321, tier).map(|c| c.doc).unwrap_or_default())}));
    rep.sample(json!({"space": "ladder", "label": ladders[ladders.len() / 2].label, "input_len": ladders[ladders.len() / 2].doc.len()}));

    // ---- front-end legs
    let docs = frontend_docs();
    let tmp = std::path::PathBuf::from(format!("/verif/target/tmp-c01-{}", std::process::id()));
    let _ = std::fs::create_dir_all(&tmp);
    let fe: Mutex<Vec<Violation>> = Mutex::new(Vec::new());
    let fe_runs = AtomicU64::new(0);
    {
        use rayon::prelude::*;
        docs.par_iter().enumerate().for_each(|(k, (name, doc))| {
            for file_mode in [false, true] {
                let r = run_cli(SVGDX_BIN, doc, file_mode, stall.as_secs() * 5, &tmp, k);
                fe_runs.fetch_add(1, Ordering::Relaxed);
                // the library verdict comes from a fresh sandboxed process too (2 MiB stack thread)
                let lib = crate::props::c06::fresh_process(doc, &Cfg::default());
                let mk = |clause: &str, detail: String| Violation {
                    clause: clause.into(),
                    signature: format!("C01/cli/{clause}/{name}"),
                    case: json!({"leg": "cli", "name": name, "file_mode": file_mode, "input": clip(&String::from_utf8_lossy(doc), 2000)}),
                    detail,
                };
                match r {
                    Err(e) => fe.lock().unwrap().push(mk("abort-or-hang", format!("svgdx command ({}): {e}", if file_mode { "file->file" } else { "stdin->stdout" }))),
                    Ok((code, _out, err)) => {
                        if !matches!(code, Some(0) | Some(1)) {
                            fe.lock().unwrap().push(mk("exit-status", format!("exit status {code:?}; stderr {}", clip(&String::from_utf8_lossy(&err), 200))));
                        } else if code == Some(1) && err.is_empty() {
                            fe.lock().unwrap().push(mk("failure-without-message", "exit status 1 with empty stderr".into()));
                        } else if String::from_utf8_lossy(&err).contains("panicked at") {
                            fe.lock().unwrap().push(mk("panic", clip(&String::from_utf8_lossy(&err), 300)));
                        } else {
                            match &lib {
                                Err(e) => fe.lock().unwrap().push(mk("library-abort", format!("the library call died in its own process: {e}"))),
                                Ok(l) => {
                                    if (code == Some(0)) != l.is_ok() {
                                        fe.lock().unwrap().push(mk("cli-disagrees-with-library", format!("exit {code:?} but library gave {}", clip(&l.brief(), 200))));
                                    }
                                }
                            }
                        }
                    }
                }
            }
        });
    }
    match Server::start(SERVER_BIN) {
        Err(e) => machinery.lock().unwrap().push(e),
        Ok(mut srv) => {
            for (name, doc) in &docs {
                let r = http_post(srv.port, "/api/transform", doc, stall.as_secs() * 5);
                fe_runs.fetch_add(1, Ordering::Relaxed);
                let mk = |clause: &str, detail: String| Violation {
                    clause: clause.into(),
                    signature: format!("C01/server/{clause}/{name}"),
                    case: json!({"leg": "server", "name": name, "input": clip(&String::from_utf8_lossy(doc), 2000)}),
                    detail,
                };
                match r {
                    Err(e) => fe.lock().unwrap().push(mk("no-response", e)),
                    Ok((status, body)) => {
                        if !matches!(status, 200 | 400) {
                            fe.lock().unwrap().push(mk("http-status", format!("status {status}: {}", clip(&String::from_utf8_lossy(&body), 200))));
                        }
                    }
                }
                // liveness probe
                let alive = srv.alive() && http_post(srv.port, "/api/transform", b"<rect wh=\"1\"/>", 30).map(|r| r.0 == 200).unwrap_or(false);
                if !alive {
                    fe.lock().unwrap().push(mk("server-dead-after-request", "the server no longer answers".into()));
                    break;
                }
            }
        }
    }
    // ---- environment answers
    let mut env_docs: Vec<Vec<u8>> = docs.iter().take(20).map(|d| d.1.clone()).collect();
    let mut ex = crate::props::c06::examples_corpus_pub();
    ex.sort_by_key(|s| s.len());
    env_docs.extend(ex.into_iter().take(20).map(|s| s.into_bytes()));
    let env_runs = AtomicU64::new(0);
    {
        use rayon::prelude::*;
        env_docs.par_iter().enumerate().for_each(|(k, doc)| {
            let cfg = Cfg::default().to_tc();
            let reference = run_bytes(doc, &Cfg::default());
            // number of write calls of a successful run
            let full_len = match &reference {
                Outcome::Ok(_) => {
                    struct Counting(usize);
                    impl Write for Counting {
                        fn write(&mut self, b: &[u8]) -> std::io::Result<usize> {
                            self.0 += 1;
                            Ok(b.len())
                        }
                        fn flush(&mut self) -> std::io::Result<()> {
                            Ok(())
                        }
                    }
                    let mut w = Counting(0);
                    let mut rd = std::io::Cursor::new(doc.clone());
                    let _ = svgdx::transform_stream(&mut rd, &mut w, &cfg);
                    w.0.min(20_000)
                }
                _ => 0,
            };
            let mk = |clause: &str, detail: String| Violation {
                clause: clause.into(),
                signature: format!("C01/env/{clause}/doc{k}"),
                case: json!({"leg": "env", "doc": k, "input": clip(&String::from_utf8_lossy(doc), 1000)}),
                detail,
            };
            for fail_at in 0..full_len {
                let d = doc.clone();
                let c = cfg.clone();
                let r = std::panic::catch_unwind(move || {
                    let mut rd = std::io::Cursor::new(d);
                    let mut w = FailingWriter { fail_at, written: 0 };
                    svgdx::transform_stream(&mut rd, &mut w, &c).is_ok()
                });
                env_runs.fetch_add(1, Ordering::Relaxed);
                match r {
                    Err(_) => fe.lock().unwrap().push(mk("panic-on-write-failure", format!("writer failing at write call #{fail_at}"))),
                    Ok(true) => fe.lock().unwrap().push(mk("write-failure-swallowed", format!("write call #{fail_at} of {full_len} failed but the transform returned Ok"))),
                    Ok(false) => {}
                }
            }
            for chunk in [1usize, 2, 7] {
                let c = cfg.clone();
                let d = doc.clone();
                let r = std::panic::catch_unwind(move || {
                    let mut rd = BufReader::with_capacity(chunk.max(1), ChunkReader { data: &d, pos: 0, chunk });
                    let mut out = Vec::new();
                    svgdx::transform_stream(&mut rd, &mut out, &c).map(|_| out).map_err(|e| e.to_string())
                });
                env_runs.fetch_add(1, Ordering::Relaxed);
                match (r, &reference) {
                    (Err(_), _) => fe.lock().unwrap().push(mk("panic-on-short-read", format!("chunks of {chunk}"))),
                    (Ok(Ok(b)), Outcome::Ok(rb)) if b == *rb => {}
                    (Ok(Err(_)), Outcome::Err(_)) => {}
                    (Ok(x), y) => fe.lock().unwrap().push(mk("short-reads-change-result", format!("chunks of {chunk}: {:?} vs {}", x.map(|b| b.len()), clip(&y.brief(), 100)))),
                }
            }
        });
    }
    let _ = std::fs::remove_dir_all(&tmp);
    rep.add("evaluations", fe_runs.load(Ordering::Relaxed) + env_runs.load(Ordering::Relaxed));
    rep.add("distinct_nontrivial", fe_runs.load(Ordering::Relaxed) + env_runs.load(Ordering::Relaxed));
    rep.set("frontend_runs", json!(fe_runs.load(Ordering::Relaxed)));
    rep.set("environment_answer_runs", json!(env_runs.load(Ordering::Relaxed)));
    rep.violations.extend(fe.into_inner().unwrap());
    rep.machinery_errors.extend(machinery.into_inner().unwrap());
    rep.assume("stack size 2 MiB for library callers (the tokio worker / std::thread default); the CLI main thread has 8 MiB and is covered by the CLI leg");
    rep.assume("time proportional to requested work is approximated by the deterministic element-evaluation counter (bound 8 x (work + 8)) plus a coarse watchdog");
    rep.finish()
}

pub fn replay_case(case: &Value) -> Option<Violation> {
    // re-run the recorded case in a fresh sandboxed worker, carefully
    let space = case["space"].as_str()?;
    let idx = case["index"].as_u64()? as usize;
    let tier = if case["tier"].as_str() == Some("thorough") { Tier::Thorough } else { Tier::Quick };
    let r = run_range(tier, space, idx, 1, true, Duration::from_secs(20));
    r.events.first().map(|e| Violation { clause: "replay".into(), signature: "C01/replay".into(), case: case.clone(), detail: format!("{e:?}") })
}
