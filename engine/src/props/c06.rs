//! C06 — Determinism.
//!
//! The only places hidden nondeterminism can enter a transform are (a) hash-set
//! iteration order and (b) the PRNG / wall clock.  (a) is put behind the
//! `iteration_order` seam: the explorer canonicalises every list the subject
//! obtains from a hash collection and then drives it through EVERY permutation;
//! (b) is checked by repetition in-process and in fresh processes.

use crate::common::*;
use serde_json::{json, Value};
use std::cell::RefCell;
use std::io::Write;
use std::process::{Command, Stdio};
use std::sync::Arc;

thread_local! {
    /// (permutation index per hook call, observed list length per hook call)
    static PLAN: RefCell<(Vec<usize>, Vec<usize>)> = const { RefCell::new((Vec::new(), Vec::new())) };
}

fn factorial(n: usize) -> usize {
    (1..=n).product::<usize>().max(1)
}

/// k-th permutation (lexicographic) of `items`, which must be sorted.
fn permute(items: &mut Vec<String>, mut k: usize) {
    let mut pool: Vec<String> = std::mem::take(items);
    let n = pool.len();
    for i in 0..n {
        let f = factorial(n - 1 - i);
        let idx = k / f;
        k %= f;
        items.push(pool.remove(idx));
    }
}

thread_local! {
    static MEMO: std::cell::RefCell<std::collections::HashMap<Vec<String>, usize>> = std::cell::RefCell::new(std::collections::HashMap::new());
}

fn install_hook() {
    svgdx::verif::set_order_hook(Some(Arc::new(|_site, items: &mut Vec<String>| {
        PLAN.with(|p| {
            let mut p = p.borrow_mut();
            items.sort(); // canonical: the explorer, not the hash seed, owns the order
            // a <reuse> element is evaluated several times (sizing, retries): one choice per distinct attribute list,
            // applied at every evaluation, keeps the space the product over lists rather than over evaluations
            let call = if _site == "reuse_attrs" {
                let memo = MEMO.with(|m| m.borrow().get(&*items).copied());
                match memo {
                    Some(c) => {
                        let k = p.0.get(c).copied().unwrap_or(0);
                        permute(items, k);
                        return;
                    }
                    None => {
                        let c = p.1.len();
                        MEMO.with(|m| m.borrow_mut().insert(items.clone(), c));
                        c
                    }
                }
            } else {
                p.1.len()
            };
            p.1.push(items.len());
            let k = p.0.get(call).copied().unwrap_or(0);
            permute(items, k);
        })
    })));
}

/// Run with a permutation plan; returns outcome and the list lengths seen at each hook call.
fn run_with_plan(doc: &str, cfg: &Cfg, plan: &[usize]) -> (Outcome, Vec<usize>) {
    install_hook();
    PLAN.with(|p| *p.borrow_mut() = (plan.to_vec(), Vec::new()));
    MEMO.with(|m| m.borrow_mut().clear());
    let out = run_str(doc, cfg);
    let lens = PLAN.with(|p| p.borrow().1.clone());
    svgdx::verif::set_order_hook(None);
    (out, lens)
}

const VOCAB: &[&str] = &[
    "d-grid-5", "d-grid-05", "d-grid-7", "d-grid-12", "d-hatch-3", "d-hatch-03", "d-hatch-10", "d-stipple-2", "d-stipple-6",
    "d-crosshatch-2", "d-crosshatch-9", "d-grid-h-3", "d-grid-h-8", "d-grid-v-4", "d-grid", "d-hatch",
    "d-arrow", "d-softshadow", "d-red", "d-fill-blue", "d-text-bold", "d-flow",
];

fn subsets(n: usize, max: usize) -> Vec<Vec<usize>> {
    let mut out = vec![vec![]];
    let mut frontier: Vec<Vec<usize>> = vec![vec![]];
    for _ in 0..max {
        let mut next = Vec::new();
        for s in &frontier {
            let start = s.last().map(|x| x + 1).unwrap_or(0);
            for i in start..n {
                let mut t = s.clone();
                t.push(i);
                next.push(t);
            }
        }
        out.extend(next.iter().cloned());
        frontier = next;
    }
    out
}

fn class_docs(tier: Tier) -> Vec<String> {
    let max = tier.pick(3, 4);
    let nvocab = tier.pick(16, VOCAB.len());
    let mut docs = Vec::new();
    for s in subsets(nvocab, max) {
        if s.is_empty() {
            continue;
        }
        let classes: Vec<&str> = s.iter().map(|i| VOCAB[*i]).collect();
        // all classes on one element
        docs.push(format!(
            "<svg>\n  <rect xy=\"0\" wh=\"20 10\" class=\"{}\" text=\"t\"/>\n</svg>",
            classes.join(" ")
        ));
        // split over two elements (class set is the union over the document)
        if classes.len() >= 2 {
            let (a, b) = classes.split_at(classes.len() / 2);
            docs.push(format!(
                "<svg>\n  <rect xy=\"0\" wh=\"20 10\" class=\"{}\"/>\n  <circle cxy=\"40 5\" r=\"5\" class=\"{}\"/>\n</svg>",
                b.join(" "),
                a.join(" ")
            ));
        }
    }
    docs
}

fn random_docs() -> Vec<(String, Cfg)> {
    let mut v = Vec::new();
    let bodies = [
        r##"<rect xy="{{randint(0, 50)}} {{randint(0,50)}}" wh="{{random() * 10 + 1}}"/>"##,
        r##"<loop count="4"><circle cxy="{{randint(0, 100)}} {{randint(0, 100)}}" r="{{1 + random()}}"/></loop>"##,
        r##"<var a="{{randint(1, 6)}}"/><rect wh="$a" text="{{randint(1,1000000)}}"/><rect xy="^|h" wh="{{randint(1,9)}}"/>"##,
        r##"<config seed="7"/><rect wh="{{randint(1, 100)}}"/><config seed="7"/><rect xy="^|v" wh="{{randint(1, 100)}}"/>"##,
        r##"<rect id="a" wh="{{randint(2,9)}}"/><reuse href="#a" x="{{randint(10,20)}}"/><reuse href="#a" y="{{randint(10,20)}}"/>"##,
        r##"<rect xy="#z|h" wh="{{randint(2,9)}}"/><rect id="z" wh="{{randint(2,9)}}"/>"##,
    ];
    for b in bodies {
        for seed in [0u64, 1, (1u64 << 32) + 1, u64::MAX] {
            for root in [true, false] {
                let doc = if root {
                    format!("<svg>\n{b}\n</svg>")
                } else {
                    b.to_string()
                };
                v.push((
                    doc,
                    Cfg {
                        seed,
                        ..Default::default()
                    },
                ));
            }
        }
    }
    v
}

fn error_docs() -> Vec<String> {
    vec![
        r##"<svg><rect xy="#nope|h" wh="2"/><circle cxy="#nada" r="1"/><line xy1="#zip" xy2="0"/><rect wh="{{1+}}"/></svg>"##.into(),
        r##"<svg><g><rect xy="#q|h" wh="2"/><rect xy="#r|v" wh="2"/></g><rect surround="#s"/><rect inside="#t"/><use href="#u"/></svg>"##.into(),
        r##"<rect xy="#a|h" wh="2"/><rect xy="#b|h" wh="2"/><rect xy="#c|h" wh="2"/><rect xy="#d|h" wh="2"/><rect xy="#e|h" wh="2"/><rect xy="#f|h" wh="2"/>"##.into(),
        r##"<svg><loop count="2"><rect xy="#x|h" wh="1"/><rect xy="#y|h" wh="1"/></loop></svg>"##.into(),
        // several candidates for ONE reported error: which of them is named must not depend on a hash order
        r##"<svg><config var-limit="3"/><g a="11111" b="22222" c="33333" d="44444" e="55555" f="66666"><rect wh="5"/></g></svg>"##.into(),
        r##"<svg><config var-limit="3"/><rect id="r" wh="5"/><reuse href="#r" a="11111" b="22222" c="33333" d="44444" e="55555"/></svg>"##.into(),
        r##"<svg><config var-limit="3"/><var a="11111" b="22222" c="33333" d="44444" e="55555"/></svg>"##.into(),
        r##"<svg><config nosuch="1" another="2" third="3" fourth="4" fifth="5"/></svg>"##.into(),
        r##"<svg><rect wh="5" x="{{1+}}" y="{{2+}}" rx="{{3+}}" fill="{{4+}}" stroke="{{5+}}"/></svg>"##.into(),
        r##"<svg><g a="{{1+}}" b="{{2+}}" c="{{3+}}" d="{{4+}}" e="{{5+}}"><rect wh="1"/></g></svg>"##.into(),
        r##"<svg><rect id="t" wh="1"/><reuse href="#t" a="$nope1 {{1+}}" b="{{2+}}" c="{{3+}}" d="{{4+}}"/></svg>"##.into(),
    ]
}

pub fn examples_corpus_pub() -> Vec<String> {
    examples_corpus()
}

fn examples_corpus() -> Vec<String> {
    let mut v = Vec::new();
    if let Ok(rd) = std::fs::read_dir("/repo/examples") {
        let mut names: Vec<_> = rd
            .filter_map(|e| e.ok())
            .map(|e| e.path())
            .filter(|p| p.extension().map(|x| x == "xml").unwrap_or(false))
            .collect();
        names.sort();
        for p in names {
            if let Ok(s) = std::fs::read_to_string(&p) {
                v.push(s);
            }
        }
    }
    v
}

/// Run one document in a fresh process (this binary in `oneshot` mode).
pub fn fresh_process(doc: &[u8], cfg: &Cfg) -> Result<Outcome, String> {
    let exe = std::env::current_exe().map_err(|e| e.to_string())?;
    let mut child = Command::new(exe)
        .arg("oneshot")
        .stdin(Stdio::piped())
        .stdout(Stdio::piped())
        .stderr(Stdio::null())
        .spawn()
        .map_err(|e| e.to_string())?;
    {
        let mut si = child.stdin.take().unwrap();
        let mut head = cfg.to_json().to_string().into_bytes();
        head.push(b'\n');
        si.write_all(&head).map_err(|e| e.to_string())?;
        si.write_all(doc).map_err(|e| e.to_string())?;
    }
    let out = child.wait_with_output().map_err(|e| e.to_string())?;
    if !out.status.success() {
        return Err(format!("oneshot worker exited with {:?}", out.status));
    }
    let b = out.stdout;
    let nl = b.iter().position(|c| *c == b'\n').ok_or("no header")?;
    let body = b[nl + 1..].to_vec();
    Ok(match &b[..nl] {
        b"OK" => Outcome::Ok(body),
        b"ERR" => Outcome::Err(String::from_utf8_lossy(&body).into_owned()),
        _ => Outcome::Panic(String::from_utf8_lossy(&body).into_owned()),
    })
}

fn case_json(doc: &str, cfg: &Cfg, leg: &str) -> Value {
    json!({"leg": leg, "input": doc, "config": cfg.to_json()})
}

/// Explore all permutations of every hooked list for one document.
/// Returns (executions, permutation states, distinct outputs, violation).
fn explore_orders(doc: &str, cfg: &Cfg) -> (u64, u64, u64, Option<Violation>) {
    let (base, lens) = run_with_plan(doc, cfg, &[]);
    let radices: Vec<usize> = lens.iter().map(|l| factorial(*l)).collect();
    let total = product(&radices);
    let mut execs = 1u64;
    let mut outs = std::collections::HashSet::new();
    outs.insert(hash64(&format!("{base:?}")));
    if total > 50_000 {
        // cannot happen with the bounded vocabularies; treated as machinery failure by caller
        return (execs, 1, 1, Some(Violation {
            clause: "machinery".into(),
            signature: "C06/machinery/permutation-space-too-large".into(),
            case: case_json(doc, cfg, "orders"),
            detail: format!("{total} permutations"),
        }));
    }
    let mut viol = None;
    for k in 1..total {
        let plan = decode(k, &radices);
        let (o, lens2) = run_with_plan(doc, cfg, &plan);
        execs += 1;
        outs.insert(hash64(&format!("{o:?}")));
        if lens2 != lens {
            viol = Some(Violation {
                clause: "hook call sequence depends on iteration order".into(),
                signature: "C06/orders/hook-sequence".into(),
                case: case_json(doc, cfg, "orders"),
                detail: format!("list lengths {lens:?} vs {lens2:?} under plan {plan:?}"),
            });
            break;
        }
        if o != base && viol.is_none() {
            viol = Some(Violation {
                clause: "output depends on hash-set iteration order".into(),
                signature: format!("C06/orders/{}", order_signature(doc)),
                case: case_json(doc, cfg, "orders"),
                detail: format!(
                    "plan {plan:?} (permutation index per hooked list, lists sorted first)\n--- identity order:\n{}\n--- permuted order:\n{}",
                    base.brief(),
                    o.brief()
                ),
            });
        }
    }
    (execs, total as u64, outs.len() as u64, viol)
}

/// Which pattern families have >= 2 numbered classes (the shape of the failing case).
fn order_signature(doc: &str) -> String {
    let mut fams = Vec::new();
    for fam in ["d-grid-h-", "d-grid-v-", "d-grid-", "d-hatch-", "d-crosshatch-", "d-stipple-"] {
        let n = doc
            .split(|c: char| c == '"' || c == ' ')
            .filter(|c| {
                c.strip_prefix(fam)
                    .map(|s| s.chars().all(|c| c.is_ascii_digit()) && !s.is_empty())
                    .unwrap_or(false)
            })
            .count();
        if n >= 2 {
            fams.push(fam.trim_end_matches('-'));
        }
    }
    if fams.is_empty() {
        "other".into()
    } else {
        format!("pattern-rule-order:{}", fams.join("+"))
    }
}

fn repetition_oracle(doc: &str, cfg: &Cfg, reps: usize, leg: &str) -> (u64, bool, u64, Option<Violation>) {
    let first = run_str(doc, cfg);
    let mut execs = 1;
    let mut viol = None;
    for r in 1..reps {
        let o = run_str(doc, cfg);
        execs += 1;
        if o != first {
            viol = Some(Violation {
                clause: "repeating the transform in the same process changes the result".into(),
                signature: format!("C06/{leg}/repeat/{}", order_signature(doc)),
                case: case_json(doc, cfg, leg),
                detail: format!("run 0:\n{}\nrun {r}:\n{}", first.brief(), o.brief()),
            });
            break;
        }
    }
    if let Outcome::Panic(p) = &first {
        viol.get_or_insert(Violation {
            clause: "panic".into(),
            signature: format!("C06/{leg}/panic"),
            case: case_json(doc, cfg, leg),
            detail: p.clone(),
        });
    }
    (execs, first.is_ok(), hash64(&format!("{first:?}")), viol)
}

pub fn run(tier: Tier) -> i32 {
    let mut rep = Report::new("C06", tier, "model_checking");
    rep.set("rule", json!("Leg `orders`: every document over subsets of a class vocabulary (all pattern families with numeric suffixes + arrow/shadow/colour/text/flow) x EVERY permutation of every list the subject obtains from a hash collection (iteration_order seam; lists canonicalised by the explorer first, so the hash seed plays no role); a state = (document, permutation vector), a transition = one execution of the real transform; invariant: all permutations give byte-identical output. Legs `repeat-*`: same documents, random()/randint() documents under 4 seeds, multi-error documents and the examples corpus are repeated in-process (fresh RandomState per HashSet) and in fresh processes with the seam uninstalled; any disagreement is a violation. Non-trivial = the transform returned Ok and (orders leg) at least one hooked list had >= 2 entries or (other legs) the output contains generated values."));

    // ---- leg 1: exhaustive permutations through the seam
    let docs = class_docs(tier);
    let cfg = Cfg::default();
    let states = std::sync::atomic::AtomicU64::new(0);
    let st = run_space(docs.len(), |i| {
        let (execs, perms, _outs, viol) = explore_orders(&docs[i], &cfg);
        states.fetch_add(perms, std::sync::atomic::Ordering::Relaxed);
        CaseResult {
            case_hash: hash64(&docs[i]),
            nontrivial: perms >= 2,
            outcome_hash: hash64(&(i, viol.is_some())),
            executions: execs,
            violation: viol,
        }
    });
    let n_states = states.load(std::sync::atomic::Ordering::Relaxed);
    rep.set("states", json!(n_states));
    rep.set("transitions", json!(st.evaluations));
    rep.set("traces_validated_against_impl", json!(st.evaluations));
    rep.set("documents_orders_leg", json!(docs.len()));
    rep.sample(json!({"leg": "orders", "doc": docs[docs.len() / 2], "note": "all permutations of each hooked class list explored"}));
    rep.sample(json!({"leg": "orders", "doc": docs[docs.len() - 1]}));
    rep.absorb("orders", st);

    // ---- leg 1b (seventh round, seed C06d): the attributes of a <reuse> element are taken from a hash map; every order
    // in which the map can hand them out must give the same bytes - also when two of them describe the same thing
    let rdocs: Vec<String> = vec![
        r##"<svg><specs><rect id="t" wh="10 6" rxy="1 2"/></specs><reuse href="#t" rxy="2 3" rx="4"/></svg>"##.into(),
        r##"<svg><specs><rect id="t" wh="10 6" rx="1" ry="2"/></specs><reuse href="#t" rxy="5 6" rx="2" ry="5"/></svg>"##.into(),
        r##"<svg><specs><rect id="t" wh="$w 6"/></specs><reuse href="#t" w="3" wh="7 8" width="9"/></svg>"##.into(),
        r##"<svg><specs><rect id="t" xy="1 2" wh="4"/></specs><reuse href="#t" xy="5 6" x="7" dx="1" dxy="2"/></svg>"##.into(),
        r##"<svg><specs><circle id="t" cxy="1 2" r="4"/></specs><reuse href="#t" cxy="5 6" cx="7" r="2" rxy="3"/></svg>"##.into(),
        r##"<svg><specs><g id="t"><rect wh="$a $b"/></g></specs><reuse href="#t" a="3" b="$a" transform="scale(2)" style="fill:red"/></svg>"##.into(),
        r##"<svg><specs><rect id="t" wh="4" class="$c" text="$l"/></specs><reuse href="#t" c="d-red" l="x" text="y" text-loc="t"/></svg>"##.into(),
    ];
    let rstates = std::sync::atomic::AtomicU64::new(0);
    let st = run_space(rdocs.len(), |i| {
        let (execs, perms, _outs, viol) = explore_orders(&rdocs[i], &cfg);
        rstates.fetch_add(perms, std::sync::atomic::Ordering::Relaxed);
        let viol = viol.map(|mut v| {
            if v.signature.starts_with("C06/orders/") && v.signature != "C06/orders/hook-sequence" {
                v.signature = format!("C06/orders-reuse-attributes/doc{i}");
            }
            v
        });
        CaseResult { case_hash: hash64(&rdocs[i]), nontrivial: perms >= 2, outcome_hash: hash64(&(i, viol.is_some())), executions: execs, violation: viol }
    });
    rep.set("states_reuse_attribute_orders", json!(rstates.load(std::sync::atomic::Ordering::Relaxed)));
    rep.sample(json!({"leg": "orders-reuse-attributes", "doc": rdocs[0], "note": "every permutation of the reuse element's attribute list explored"}));
    rep.absorb("orders-reuse-attributes", st);
    rep.set("also_round7", json!("Round 7 (seed C06d): a second iteration_order seam hands the checker the attribute list of every <reuse> element (a hash map in the subject); 7 documents whose reuse element carries attributes describing the same thing twice (rxy + rx, wh + width, xy + x + dx + dxy, cxy + cx + r + rxy, bindings used by other bindings) are run under every permutation of that list (one choice per distinct list, applied at each of the element's evaluations)."));

    // ---- leg 2: repetition in-process without the seam (class docs + examples + random + errors)
    let reps = tier.pick(6, 12);
    let st = run_space(docs.len(), |i| {
        let (execs, ok, oh, viol) = repetition_oracle(&docs[i], &cfg, reps, "repeat-classes");
        CaseResult {
            case_hash: hash64(&docs[i]),
            nontrivial: ok,
            outcome_hash: oh,
            executions: execs,
            violation: viol,
        }
    });
    rep.absorb("repeat-classes", st);

    let rdocs = random_docs();
    let st = run_space(rdocs.len(), |i| {
        let (d, c) = &rdocs[i];
        let (execs, ok, oh, viol) = repetition_oracle(d, c, reps, "repeat-random");
        CaseResult {
            case_hash: hash64(&(d, c.seed)),
            nontrivial: ok,
            outcome_hash: oh,
            executions: execs,
            violation: viol,
        }
    });
    rep.sample(json!({"leg": "repeat-random", "doc": rdocs[2].0, "seed": rdocs[2].1.seed.to_string()}));
    rep.absorb("repeat-random", st);

    let edocs = error_docs();
    let st = run_space(edocs.len(), |i| {
        let first = run_str(&edocs[i], &cfg);
        let mut viol = None;
        let mut execs = 1;
        for _ in 0..reps * 4 {
            let o = run_str(&edocs[i], &cfg);
            execs += 1;
            if o != first {
                viol = Some(Violation {
                    clause: "error text differs between repetitions".into(),
                    signature: "C06/repeat-errors/error-order".into(),
                    case: case_json(&edocs[i], &cfg, "repeat-errors"),
                    detail: format!("{}\nvs\n{}", first.brief(), o.brief()),
                });
                break;
            }
        }
        CaseResult {
            case_hash: hash64(&edocs[i]),
            nontrivial: first.is_err(),
            outcome_hash: hash64(&format!("{first:?}")),
            executions: execs,
            violation: viol,
        }
    });
    rep.absorb("repeat-errors", st);

    let xdocs = examples_corpus();
    let st = run_space(xdocs.len(), |i| {
        let (execs, ok, oh, viol) = repetition_oracle(&xdocs[i], &cfg, tier.pick(3, 6), "repeat-examples");
        CaseResult {
            case_hash: hash64(&xdocs[i]),
            nontrivial: ok,
            outcome_hash: oh,
            executions: execs,
            violation: viol,
        }
    });
    rep.set("examples_corpus", json!(xdocs.len()));
    rep.absorb("repeat-examples", st);

    // ---- leg 3: fresh processes (different hash seeds per process)
    let mut pdocs: Vec<(String, Cfg)> = Vec::new();
    let step = tier.pick(40, 8);
    for (i, d) in docs.iter().enumerate() {
        if i % step == 0 || order_signature(d) != "other" && i % (step / 4).max(1) == 0 {
            pdocs.push((d.clone(), cfg.clone()));
        }
    }
    pdocs.extend(rdocs.iter().step_by(tier.pick(6, 1)).cloned());
    pdocs.extend(edocs.iter().map(|d| (d.clone(), cfg.clone())));
    pdocs.extend(xdocs.iter().step_by(tier.pick(5, 1)).map(|d| (d.clone(), cfg.clone())));
    let nproc = tier.pick(2, 4);
    let spawn_errors = std::sync::Mutex::new(Vec::new());
    let st = run_space(pdocs.len(), |i| {
        let (d, c) = &pdocs[i];
        let inproc = run_str(d, c);
        let mut viol = None;
        let mut execs = 1;
        for p in 0..nproc {
            match fresh_process(d.as_bytes(), c) {
                Ok(o) => {
                    execs += 1;
                    if o != inproc && viol.is_none() {
                        viol = Some(Violation {
                            clause: "a fresh process gives a different result".into(),
                            signature: format!("C06/process/{}", order_signature(d)),
                            case: case_json(d, c, "process"),
                            detail: format!("in-process:\n{}\nfresh process #{p}:\n{}", inproc.brief(), o.brief()),
                        });
                    }
                }
                Err(e) => spawn_errors.lock().unwrap().push(e),
            }
        }
        CaseResult {
            case_hash: hash64(&(d, c.seed)),
            nontrivial: inproc.is_ok(),
            outcome_hash: hash64(&format!("{inproc:?}")),
            executions: execs,
            violation: viol,
        }
    });
    rep.machinery_errors.extend(spawn_errors.into_inner().unwrap().into_iter().take(3));
    rep.set("fresh_process_documents", json!(pdocs.len()));
    rep.absorb("process", st);

    // the svgdx command itself: what it prints (stdout and the error text on stderr) and its exit status are the same
    // in every fresh process
    let cli_docs: Vec<&str> = vec![
        r##"<svg><rect xy="#a" wh="1"/><rect xy="#b" wh="1"/></svg>"##,
        r##"<svg><rect xy="#a" wh="1"/><circle cxy="#b" r="1"/><line start="#c" end="#d"/><rect wh="{{1+}}"/></svg>"##,
        r##"<svg><g><rect xy="#a" wh="1"/><if test="1"><rect xy="#b" wh="1"/></if></g><rect xy="#c" wh="1"/></svg>"##,
        r##"<svg><rect wh="5" class="d-grid-5 d-grid-05 d-hatch-3" text="{{randint(1, 1000)}}"/></svg>"##,
        r##"<svg><config var-limit="3"/><g a="11111" b="22222" c="33333" d="44444" e="55555" f="66666"><rect wh="5"/></g></svg>"##,
        r##"<svg><rect wh="5" x="{{1+}}" y="{{2+}}" rx="{{3+}}" fill="{{4+}}" stroke="{{5+}}"/></svg>"##,
    ];
    let reps = tier.pick(6, 12);
    let st = run_space(cli_docs.len(), |i| {
        let doc = cli_docs[i];
        let mut outs: Vec<(Option<i32>, Vec<u8>, Vec<u8>)> = Vec::new();
        for _ in 0..reps {
            let mut child = match std::process::Command::new(crate::props::c01::SVGDX_BIN).stdin(std::process::Stdio::piped()).stdout(std::process::Stdio::piped()).stderr(std::process::Stdio::piped()).spawn() {
                Ok(c) => c,
                Err(_) => continue,
            };
            if let Some(mut si) = child.stdin.take() {
                use std::io::Write;
                let _ = si.write_all(doc.as_bytes());
            }
            if let Ok(o) = child.wait_with_output() {
                outs.push((o.status.code(), o.stdout, o.stderr));
            }
        }
        let distinct: std::collections::HashSet<u64> = outs.iter().map(hash64).collect();
        let viol = if outs.len() == reps && distinct.len() == 1 {
            None
        } else {
            Some(Violation {
                clause: "command-output-differs-between-runs".into(),
                signature: format!("C06/command/doc{i}"),
                case: json!({"leg": "command", "input": doc}),
                detail: format!("{doc}\n{} runs of the svgdx command gave {} different (status, stdout, stderr) results; e.g. stderr {:?} vs {:?}", outs.len(), distinct.len(), outs.first().map(|o| clip(&String::from_utf8_lossy(&o.2), 200)), outs.iter().find(|o| Some(hash64(*o)) != outs.first().map(hash64)).map(|o| clip(&String::from_utf8_lossy(&o.2), 200))),
            })
        };
        CaseResult { case_hash: hash64(&doc), nontrivial: viol.is_none(), outcome_hash: distinct.iter().next().copied().unwrap_or(0), executions: reps as u64, violation: viol }
    });
    rep.absorb("command", st);
    // ... and so is what it says when its environment fails it (same input, same configuration, same fault)
    let env_faults: Vec<(&str, Vec<&str>, Option<(&str, &str)>)> = vec![
        ("tmpdir-missing", vec!["-o", "/verif/target/c06-env-out.svg"], Some(("TMPDIR", "/nonexistent-verif-dir"))),
        ("output-parent-missing", vec!["-o", "/nonexistent-verif-dir/out.svg"], None),
        ("input-missing", vec!["/nonexistent-verif-dir/in.xml"], None),
    ];
    let st = run_space(env_faults.len(), |i| {
        let (name, args, envv) = &env_faults[i];
        let mut outs: Vec<(Option<i32>, Vec<u8>, Vec<u8>)> = Vec::new();
        for _ in 0..reps {
            let mut cmd = std::process::Command::new(crate::props::c01::SVGDX_BIN);
            cmd.args(args).stdin(std::process::Stdio::piped()).stdout(std::process::Stdio::piped()).stderr(std::process::Stdio::piped());
            if let Some((k, v)) = envv {
                cmd.env(k, v);
            }
            let Ok(mut child) = cmd.spawn() else { continue };
            if let Some(mut si) = child.stdin.take() {
                use std::io::Write;
                let _ = si.write_all(b"<svg><rect wh=\"5\"/></svg>");
            }
            if let Ok(o) = child.wait_with_output() {
                outs.push((o.status.code(), o.stdout, o.stderr));
            }
        }
        let _ = std::fs::remove_file("/verif/target/c06-env-out.svg");
        let distinct: std::collections::HashSet<u64> = outs.iter().map(hash64).collect();
        let viol = if outs.len() == reps && distinct.len() == 1 {
            None
        } else {
            Some(Violation {
                clause: "command-output-differs-between-runs".into(),
                signature: format!("C06/command-env/{name}"),
                case: json!({"leg": "command-env", "fault": name}),
                detail: format!("{} runs of svgdx {:?} ({:?}) gave {} different (status, stdout, stderr) results; e.g. stderr {:?} vs {:?}", outs.len(), args, envv, distinct.len(), outs.first().map(|o| clip(&String::from_utf8_lossy(&o.2), 200)), outs.iter().find(|o| Some(hash64(*o)) != outs.first().map(hash64)).map(|o| clip(&String::from_utf8_lossy(&o.2), 200))),
            })
        };
        CaseResult { case_hash: hash64(name), nontrivial: viol.is_none(), outcome_hash: distinct.iter().next().copied().unwrap_or(0), executions: reps as u64, violation: viol }
    });
    rep.absorb("command-env", st);

    rep.assume("hash iteration order reaches the output only through the hooked site in themes.rs append_pattern_styles; any other site is covered only by the repetition legs (sampling of hash seeds, labelled as such)");
    rep.assume("use_local_styles=false throughout (the randomised root id is the permitted exception)");
    rep.finish()
}

pub fn replay_case(case: &Value) -> Option<Violation> {
    let doc = case["input"].as_str().unwrap_or("");
    let cfg = Cfg::from_json(&case["config"]);
    match case["leg"].as_str().unwrap_or("") {
        "orders" => explore_orders(doc, &cfg).3,
        "process" => {
            let a = run_str(doc, &cfg);
            for _ in 0..6 {
                if let Ok(o) = fresh_process(doc.as_bytes(), &cfg) {
                    if o != a {
                        return Some(Violation {
                            clause: "a fresh process gives a different result".into(),
                            signature: "C06/process".into(),
                            case: case.clone(),
                            detail: "fresh process output differs from in-process output".into(),
                        });
                    }
                }
            }
            None
        }
        leg => repetition_oracle(doc, &cfg, 40, leg).3.map(|mut v| {
            v.detail = "repetition disagrees".into();
            v
        }),
    }
}
