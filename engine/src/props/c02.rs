//! C02 — Successful output is always well-formed XML with a proper SVG root.
//!
//! Value-flow space: every string of <= k hostile atoms x every route by which
//! an author- or configuration-supplied value reaches the output x the
//! configurations that change the writer path.  Oracle: the independent strict
//! XML reader accepts every Ok output (document mode + namespaced, versioned
//! <svg> root when the input's outermost element is <svg>; content mode for
//! fragments).

use crate::common::*;
use crate::xmlref::{self, Mode};
use serde_json::{json, Value};

/// (name, value) — the *unescaped* value the author means.
const ATOMS: &[(&str, &str)] = &[
    ("amp", "&"),
    ("lt", "<"),
    ("gt", ">"),
    ("quot", "\""),
    ("apos", "'"),
    ("dashdash", "--"),
    ("dash", "-"),
    ("cdend", "]]>"),
    ("cdstart", "<![CDATA["),
    ("eacute", "é"),
    ("emoji", "😀"),
    ("tab", "\t"),
    ("nl", "\n"),
    ("ampamp", "&amp;"),
    ("x", "x"),
    ("space", " "),
    ("commentend", "-->"),
    ("tag", "</svg>"),
];

fn esc_attr(v: &str) -> String {
    v.replace('&', "&amp;").replace('<', "&lt;").replace('"', "&quot;").replace('\t', "&#9;").replace('\n', "&#10;")
}
fn esc_text(v: &str) -> String {
    v.replace('&', "&amp;").replace('<', "&lt;").replace("]]>", "]]&gt;")
}

#[derive(Clone, Copy, PartialEq)]
enum Ctx {
    Attr,
    Text,
    CData,
    Comment,
    Pi,
    Api,
}

struct Sink {
    name: &'static str,
    /// document template; `@` is replaced by the value spelled for `ctx`
    tpl: &'static str,
    ctx: Ctx,
    rooted: bool,
    /// which config field receives the raw value (Api sinks)
    api: Option<&'static str>,
}

const fn s(name: &'static str, tpl: &'static str, ctx: Ctx, rooted: bool) -> Sink {
    Sink { name, tpl, ctx, rooted, api: None }
}

const SINKS: &[Sink] = &[
    s("attr-shape", r#"<svg><rect wh="5" a="@"/></svg>"#, Ctx::Attr, true),
    s("attr-shape-frag", r#"<rect wh="5" a="@"/>"#, Ctx::Attr, false),
    s("attr-group", r#"<svg><g a="@"><rect wh="5"/></g></svg>"#, Ctx::Attr, true),
    s("attr-root", r#"<svg a="@"><rect wh="5"/></svg>"#, Ctx::Attr, true),
    s("attr-unknown-el", r#"<svg><foo a="@"/><bar a="@">t</bar></svg>"#, Ctx::Attr, true),
    s("attr-container", r#"<svg><defs a="@"><linearGradient b="@"><stop offset="0"/></linearGradient></defs></svg>"#, Ctx::Attr, true),
    s("id", r#"<svg><rect wh="5" id="@"/></svg>"#, Ctx::Attr, true),
    s("class", r#"<svg><rect wh="5" class="@"/></svg>"#, Ctx::Attr, true),
    s("class-text", r#"<svg><rect wh="5" class="k @" text="t"/></svg>"#, Ctx::Attr, true),
    s("style", r#"<svg><rect wh="5" style="@"/></svg>"#, Ctx::Attr, true),
    s("text-style", r#"<svg><rect wh="5" text="t" text-style="@"/></svg>"#, Ctx::Attr, true),
    s("text-attr", r#"<svg><rect wh="5" text="@"/></svg>"#, Ctx::Attr, true),
    s("text-attr-frag", r#"<rect wh="5" text="@"/>"#, Ctx::Attr, false),
    s("text-attr-multiline", r#"<svg><rect wh="5" text="a\n@\nb"/></svg>"#, Ctx::Attr, true),
    s("text-attr-outside", r#"<svg><rect wh="5" text="@" text-loc="t" class="d-text-outside"/></svg>"#, Ctx::Attr, true),
    s("text-el-attr", r#"<svg><text xy="1" text="@"/></svg>"#, Ctx::Attr, true),
    s("text-content-shape", r#"<svg><rect wh="5">@</rect></svg>"#, Ctx::Text, true),
    s("text-content-text", r#"<svg><text xy="1">@</text></svg>"#, Ctx::Text, true),
    s("text-content-tspan", r#"<svg><text xy="1">a<tspan>@</tspan>b</text></svg>"#, Ctx::Text, true),
    s("text-content-style", r#"<svg><style>@</style><rect wh="5"/></svg>"#, Ctx::Text, true),
    s("text-content-title", r#"<svg><rect wh="5"/><title>@</title></svg>"#, Ctx::Text, true),
    s("cdata-content-shape", r#"<svg><rect wh="5"><![CDATA[@]]></rect></svg>"#, Ctx::CData, true),
    s("cdata-content-style", r#"<svg><style><![CDATA[@]]></style></svg>"#, Ctx::CData, true),
    s("tail-text", r#"<svg><rect wh="5"/>@<rect wh="5"/></svg>"#, Ctx::Text, true),
    s("tail-text-frag", r#"<rect wh="5"/>@<rect wh="5"/>"#, Ctx::Text, false),
    s("comment-attr", r#"<svg><rect wh="5" _="@"/></svg>"#, Ctx::Attr, true),
    s("raw-comment-attr", r#"<svg><rect wh="5" __="@"/></svg>"#, Ctx::Attr, true),
    s("comment-attr-text", r#"<svg><rect wh="5" _="@" text="t"/></svg>"#, Ctx::Attr, true),
    s("comment-on-group", r#"<svg><g _="@"><rect wh="5"/></g></svg>"#, Ctx::Attr, true),
    s("var-to-attr", r#"<svg><var v="@"/><rect wh="5" a="$v"/></svg>"#, Ctx::Attr, true),
    s("var-to-text", r#"<svg><var v="@"/><rect wh="5" text="[$v]"/></svg>"#, Ctx::Attr, true),
    s("var-to-comment", r#"<svg><var v="@"/><rect wh="5" _="$v"/></svg>"#, Ctx::Attr, true),
    s("var-to-class", r#"<svg><var v="@"/><rect wh="5" class="$v"/></svg>"#, Ctx::Attr, true),
    s("group-local", r#"<svg><g v="@"><rect wh="5" a="$v" text="$v"/></g></svg>"#, Ctx::Attr, true),
    s("reuse-param", r##"<svg><specs><rect id="t" wh="5" a="$p" text="$p"/></specs><reuse href="#t" p="@"/></svg>"##, Ctx::Attr, true),
    s("reuse-attrs", r##"<svg><specs><rect id="t" wh="5"/></specs><reuse href="#t" style="@" class="@" id="i"/></svg>"##, Ctx::Attr, true),
    s("reuse-group-transform", r##"<svg><specs><g id="t" transform="translate(1)"><rect wh="5"/></g></specs><reuse href="#t" x="3" a="@"/></svg>"##, Ctx::Attr, true),
    s("defaults-attr", r#"<svg><defaults><rect a="@" class="@"/></defaults><rect wh="5" class="k"/></svg>"#, Ctx::Attr, true),
    s("defaults-style", r#"<svg><defaults><rect style="@" text-style="@"/></defaults><rect wh="5" style="q" text="t"/></svg>"#, Ctx::Attr, true),
    s("loop-body", r#"<svg><loop count="2"><rect wh="5" a="@" text="@"/></loop></svg>"#, Ctx::Attr, true),
    s("for-data", r#"<svg><for var="q" data="'@'"><rect wh="5" text="$q"/></for></svg>"#, Ctx::Attr, true),
    s("if-body", r#"<svg><if test="1"><rect wh="5" a="@"/></if></svg>"#, Ctx::Attr, true),
    s("expr-string", r#"<svg><rect wh="5" a="{{'@'}}" text="{{'@'}}"/></svg>"#, Ctx::Attr, true),
    s("href", r##"<svg><rect id="t" wh="5"/><use href="@"/></svg>"##, Ctx::Attr, true),
    s("transform", r#"<svg><rect wh="5" transform="@"/></svg>"#, Ctx::Attr, true),
    s("points", r#"<svg><polyline points="@"/></svg>"#, Ctx::Attr, true),
    s("path-d", r#"<svg><path d="M0 0 @"/></svg>"#, Ctx::Attr, true),
    s("clip-path", r#"<svg><rect wh="5" clip-path="@"/></svg>"#, Ctx::Attr, true),
    s("author-data-src-line", r#"<svg><rect wh="5" data-src-line="@"/></svg>"#, Ctx::Attr, true),
    s("author-root-version", r#"<svg version="@"><rect wh="5"/></svg>"#, Ctx::Attr, true),
    s("author-root-size", r#"<svg width="@" viewBox="@"><rect wh="5"/></svg>"#, Ctx::Attr, true),
    s("author-root-id-style", r#"<svg id="@" style="@" class="@"><rect wh="5"/></svg>"#, Ctx::Attr, true),
    s("author-root-xmlns", r#"<svg xmlns="@"><rect wh="5"/></svg>"#, Ctx::Attr, true),
    s("author-root-xmlns-attr", r#"<svg xmlns:q="@"><rect wh="5"/></svg>"#, Ctx::Attr, true),
    // connectors which are written as one element and rendered as another, around child elements
    s("connector-renamed-line-to-polyline", r##"<svg><rect id="p" wh="5"/><rect id="q" xy="20 10" wh="5"/><line start="#p" end="#q" edge-type="corner" a="@"><title>t</title></line></svg>"##, Ctx::Attr, true),
    s("connector-renamed-polyline-to-line", r##"<svg><rect id="p" wh="5"/><rect id="q" xy="20 0" wh="5"/><polyline start="#p@c" end="#q@c" a="@"><desc>d</desc></polyline></svg>"##, Ctx::Attr, true),
    s("connector-attrs", r##"<svg><rect id="p" wh="5"/><rect id="q" xy="20 0" wh="5"/><line start="#p" end="#q" a="@" text="@"/></svg>"##, Ctx::Attr, true),
    s("surround-attrs", r##"<svg><rect id="p" wh="5"/><rect surround="#p" a="@" text="@"/></svg>"##, Ctx::Attr, true),
    s("empty-root", r#"<svg a="@"/>"#, Ctx::Attr, true),
    s("empty-root-text", r#"<svg text="@"/>"#, Ctx::Attr, true),
    s("root-only-text", r#"<svg>@</svg>"#, Ctx::Text, true),
    s("nested-ns-svg-first", r#"<svg><svg xmlns="http://www.w3.org/2000/svg"><rect/>@</svg><rect wh="5"/></svg>"#, Ctx::Text, true),
    s("nested-plain-svg", r#"<svg><svg><rect wh="5" a="@"/></svg></svg>"#, Ctx::Attr, true),
    s("nested-ns-svg-in-group", r#"<svg><g><svg xmlns="http://www.w3.org/2000/svg" a="@"/><rect wh="5"/></g></svg>"#, Ctx::Attr, true),
    s("two-roots-frag", r#"<svg><rect wh="5" a="@"/></svg><svg><rect wh="5"/></svg>"#, Ctx::Attr, false),
    s("pre-root-comment", r#"<!--@--><svg><rect wh="5"/></svg>"#, Ctx::Comment, true),
    s("inner-comment", r#"<svg><!--@--><rect wh="5"/><!--@--></svg>"#, Ctx::Comment, true),
    s("pre-root-pi", r#"<?pi @?><svg><rect wh="5"/></svg>"#, Ctx::Pi, true),
    s("config-element-background", r#"<svg><config background="@"/><rect wh="5"/></svg>"#, Ctx::Attr, true),
    s("config-element-font", r#"<svg><config font-family="@"/><rect wh="5" text="t"/></svg>"#, Ctx::Attr, true),
    s("config-element-svg-style", r#"<svg><config svg-style="@"/><rect wh="5"/></svg>"#, Ctx::Attr, true),
    Sink { name: "api-background", tpl: r#"<svg><rect wh="5"/></svg>"#, ctx: Ctx::Api, rooted: true, api: Some("background") },
    Sink { name: "api-font-family", tpl: r#"<svg><rect wh="5" text="t"/></svg>"#, ctx: Ctx::Api, rooted: true, api: Some("font_family") },
    Sink { name: "api-svg-style", tpl: r#"<svg><rect wh="5"/></svg>"#, ctx: Ctx::Api, rooted: true, api: Some("svg_style") },
    Sink { name: "api-svg-style-vs-author", tpl: r#"<svg style="k"><rect wh="5"/></svg>"#, ctx: Ctx::Api, rooted: true, api: Some("svg_style") },
];

fn configs() -> Vec<(&'static str, Cfg)> {
    let d = Cfg::default();
    vec![
        ("default", d.clone()),
        ("debug", Cfg { debug: true, ..d.clone() }),
        ("metadata", Cfg { add_metadata: true, ..d.clone() }),
        ("no-auto-styles", Cfg { add_auto_styles: false, ..d.clone() }),
        ("local-styles", Cfg { use_local_styles: true, ..d.clone() }),
        ("debug+metadata+svgstyle", Cfg { debug: true, add_metadata: true, svg_style: Some("a: b".into()), ..d.clone() }),
        ("dark", Cfg { theme: "dark".into(), ..d.clone() }),
    ]
}

struct Case {
    sink: usize,
    atoms: Vec<usize>,
}

fn value_of(atoms: &[usize]) -> String {
    atoms.iter().map(|a| ATOMS[*a].1).collect()
}

fn build(c: &Case, cfg: &Cfg) -> Option<(String, Cfg)> {
    let sink = &SINKS[c.sink];
    let v = value_of(&c.atoms);
    let mut cfg = cfg.clone();
    let spelled = match sink.ctx {
        Ctx::Attr => esc_attr(&v),
        Ctx::Text => esc_text(&v),
        Ctx::CData => {
            if v.contains("]]>") {
                return None;
            }
            v.clone()
        }
        Ctx::Comment => {
            if v.contains("--") || v.ends_with('-') || v.starts_with('-') && false {
                return None;
            }
            v.clone()
        }
        Ctx::Pi => {
            if v.contains("?>") {
                return None;
            }
            v.clone()
        }
        Ctx::Api => {
            match sink.api.unwrap() {
                "background" => cfg.background = v.clone(),
                "font_family" => cfg.font_family = v.clone(),
                _ => cfg.svg_style = Some(v.clone()),
            }
            String::new()
        }
    };
    Some((sink.tpl.replace('@', &spelled), cfg))
}

fn check(c: &Case, cfgs: &[(&'static str, Cfg)]) -> CaseResult {
    let sink = &SINKS[c.sink];
    let mut viol = None;
    let mut execs = 0;
    let mut oks = 0;
    let mut oh = 0u64;
    let mut first_doc = String::new();
    for (cname, base) in cfgs {
        let Some((doc, cfg)) = build(c, base) else { continue };
        if first_doc.is_empty() {
            first_doc = doc.clone();
            // the generated *input* must itself be well-formed, else the case says nothing
            if let Err(e) = xmlref::parse(doc.as_bytes(), if sink.rooted { Mode::Document } else { Mode::Content }) {
                return CaseResult {
                    case_hash: hash64(&doc),
                    nontrivial: false,
                    outcome_hash: 0,
                    executions: 0,
                    violation: Some(Violation {
                        clause: "machinery".into(),
                        signature: format!("C02/machinery/ill-formed-input/{}", sink.name),
                        case: json!({"input": doc}),
                        detail: e.to_string(),
                    }),
                };
            }
        }
        let out = run_bytes(doc.as_bytes(), &cfg);
        execs += 1;
        let atom_names: Vec<&str> = c.atoms.iter().map(|a| ATOMS[*a].0).collect();
        let case = json!({"sink": sink.name, "atoms": atom_names, "input": doc, "rooted": sink.rooted, "config": cfg.to_json(), "config_name": cname});
        let mut mk = |clause: &str, detail: String| {
            if viol.is_none() {
                viol = Some(Violation {
                    clause: clause.to_string(),
                    signature: format!("C02/{}/{clause}/{}", sink.name, atom_names.join("+")),
                    case: case.clone(),
                    detail,
                });
            }
        };
        match &out {
            Outcome::Panic(p) => mk("panic", p.clone()),
            Outcome::Err(_) => {}
            Outcome::Ok(b) => {
                oks += 1;
                oh = hash64(b);
                let mode = if sink.rooted { Mode::Document } else { Mode::Content };
                match xmlref::parse(b, mode) {
                    Err(e) => mk("output-not-well-formed", format!("{e}\noutput: {}", clip(&String::from_utf8_lossy(b), 700))),
                    Ok(evs) => {
                        if sink.rooted {
                            let tree = xmlref::to_tree(&evs);
                            match xmlref::root(&tree) {
                                Some(r) if r.name == "svg" => {
                                    if r.attr("xmlns") != Some(crate::props::c03::NS) {
                                        mk("root-without-svg-namespace", format!("root attributes {:?}", r.attrs));
                                    } else if r.attr("version").is_none() {
                                        mk("root-without-version", format!("root attributes {:?}", r.attrs));
                                    }
                                }
                                Some(r) => mk("root-not-svg", format!("root element is <{}>", r.name)),
                                None => mk("root-missing", "no root".into()),
                            }
                        }
                    }
                }
            }
        }
    }
    CaseResult {
        case_hash: hash64(&(c.sink, &c.atoms)),
        nontrivial: oks > 0 && !c.atoms.is_empty(),
        outcome_hash: oh,
        executions: execs,
        violation: viol,
    }
}

fn atom_strings(max: usize) -> Vec<Vec<usize>> {
    let mut out = vec![vec![]];
    let mut frontier = vec![vec![]];
    for _ in 0..max {
        let mut next = Vec::new();
        for f in &frontier {
            for a in 0..ATOMS.len() {
                let mut g: Vec<usize> = f.clone();
                g.push(a);
                next.push(g);
            }
        }
        out.extend(next.iter().cloned());
        frontier = next;
    }
    out
}

// ------------------------------------------------------------------ lenient inputs

/// Inputs the lenient reader of the subject may accept although they are not well-formed (and some
/// well-formed ones with a DOCTYPE): the property quantifies over EVERY input on which the transform
/// returns Ok.
const LENIENT_TOKENS: &[&[u8]] = &[
    b"<svg>", b"</svg>", b"<svg xmlns=\"http://www.w3.org/2000/svg\">", b"<svg/>", b"<svg wh=\"10\" text=\"t\"/>", b"<rect wh=\"2\"/>", b"<rect wh=\"2\" a=\"1\" a=\"2\"/>", b"<rect wh=2/>", b"<g>", b"</g>",
    b"<text>", b"</text>", b"x", b" ", b"&", b"&nope;", b"&#1;", b"\x01", b"<!-- a -- b -->", b"<re&ct/>", b"<?xml version=\"1.0\"?>", b"<!DOCTYPE svg [<!ENTITY e \"v\">]>", b"&e;", b"<![CDATA[c]]>",
    // well-formed DOCTYPEs with a '>' inside a quoted literal
    b"<!DOCTYPE svg [<!ENTITY arrow \"->\">]>", b"<!DOCTYPE svg SYSTEM \"a>b\">",
];

/// The kind of ill-formedness the independent reader reports, reduced to a stable category.
fn defect_kind(msg: &str) -> String {
    let m = msg.split(": ").last().unwrap_or(msg);
    let kinds = [
        ("character data outside the root element", "content-outside-root"),
        ("CDATA outside the root element", "content-outside-root"),
        ("reference outside the root element", "content-outside-root"),
        ("more than one root element", "content-outside-root"),
        ("document has no root element", "no-root"),
        ("undeclared entity", "undeclared-entity"),
        ("unterminated entity reference", "bare-ampersand"),
        ("invalid Char", "invalid-char"),
        ("character reference to an invalid Char", "invalid-char"),
        ("'--' inside comment", "double-hyphen-in-comment"),
        ("duplicate attribute", "duplicate-attribute"),
        ("attribute value must be quoted", "unquoted-attribute"),
        ("expected a name", "invalid-name"),
        ("white space required before attribute", "invalid-name"),
        ("unclosed element", "unclosed-element"),
        ("misplaced XML declaration", "misplaced-declaration"),
        ("misplaced doctype", "misplaced-doctype"),
    ];
    for (needle, kind) in kinds {
        if m.contains(needle) {
            return kind.to_string();
        }
    }
    format!("other({})", clip(m, 60))
}

fn check_lenient(idx: usize, max: usize) -> CaseResult {
    // decode idx into a token string (shortest first)
    let n = LENIENT_TOKENS.len();
    let (mut i, mut len, mut count) = (idx, 0usize, 1usize);
    while i >= count {
        i -= count;
        len += 1;
        count *= n;
        if len > max {
            return CaseResult { case_hash: hash64(&idx), nontrivial: false, outcome_hash: 0, executions: 0, violation: None };
        }
    }
    let mut doc: Vec<u8> = Vec::new();
    let mut names = Vec::new();
    for _ in 0..len {
        doc.extend_from_slice(LENIENT_TOKENS[i % n]);
        names.push(i % n);
        i /= n;
    }
    let cfg = Cfg::plain();
    let out = run_bytes(&doc, &cfg);
    let mut viol = None;
    let mut nontrivial = false;
    if let Outcome::Panic(p) = &out {
        viol = Some(Violation { clause: "panic".into(), signature: "C02/lenient/panic".into(), case: json!({"leg": "lenient", "input": String::from_utf8_lossy(&doc)}), detail: p.clone() });
    }
    if let Outcome::Ok(b) = &out {
        // first element of the input (as far as one can tell): decides whether a single root is required
        let text = String::from_utf8_lossy(&doc);
        let first_el = text.find('<').map(|p| &text[p..]).unwrap_or("");
        let first_el = first_el.trim_start_matches(|c: char| c != '<');
        let mut rest = first_el;
        // skip prolog items
        loop {
            if rest.starts_with("<?") || rest.starts_with("<!") {
                match rest[1..].find('<') {
                    Some(p) => rest = &rest[p + 1..],
                    None => {
                        rest = "";
                        break;
                    }
                }
            } else {
                break;
            }
        }
        let svg_first = rest.starts_with("<svg");
        let real_svg = rest.starts_with("<svg xmlns=");
        let mode = if svg_first { Mode::Document } else { Mode::Content };
        nontrivial = !b.is_empty();
        if let Err(e) = xmlref::parse(b, mode) {
            let kind = defect_kind(&e.to_string());
            // structural classes of the recorded findings (KNOWN_FINDINGS.txt): what is wrong with the output is
            // exactly what was wrong with the input and the subject copies it (a) verbatim as 'real' SVG, or
            // (b) piece by piece in svgdx mode
            // the input is itself ill-formed if the independent reader rejects it as a document AND as content
            let input_defect = match (xmlref::parse(&doc, Mode::Document), xmlref::parse(&doc, Mode::Content)) {
                (Err(e), Err(_)) => Some(defect_kind(&e.to_string())),
                (Err(e), Ok(_)) if svg_first => Some(defect_kind(&e.to_string())),
                _ => None,
            };
            let class = if real_svg && *b == doc && input_defect.is_some() {
                "real-svg-ill-formed-input-copied-verbatim".to_string()
            } else if input_defect.is_some() {
                format!("ill-formed-input-accepted/{kind}")
            } else {
                format!("output-not-well-formed/{kind}")
            };
            viol = Some(Violation {
                clause: "output-not-well-formed".into(),
                signature: format!("C02/lenient/{class}"),
                case: json!({"leg": "lenient", "input": text, "input_hex": doc.iter().map(|b| format!("{b:02x}")).collect::<String>()}),
                detail: format!("input {:?} (defect of the input: {:?})\noutput is not well-formed: {e}\noutput: {}", text, input_defect, clip(&String::from_utf8_lossy(b), 400)),
            });
        }
    }
    CaseResult { case_hash: hash64(&doc), nontrivial, outcome_hash: hash64(&format!("{out:?}")), executions: 1, violation: viol }
}

pub fn run(tier: Tier) -> i32 {
    let mut rep = Report::new("C02", tier, "exploration");
    let k = tier.pick(2, 3);
    let strings = atom_strings(k);
    let cfgs = configs();
    let mut cases = Vec::new();
    for (si, _) in SINKS.iter().enumerate() {
        for st in &strings {
            cases.push(Case { sink: si, atoms: st.clone() });
        }
    }
    rep.set("rule", json!(format!("All strings of <= {k} atoms from {} hostile atoms (& < > \" ' -- - ]]> <![CDATA[ e-acute emoji tab newline &amp; x space --> </svg>) x {} sinks (every route by which a value reaches the output: pass-through attributes on shapes/groups/root/unknown elements/containers, id, class, style, text-style, text attribute, element/tspan/style/title content, CDATA content, tail text, _ and __ comments, variables flowing into attributes/text/comments/classes, group locals, reuse parameters and attributes, defaults, loop/for/if bodies, expression strings, href/transform/points/path/clip-path, author-supplied copies of synthesised attributes, connectors, surround, source comments and PIs, config element and API background/font-family/svg-style) x {} configurations (default, debug, metadata, no auto styles, local styles, debug+metadata+svg-style, dark). The value is spelled correctly escaped for its source context, so every input is itself well-formed (checked). Oracle on every Ok: independent strict XML reader accepts the output (document mode + <svg> root with SVG namespace and version when the input root is <svg>, content mode for fragments). Non-trivial = at least one configuration returned Ok and the string is non-empty.", ATOMS.len(), SINKS.len(), cfgs.len())));
    rep.set("also_later", json!("Rounds 3-5 added a whole-documents leg: 9 well-formed documents around the DOCTYPE (markup characters in comments, entity values, system literals) and around elements which cannot be read (also inside <specs>) x 7 configurations: an Ok result is a single-rooted <svg> document with namespace and version, never an empty success."));
    let st = run_space(cases.len(), |i| check(&cases[i], &cfgs));
    let mid = &cases[cases.len() / 2 + 7];
    if let Some((d, _)) = build(mid, &cfgs[0].1) {
        rep.sample(json!({"sink": SINKS[mid.sink].name, "doc": d}));
    }
    let last = &cases[cases.len() - 5];
    if let Some((d, _)) = build(last, &cfgs[0].1) {
        rep.sample(json!({"sink": SINKS[last.sink].name, "doc": d}));
    }
    rep.set("sinks", json!(SINKS.len()));
    rep.set("strings", json!(strings.len()));
    rep.absorb("value-flow", st);
    // lenient inputs
    let lmax = tier.pick(3, 4);
    let ltotal: usize = (0..=lmax).map(|l| LENIENT_TOKENS.len().pow(l as u32)).sum();
    let st = run_space(ltotal, |i| check_lenient(i, lmax));
    rep.set("lenient_inputs", json!(ltotal));
    rep.absorb("lenient", st);
    // whole well-formed documents around the prolog and around elements which cannot be read (fourth review round):
    // for an <svg>-rooted input an Ok result is a single-rooted <svg> document with namespace and version
    let wdocs: Vec<(&str, &str)> = vec![
        ("unreadable-element-in-specs/entity", r##"<!DOCTYPE svg [<!ENTITY c "red">]><svg><specs><rect id="a" wh="5" fill="&c;"/></specs><rect wh="5"/></svg>"##),
        ("unreadable-element-in-specs/nested", r##"<!DOCTYPE svg [<!ENTITY c "red">]><!-- kept --><svg><rect wh="5"/><g><specs><rect id="a" wh="5" fill="&c;"/></specs></g><rect wh="5"/></svg>"##),
        ("unreadable-element-in-specs/deeper", r##"<!DOCTYPE svg [<!ENTITY c "red">]><svg><specs><g id="a"><rect wh="5" fill="&c;"/></g></specs><rect wh="5"/></svg>"##),
        ("unreadable-element/plain", r##"<!DOCTYPE svg [<!ENTITY c "red">]><svg><rect id="a" wh="5" fill="&c;"/><rect wh="5"/></svg>"##),
        ("doctype-markup-characters/less-than-in-comment", r##"<!DOCTYPE svg [<!-- a < b -->]><svg><rect wh="5"/></svg><!-- a > b -->"##),
        ("doctype-markup-characters/less-than-in-entity", r##"<!DOCTYPE svg [<!ENTITY lt2 "<">]><svg><rect wh="5"/></svg><!-- > -->"##),
        ("doctype-markup-characters/element-in-system-literal", r##"<!DOCTYPE svg SYSTEM "a><x/>"><svg><rect wh="5"/></svg>"##),
        ("doctype-markup-characters/element-in-entity", r##"<!DOCTYPE svg [<!ENTITY e "a >> b <desc/>">]><svg><rect wh="5"/></svg>"##),
        ("doctype-markup-characters/greater-than-in-entity", r##"<!DOCTYPE svg [<!ENTITY e "a > b">]><svg><rect wh="5"/></svg>"##),
    ];
    let st = run_space(wdocs.len() * cfgs.len(), |i| {
        let ((name, doc), (cname, cfg)) = (wdocs[i / cfgs.len()], &cfgs[i % cfgs.len()]);
        let mut problem = None;
        if let Err(e) = xmlref::parse(doc.as_bytes(), Mode::Document) {
            problem = Some(("machinery-ill-formed-input", e.to_string()));
        }
        let out = run_bytes(doc.as_bytes(), cfg);
        match &out {
            Outcome::Panic(p) => problem = Some(("panic", p.clone())),
            Outcome::Err(_) => {}
            Outcome::Ok(b) => match xmlref::parse(b, Mode::Document) {
                Err(e) => problem = Some(("output-not-a-document", format!("{e}\noutput: {:?}", clip(&String::from_utf8_lossy(b), 400)))),
                Ok(evs) => {
                    let tree = xmlref::to_tree(&evs);
                    match xmlref::root(&tree) {
                        Some(r) if r.name == "svg" && r.attr("xmlns") == Some(crate::props::c03::NS) && r.attr("version").is_some() => {}
                        Some(r) => problem = Some(("root-not-svg-with-namespace-and-version", format!("root <{}> {:?}", r.name, r.attrs))),
                        None => problem = Some(("root-missing", "no root".into())),
                    }
                }
            },
        }
        CaseResult {
            case_hash: hash64(&(doc, cname)),
            nontrivial: matches!(out, Outcome::Ok(_)) && problem.is_none(),
            outcome_hash: hash64(&format!("{out:?}")),
            executions: 1,
            violation: problem.map(|(clause, detail)| Violation { clause: clause.into(), signature: format!("C02/whole-document/{name}/{clause}"), case: json!({"leg": "whole-document", "input": doc, "config": cfg.to_json(), "config_name": cname}), detail: format!("{doc}\n{detail}") }),
        }
    });
    rep.absorb("whole-documents", st);
    // the oracle itself is bound to a second implementation
    match crate::xmlref::expat_conformance(tier.pick(3, 5)) {
        Ok((n, acc)) => rep.set("oracle_conformance", json!({"against": "expat (python3 stdlib)", "documents": n, "accepted_by_both": acc, "rule": "every string of <= k tokens over a 33-token XML alphabet: same well-formedness verdict and same event stream"})),
        Err(e) => rep.machinery_errors.push(format!("xmlref/expat conformance: {e}")),
    }
    rep.assume("inputs are well-formed XML (checked by the same reader); quick-xml's leniency towards ill-formed input is outside this space");
    rep.assume("an Err result is always acceptable for this property");
    rep.finish()
}

pub fn replay_case(case: &Value) -> Option<Violation> {
    let sink = SINKS.iter().position(|s| s.name == case["sink"].as_str().unwrap_or(""))?;
    let atoms: Vec<usize> = case["atoms"]
        .as_array()?
        .iter()
        .filter_map(|a| ATOMS.iter().position(|x| Some(x.0) == a.as_str()))
        .collect();
    let cfgs = configs();
    let cname = case["config_name"].as_str().unwrap_or("default");
    let one: Vec<(&'static str, Cfg)> = cfgs.into_iter().filter(|c| c.0 == cname).collect();
    check(&Case { sink, atoms }, &one).violation
}
