//! C11 — Uniform positioning: equivalent constraints give identical geometry.
//!
//! Fully exhaustive over the combinatorial structure: shape x per-axis
//! constraint pair (6 x 6) x box x every spelling (alternative names, shorthand,
//! separators) x offset/resize forms; oracle = the element's native geometry
//! computed from the box, identical output across all spellings, nothing foreign
//! left behind.

use crate::common::*;
use crate::xmlref::{self, Mode};
use serde_json::{json, Value};

#[derive(Clone, Copy, PartialEq, Debug)]
enum K {
    S,
    E,
    C,
    L,
}
const PAIRS: &[(K, K)] = &[(K::S, K::E), (K::S, K::C), (K::E, K::C), (K::S, K::L), (K::E, K::L), (K::C, K::L)];
const SHAPES: &[&str] = &["rect", "circle", "ellipse", "line"];
/// (x, y, w, h)
const BOXES: &[(f64, f64, f64, f64)] = &[(0., 0., 10., 10.), (-7.25, 3., 20., 4.), (2.5, -4., 3., 12.5), (100., 50., 1., 1.)];
const SQUARES: &[(f64, f64, f64, f64)] = &[(0., 0., 10., 10.), (-3., -3., 6., 6.), (2.5, -4., 12.5, 12.5), (100., 50., 1., 1.)];

/// thorough tier only: more origins and aspect ratios (all exactly representable in f32)
const DEEP_BOXES: &[(f64, f64, f64, f64)] = &[(-100.5, -200.25, 0.5, 300.), (1000., -1000., 250., 125.), (0.125, 0.375, 7.75, 2.625), (-1., -1., 2., 2.), (33., 0., 64., 0.25), (0., -64., 0.75, 48.)];
const DEEP_SQUARES: &[(f64, f64, f64, f64)] = &[(-100.5, -200.25, 0.5, 0.5), (1000., -1000., 250., 250.), (0.125, 0.375, 7.75, 7.75), (-1., -1., 2., 2.), (33., 0., 64., 64.), (0., -64., 0.75, 0.75)];

const GEOM_ATTRS: &[&str] = &[
    "x", "y", "x1", "y1", "x2", "y2", "cx", "cy", "r", "rx", "ry", "width", "height", "xy", "cxy", "xy1", "xy2", "wh", "rxy", "dx", "dy", "dxy", "dw", "dh", "dwh", "xy-loc",
];

fn val(b: (f64, f64, f64, f64), axis: usize, k: K) -> f64 {
    let (s, l) = if axis == 0 { (b.0, b.2) } else { (b.1, b.3) };
    match k {
        K::S => s,
        K::E => s + l,
        K::C => s + l / 2.,
        K::L => l,
    }
}

/// attribute name for (shape, axis, kind, alternative spelling index)
fn name(shape: &str, axis: usize, k: K, alt: usize) -> Option<(&'static str, f64)> {
    // returns (attribute, factor applied to the value: radius spellings take half the length)
    let x = axis == 0;
    Some(match (k, alt) {
        (K::S, 0) => (if shape == "line" { if x { "x1" } else { "y1" } } else if x { "x" } else { "y" }, 1.),
        (K::S, 1) => (if shape == "line" { if x { "x" } else { "y" } } else if x { "x1" } else { "y1" }, 1.),
        (K::E, 0) => (if x { "x2" } else { "y2" }, 1.),
        (K::C, 0) => (if x { "cx" } else { "cy" }, 1.),
        (K::L, 0) => (if x { "width" } else { "height" }, 1.),
        (K::L, 1) if shape == "ellipse" => (if x { "rx" } else { "ry" }, 0.5),
        _ => return None,
    })
}

fn expected_native(shape: &str, b: (f64, f64, f64, f64)) -> Vec<(&'static str, f64)> {
    let (x, y, w, h) = b;
    match shape {
        "rect" => vec![("x", x), ("y", y), ("width", w), ("height", h)],
        "circle" => vec![("cx", x + w / 2.), ("cy", y + h / 2.), ("r", w / 2.)],
        "ellipse" => vec![("cx", x + w / 2.), ("cy", y + h / 2.), ("rx", w / 2.), ("ry", h / 2.)],
        _ => vec![("x1", x), ("y1", y), ("x2", x + w), ("y2", y + h)],
    }
}

#[derive(Clone)]
struct Variant {
    label: String,
    attrs: String,
}

/// all spellings of one (shape, x-pair, y-pair, box) case; the first is the canonical longhand
fn variants(shape: &str, xp: (K, K), yp: (K, K), b: (f64, f64, f64, f64)) -> Vec<Variant> {
    let mut out: Vec<Variant> = Vec::new();
    let kinds = [[xp.0, xp.1], [yp.0, yp.1]];
    // longhand with alternative names: alt index per (axis, slot)
    let mut alts: Vec<[[usize; 2]; 2]> = vec![[[0, 0], [0, 0]]];
    for axis in 0..2 {
        for slot in 0..2 {
            if name(shape, axis, kinds[axis][slot], 1).is_some() {
                let mut more = Vec::new();
                for a in &alts {
                    let mut n = *a;
                    n[axis][slot] = 1;
                    more.push(n);
                }
                alts.extend(more);
            }
        }
    }
    for a in &alts {
        let mut parts = Vec::new();
        for axis in 0..2 {
            for slot in 0..2 {
                let k = kinds[axis][slot];
                let (n, f) = name(shape, axis, k, a[axis][slot]).unwrap();
                parts.push(format!("{n}=\"{}\"", num(val(b, axis, k) * f)));
            }
        }
        // attribute order must not matter either: emit in given and reversed order
        out.push(Variant { label: format!("longhand{a:?}"), attrs: parts.join(" ") });
        let mut rev = parts.clone();
        rev.reverse();
        out.push(Variant { label: format!("longhand-rev{a:?}"), attrs: rev.join(" ") });
    }
    // circle: radius spelling when some axis uses length
    if shape == "circle" {
        let mut parts = Vec::new();
        let mut has_l = false;
        for axis in 0..2 {
            for slot in 0..2 {
                let k = kinds[axis][slot];
                if k == K::L {
                    has_l = true;
                    continue;
                }
                let (n, _) = name(shape, axis, k, 0).unwrap();
                parts.push(format!("{n}=\"{}\"", num(val(b, axis, k))));
            }
        }
        if has_l {
            parts.push(format!("r=\"{}\"", num(b.2 / 2.)));
            out.push(Variant { label: "radius".into(), attrs: parts.join(" ") });
        }
    }
    // shorthands: for each kind present on both axes
    let short = |kx: K, ky: K| -> Option<&'static str> {
        match (kx, ky) {
            (K::S, K::S) => Some(if shape == "line" { "xy1" } else { "xy" }),
            (K::E, K::E) => Some("xy2"),
            (K::C, K::C) => Some("cxy"),
            (K::L, K::L) => Some("wh"),
            _ => None,
        }
    };
    let seps = [" ", ",", ", ", "  "];
    for sx in 0..2 {
        for sy in 0..2 {
            let (kx, ky) = (kinds[0][sx], kinds[1][sy]);
            if kx != ky {
                continue;
            }
            let Some(sh) = short(kx, ky) else { continue };
            let (vx, vy) = (val(b, 0, kx), val(b, 1, ky));
            // the other slot on each axis stays longhand
            let (ox, oy) = (kinds[0][1 - sx], kinds[1][1 - sy]);
            let (nox, _) = name(shape, 0, ox, 0).unwrap();
            let (noy, _) = name(shape, 1, oy, 0).unwrap();
            let rest = format!("{nox}=\"{}\" {noy}=\"{}\"", num(val(b, 0, ox)), num(val(b, 1, oy)));
            let mut names = vec![sh];
            if sh == "xy" && shape != "line" {
                names.push("xy1");
            }
            if sh == "xy1" {
                names.push("xy");
            }
            for n in names {
                for sep in seps {
                    out.push(Variant { label: format!("{n}{sep:?}"), attrs: format!("{n}=\"{}{sep}{}\" {rest}", num(vx), num(vy)) });
                }
                if vx == vy {
                    out.push(Variant { label: format!("{n}-single"), attrs: format!("{n}=\"{}\" {rest}", num(vx)) });
                }
            }
            if sh == "wh" && shape == "ellipse" {
                for sep in seps {
                    out.push(Variant { label: format!("rxy{sep:?}"), attrs: format!("rxy=\"{}{sep}{}\" {rest}", num(vx / 2.), num(vy / 2.)) });
                }
            }
            // both remaining slots as shorthand too, when they are of one kind
            if ox == oy {
                if let Some(sh2) = short(ox, oy) {
                    out.push(Variant {
                        label: format!("{sh}+{sh2}"),
                        attrs: format!("{sh}=\"{} {}\" {sh2}=\"{},{}\"", num(vx), num(vy), num(val(b, 0, ox)), num(val(b, 1, oy))),
                    });
                }
            }
        }
    }
    out
}

fn element_attrs(out: &[u8], shape: &str) -> Result<Vec<(String, String)>, String> {
    let tree = xmlref::parse_tree(out, Mode::Content).map_err(|e| e.to_string())?;
    for n in &tree {
        if let xmlref::Node::El(e) = n {
            if e.name == shape {
                return Ok(e.attrs.clone());
            }
        }
    }
    Err("element not found in output".into())
}

fn check_native(shape: &str, attrs: &[(String, String)], b: (f64, f64, f64, f64)) -> Result<(), String> {
    let exp = expected_native(shape, b);
    for (k, v) in &exp {
        match attrs.iter().find(|(n, _)| n == k).and_then(|(_, s)| parse_num(s)) {
            Some(g) if close(g, *v, 1) => {}
            other => return Err(format!("{k} expected {v}, observed {other:?}")),
        }
    }
    for (n, v) in attrs {
        if GEOM_ATTRS.contains(&n.as_str()) && !exp.iter().any(|(k, _)| k == n) {
            return Err(format!("foreign geometry attribute {n}=\"{v}\" left in the output"));
        }
    }
    Ok(())
}

fn check_base(shape: &str, xp: (K, K), yp: (K, K), b: (f64, f64, f64, f64)) -> CaseResult {
    let vs = variants(shape, xp, yp, b);
    let cfg = Cfg::plain();
    let sig = format!("{shape}/{xp:?}x{yp:?}");
    let mut viol: Option<Violation> = None;
    let mut first: Option<(String, Vec<(String, String)>)> = None;
    let mut execs = 0;
    for v in &vs {
        let doc = format!("<{shape} {} fill=\"none\"/>", v.attrs);
        let out = run_str(&doc, &cfg);
        execs += 1;
        let case = json!({"leg": "base", "input": doc, "shape": shape, "box": [b.0, b.1, b.2, b.3], "variant": v.label});
        let mut mk = |clause: &str, detail: String| {
            if viol.is_none() {
                viol = Some(Violation { clause: clause.into(), signature: format!("C11/{clause}/{sig}/{}", v.label.split('[').next().unwrap_or("")), case: case.clone(), detail });
            }
        };
        match &out {
            Outcome::Panic(p) => mk("panic", p.clone()),
            Outcome::Err(e) => mk("sufficient-constraints-rejected", format!("{doc}: {}", clip(e, 300))),
            Outcome::Ok(o) => match element_attrs(o, shape) {
                Err(e) => mk("unparsable-output", e),
                Ok(mut attrs) => {
                    if let Err(e) = check_native(shape, &attrs, b) {
                        mk("native-geometry", format!("{doc}\n -> {}\nbox {b:?}: {e}", clip(&String::from_utf8_lossy(o), 300)));
                    }
                    attrs.sort();
                    match &first {
                        None => first = Some((doc.clone(), attrs)),
                        Some((d0, a0)) => {
                            if *a0 != attrs {
                                mk("spellings-differ", format!("{d0}\n -> {a0:?}\n{doc}\n -> {attrs:?}"));
                            }
                        }
                    }
                }
            },
        }
    }
    CaseResult {
        case_hash: hash64(&(shape, format!("{xp:?}{yp:?}{b:?}"))),
        nontrivial: viol.is_none() && vs.len() >= 2,
        outcome_hash: hash64(&format!("{first:?}")),
        executions: execs,
        violation: viol,
    }
}

/// dx/dy/dxy and dw/dh/dwh: shorthand == longhand, and the expected box
fn check_delta(shape: &str, b: (f64, f64, f64, f64), form: usize) -> CaseResult {
    // base spelling: start + length on both axes (rect/line), centre + length (circle/ellipse)
    let base = match shape {
        "rect" => format!("x=\"{}\" y=\"{}\" width=\"{}\" height=\"{}\"", num(b.0), num(b.1), num(b.2), num(b.3)),
        "line" => format!("x1=\"{}\" y1=\"{}\" width=\"{}\" height=\"{}\"", num(b.0), num(b.1), num(b.2), num(b.3)),
        _ => format!("cx=\"{}\" cy=\"{}\" width=\"{}\" height=\"{}\"", num(b.0 + b.2 / 2.), num(b.1 + b.3 / 2.), num(b.2), num(b.3)),
    };
    let square = shape == "circle";
    // (list of equivalent spellings, expected box)
    let (spellings, eb): (Vec<String>, (f64, f64, f64, f64)) = match form {
        0 => (vec!["dx=\"2\" dy=\"-3\"".into(), "dxy=\"2 -3\"".into(), "dxy=\"2,-3\"".into(), "dxy=\"2, -3\"".into()], (b.0 + 2., b.1 - 3., b.2, b.3)),
        1 => (vec!["dx=\"1.5\" dy=\"1.5\"".into(), "dxy=\"1.5\"".into(), "dxy=\"1.5 1.5\"".into()], (b.0 + 1.5, b.1 + 1.5, b.2, b.3)),
        2 => {
            let (dw, dh) = if square { (4., 4.) } else { (4., -1.) };
            let anchor_c = shape == "circle" || shape == "ellipse";
            let nb = if anchor_c { (b.0 - dw / 2., b.1 - dh / 2., b.2 + dw, b.3 + dh) } else { (b.0, b.1, b.2 + dw, b.3 + dh) };
            (vec![format!("dw=\"{dw}\" dh=\"{dh}\""), format!("dwh=\"{dw} {dh}\""), format!("dwh=\"{dw},{dh}\"")], nb)
        }
        3 => {
            let anchor_c = shape == "circle" || shape == "ellipse";
            let nb = if anchor_c { (b.0 + b.2 / 4., b.1 + b.3 / 4., b.2 / 2., b.3 / 2.) } else { (b.0, b.1, b.2 / 2., b.3 / 2.) };
            (vec!["dw=\"50%\" dh=\"50%\"".into(), "dwh=\"50%\"".into(), "dwh=\"50% 50%\"".into()], nb)
        }
        _ => {
            (vec!["dx=\"-1\"".into(), "dxy=\"-1 0\"".into()], (b.0 - 1., b.1, b.2, b.3))
        }
    };
    let cfg = Cfg::plain();
    let mut viol: Option<Violation> = None;
    let mut first: Option<(String, Vec<(String, String)>)> = None;
    let mut execs = 0;
    for sp in &spellings {
        let doc = format!("<{shape} {base} {sp}/>");
        let out = run_str(&doc, &cfg);
        execs += 1;
        let case = json!({"leg": "delta", "input": doc, "shape": shape, "form": form, "box": [b.0, b.1, b.2, b.3]});
        let mut mk = |clause: &str, detail: String| {
            if viol.is_none() {
                viol = Some(Violation { clause: clause.into(), signature: format!("C11/delta/{clause}/{shape}/form{form}"), case: case.clone(), detail });
            }
        };
        match &out {
            Outcome::Panic(p) => mk("panic", p.clone()),
            Outcome::Err(e) => mk("rejected", format!("{doc}: {}", clip(e, 300))),
            Outcome::Ok(o) => match element_attrs(o, shape) {
                Err(e) => mk("unparsable-output", e),
                Ok(mut attrs) => {
                    // the resized box is asserted for rect only: what dw/dh mean for the other shapes is
                    // undocumented (attribute-ref.md: TODO); there only shorthand == longhand is checked
                    let assert_box = !(form == 2 || form == 3) || shape == "rect";
                    if assert_box {
                        if let Err(e) = check_native(shape, &attrs, eb) {
                            mk("native-geometry", format!("{doc}\n -> {}\nexpected box {eb:?}: {e}", clip(&String::from_utf8_lossy(o), 300)));
                        }
                    }
                    attrs.sort();
                    match &first {
                        None => first = Some((doc.clone(), attrs)),
                        Some((d0, a0)) => {
                            if *a0 != attrs {
                                mk("shorthand-differs-from-longhand", format!("{d0}\n -> {a0:?}\n{doc}\n -> {attrs:?}"));
                            }
                        }
                    }
                }
            },
        }
    }
    CaseResult {
        case_hash: hash64(&(shape, form, format!("{b:?}"))),
        nontrivial: viol.is_none(),
        outcome_hash: hash64(&format!("{first:?}")),
        executions: execs,
        violation: viol,
    }
}

pub fn run(tier: Tier) -> i32 {
    let mut rep = Report::new("C11", tier, "exploration");
    // the quick tier explores what used to be the thorough space (it takes seconds); `deep` adds the wider bounds
    let deep = tier == Tier::Thorough;
    let tier = Tier::Thorough;
    let mut bases = Vec::new();
    for shape in SHAPES {
        let mut boxes: Vec<(f64, f64, f64, f64)> = (if *shape == "circle" { SQUARES } else { BOXES }).to_vec();
        if deep {
            boxes.extend_from_slice(if *shape == "circle" { DEEP_SQUARES } else { DEEP_BOXES });
        }
        for xp in PAIRS {
            for yp in PAIRS {
                for b in &boxes {
                    bases.push((*shape, *xp, *yp, *b));
                }
            }
        }
    }
    rep.set("rule", json!("Enumerated completely: shape in {rect, circle, ellipse, line} x per-axis constraint pair (6 of {start, end, centre, length}) for x and for y x 4 boxes (negative/fractional origin, unequal sides; squares for circle; the thorough tier adds 6 more boxes: large and small extents, extreme aspect ratios, far origins) x every spelling: alternative attribute names (x/x1, width/rx, r), both attribute orders, shorthand xy/xy1/xy2/cxy/wh/rxy with separators {space, comma, comma-space, two spaces} and single-value form where both values coincide, two shorthands at once. Oracle: the output element carries exactly its native geometry for the box (3-decimal tolerance), no shorthand or foreign geometry attribute, and all spellings of one case give identical attributes. Second leg: dx/dy vs dxy and dw/dh vs dwh (absolute, percent, one value, two values, separators) against the expected moved/resized box. Non-trivial = all spellings accepted and equal."));
    rep.set("also_later", json!("Rounds 4-5 added pairs: a circle given one length and a position on the other axis, dw / dh on circles / ellipses sized in the other spelling, relative radii in the other spelling, two references separated by a comma, defaults of another kind (open)."));
    rep.set("also", json!("Also 11 equivalence pairs: rxy on rect / circle / ellipse against rx + ry (and r), dx / dy / dxy on shapes whose position is defaulted, dwh on a rect whose extent is given by start + end or centre + length."));
    let st = run_space(bases.len(), |i| check_base(bases[i].0, bases[i].1, bases[i].2, bases[i].3));
    let s = &bases[bases.len() / 3];
    rep.sample(json!({"shape": s.0, "x_pair": format!("{:?}", s.1), "y_pair": format!("{:?}", s.2), "box": format!("{:?}", s.3), "spellings": variants(s.0, s.1, s.2, s.3).iter().take(6).map(|v| v.attrs.clone()).collect::<Vec<_>>()}));
    rep.absorb("constraint-pairs", st);
    let mut deltas = Vec::new();
    for shape in SHAPES {
        let mut boxes: Vec<(f64, f64, f64, f64)> = (if *shape == "circle" { SQUARES } else { BOXES }).to_vec();
        if deep {
            boxes.extend_from_slice(if *shape == "circle" { DEEP_SQUARES } else { DEEP_BOXES });
        }
        for b in &boxes {
            for form in 0..5 {
                deltas.push((*shape, *b, form));
            }
        }
    }
    let st = run_space(deltas.len(), |i| check_delta(deltas[i].0, deltas[i].1, deltas[i].2));
    rep.sample(json!({"leg": "delta", "shape": deltas[3].0, "form": deltas[3].2}));
    rep.absorb("deltas", st);
    // shorthand rxy on every shape; offsets on shapes whose position is defaulted; resizing a rect whose extent is
    // given by start and end
    let eq_pairs: Vec<(&str, String, String)> = vec![
        ("rxy-rect", "<rect x=\"1\" y=\"2\" width=\"20\" height=\"10\" rxy=\"3 4\"/>".into(), "<rect x=\"1\" y=\"2\" width=\"20\" height=\"10\" rx=\"3\" ry=\"4\"/>".into()),
        ("rxy-rect-one-value", "<rect x=\"1\" y=\"2\" width=\"20\" height=\"10\" rxy=\"3\"/>".into(), "<rect x=\"1\" y=\"2\" width=\"20\" height=\"10\" rx=\"3\" ry=\"3\"/>".into()),
        ("rxy-circle", "<circle cx=\"10\" cy=\"-4\" rxy=\"5\"/>".into(), "<circle cx=\"10\" cy=\"-4\" rx=\"5\" ry=\"5\"/>".into()),
        ("rxy-circle-vs-r", "<circle cxy=\"10 -4\" rxy=\"5\"/>".into(), "<circle cx=\"10\" cy=\"-4\" r=\"5\"/>".into()),
        ("rxy-ellipse", "<ellipse cx=\"10\" cy=\"-4\" rxy=\"5, 2.5\"/>".into(), "<ellipse cx=\"10\" cy=\"-4\" rx=\"5\" ry=\"2.5\"/>".into()),
        ("default-position-rect", "<rect wh=\"4 2\" dxy=\"2 3\"/>".into(), "<rect x=\"2\" y=\"3\" width=\"4\" height=\"2\"/>".into()),
        ("default-position-circle", "<circle r=\"5\" dxy=\"2\"/>".into(), "<circle cx=\"2\" cy=\"2\" r=\"5\"/>".into()),
        ("default-position-ellipse", "<ellipse rxy=\"5 3\" dxy=\"2\"/>".into(), "<ellipse cx=\"2\" cy=\"2\" rx=\"5\" ry=\"3\"/>".into()),
        ("default-position-ellipse-one-axis", "<ellipse cx=\"5\" rxy=\"5 3\" dy=\"1\"/>".into(), "<ellipse cx=\"5\" cy=\"1\" rx=\"5\" ry=\"3\"/>".into()),
        ("resize-rect-start-end", "<rect x=\"1\" x2=\"11\" y=\"0\" y2=\"10\" dwh=\"2\"/>".into(), "<rect x=\"1\" y=\"0\" width=\"12\" height=\"12\"/>".into()),
        // second review round: one axis by two positions, the other by its length only (position defaulted)
        ("partial/rect-start-end+height", "<rect x=\"1\" x2=\"5\" height=\"3\"/>".into(), "<rect x=\"1\" width=\"4\" height=\"3\"/>".into()),
        ("partial/rect-centre-end+height", "<rect cx=\"3\" x2=\"5\" height=\"3\"/>".into(), "<rect x=\"1\" width=\"4\" height=\"3\"/>".into()),
        ("partial/rect-width+start-end", "<rect width=\"3\" y=\"1\" y2=\"5\"/>".into(), "<rect width=\"3\" y=\"1\" height=\"4\"/>".into()),
        ("partial/ellipse-start-end+ry", "<ellipse x=\"1\" x2=\"5\" ry=\"3\"/>".into(), "<ellipse cx=\"3\" rx=\"2\" ry=\"3\"/>".into()),
        // a longhand from <defaults> does not beat the element's own shorthand
        ("defaults/width-vs-wh", "<defaults><rect width=\"5\"/></defaults><rect xy=\"1\" wh=\"3 4\"/>".into(), "<defaults><rect width=\"5\"/></defaults><rect x=\"1\" y=\"1\" width=\"3\" height=\"4\"/>".into()),
        ("defaults/x-vs-xy", "<defaults><rect x=\"5\"/></defaults><rect xy=\"1 2\" wh=\"3 4\"/>".into(), "<defaults><rect x=\"5\"/></defaults><rect x=\"1\" y=\"2\" width=\"3\" height=\"4\"/>".into()),
        ("defaults/cx-vs-cxy", "<defaults><circle cx=\"5\"/></defaults><circle cxy=\"1 2\" r=\"3\"/>".into(), "<defaults><circle cx=\"5\"/></defaults><circle cx=\"1\" cy=\"2\" r=\"3\"/>".into()),
        ("defaults/rx-vs-rxy", "<defaults><ellipse rx=\"5\"/></defaults><ellipse cxy=\"1 2\" rxy=\"3 4\"/>".into(), "<defaults><ellipse rx=\"5\"/></defaults><ellipse cx=\"1\" cy=\"2\" rx=\"3\" ry=\"4\"/>".into()),
        ("defaults/x2-vs-xy2", "<defaults><line x2=\"50\"/></defaults><line xy1=\"1 2\" xy2=\"3 4\"/>".into(), "<defaults><line x2=\"50\"/></defaults><line x1=\"1\" y1=\"2\" x2=\"3\" y2=\"4\"/>".into()),
        ("defaults/dx-vs-dxy", "<defaults><rect dx=\"5\"/></defaults><rect xy=\"1 2\" wh=\"3 4\" dxy=\"1 1\"/>".into(), "<defaults><rect dx=\"5\"/></defaults><rect xy=\"1 2\" wh=\"3 4\" dx=\"1\" dy=\"1\"/>".into()),
        // a two-value shorthand is split whatever its values look like
        ("split/wh-two-references", "<circle id=\"a\" cxy=\"100 100\" rxy=\"15 20\"/><rect x=\"0\" y=\"0\" wh=\"#a~h #a~w\"/>".into(), "<circle id=\"a\" cxy=\"100 100\" rxy=\"15 20\"/><rect x=\"0\" y=\"0\" width=\"#a~h\" height=\"#a~w\"/>".into()),
        ("split/xy-two-references", "<ellipse id=\"a\" cxy=\"25 40\" rxy=\"15 20\"/><rect xy=\"#a~x2 #a~y2\" wh=\"3\"/>".into(), "<ellipse id=\"a\" cxy=\"25 40\" rxy=\"15 20\"/><rect x=\"#a~x2\" y=\"#a~y2\" wh=\"3\"/>".into()),
        // fourth review round
        ("circle-one-length/width+cy", "<circle width=\"10\" cy=\"5\"/>".into(), "<circle r=\"5\" cy=\"5\"/>".into()),
        ("circle-one-length/rx+cy", "<circle rx=\"5\" cy=\"5\"/>".into(), "<circle r=\"5\" cy=\"5\"/>".into()),
        ("circle-one-length/height+x2", "<circle height=\"10\" x2=\"10\"/>".into(), "<circle r=\"5\" x2=\"10\"/>".into()),
        ("circle-one-length/width+y", "<circle width=\"10\" y=\"3\"/>".into(), "<circle r=\"5\" y=\"3\"/>".into()),
        ("resize-by-alias/circle-wh-dh", "<circle cxy=\"5\" wh=\"10\" dh=\"2\"/>".into(), "<circle cxy=\"5\" r=\"5\" dh=\"2\"/>".into()),
        ("resize-by-alias/circle-rxy-dwh", "<circle cxy=\"5\" rxy=\"5\" dwh=\"2\"/>".into(), "<circle cxy=\"5\" r=\"5\" dwh=\"2\"/>".into()),
        ("resize-by-alias/ellipse-r-dw", "<ellipse cxy=\"5\" r=\"4\" dw=\"2\"/>".into(), "<ellipse cxy=\"5\" rxy=\"4\" dw=\"2\"/>".into()),
        ("relative-radius-alias/circle-rxy", "<circle id=\"a\" cxy=\"50 50\" r=\"15\"/><circle cxy=\"#a\" rxy=\"#a~rx\"/>".into(), "<circle id=\"a\" cxy=\"50 50\" r=\"15\"/><circle cxy=\"#a\" r=\"#a~rx\"/>".into()),
        ("relative-radius-alias/ellipse-r", "<circle id=\"a\" cxy=\"50 50\" r=\"15\"/><ellipse cxy=\"#a\" r=\"#a~rx\"/>".into(), "<circle id=\"a\" cxy=\"50 50\" r=\"15\"/><ellipse cxy=\"#a\" rxy=\"#a~rx\"/>".into()),
        ("split/xy-two-references-comma", "<ellipse id=\"a\" cxy=\"25 40\" rxy=\"15 20\"/><rect xy=\"#a~x2 , #a~y2\" wh=\"3\"/>".into(), "<ellipse id=\"a\" cxy=\"25 40\" rxy=\"15 20\"/><rect x=\"#a~x2\" y=\"#a~y2\" wh=\"3\"/>".into()),
        ("split/wh-two-references-comma", "<circle id=\"a\" cxy=\"100 100\" rxy=\"15 20\"/><rect x=\"0\" y=\"0\" wh=\"#a~h, #a~w\"/>".into(), "<circle id=\"a\" cxy=\"100 100\" rxy=\"15 20\"/><rect x=\"0\" y=\"0\" width=\"#a~h\" height=\"#a~w\"/>".into()),
        ("defaults-other-kind/radius-vs-wh", "<defaults><circle r=\"5\"/></defaults><circle cxy=\"0\" wh=\"2\"/>".into(), "<defaults><circle r=\"5\"/></defaults><circle cxy=\"0\" r=\"1\"/>".into()),
        ("defaults-other-kind/corner-vs-centre", "<defaults><rect x=\"5\" y=\"5\"/></defaults><rect cxy=\"1\" wh=\"2\"/>".into(), "<defaults><rect x=\"5\" y=\"5\"/></defaults><rect xy=\"0\" wh=\"2\"/>".into()),
        // sixth review round: xy-loc goes with xy; without one it means nothing and is not output either
        ("xy-loc-without-xy/rect", "<rect x=\"5\" y=\"5\" xy-loc=\"c\" wh=\"4\"/>".into(), "<rect x=\"5\" y=\"5\" wh=\"4\"/>".into()),
        ("xy-loc-without-xy/circle", "<circle cx=\"5\" cy=\"5\" r=\"2\" xy-loc=\"tl\"/>".into(), "<circle cx=\"5\" cy=\"5\" r=\"2\"/>".into()),
        ("xy-loc-on-text/top", "<text xy=\"10 20\" xy-loc=\"t\" text=\"hi\"/>".into(), "<text x=\"10\" y=\"20\" text=\"hi\"/>".into()),
        ("xy-loc-on-text/left", "<text xy=\"10 20\" xy-loc=\"bl\" text=\"hi\"/>".into(), "<text x=\"10\" y=\"20\" text=\"hi\"/>".into()),
        ("resize-rect-centre-length", "<rect cx=\"6\" width=\"10\" cy=\"5\" height=\"10\" dwh=\"2\"/>".into(), "<rect cx=\"6\" width=\"12\" cy=\"5\" height=\"12\"/>".into()),
    ];
    let st = run_space(eq_pairs.len(), |i| {
        let (name, a, b) = &eq_pairs[i];
        let (oa, ob) = (run_str(a, &Cfg::plain()), run_str(b, &Cfg::plain()));
        // (the element compared is the last one written)
        let shape = a.rsplit('<').next().and_then(|t| t.split(' ').next()).unwrap_or("rect");
        let attrs = |o: &Outcome| match o {
            Outcome::Ok(x) => element_attrs(x, shape).map(|mut v| {
                v.sort();
                v
            }),
            other => Err(other.brief()),
        };
        let (ra, rb) = (attrs(&oa), attrs(&ob));
        let ok = ra.is_ok() && ra == rb;
        CaseResult {
            case_hash: hash64(a),
            nontrivial: ok,
            outcome_hash: hash64(&format!("{oa:?}")),
            executions: 2,
            violation: if ok { None } else { Some(Violation { clause: "equivalent-spellings-differ".into(), signature: format!("C11/equivalent/{name}"), case: json!({"leg": "equivalent", "input": a, "other": b}), detail: format!("{a}\n -> {ra:?}\n{b}\n -> {rb:?}") }) },
        }
    });
    rep.absorb("equivalent", st);
    rep.finish()
}

pub fn replay_case(case: &Value) -> Option<Violation> {
    let doc = case["input"].as_str()?;
    let shape = case["shape"].as_str()?;
    let out = run_str(doc, &Cfg::plain());
    match &out {
        Outcome::Ok(o) => {
            let attrs = element_attrs(o, shape).ok()?;
            Some(Violation { clause: "replay".into(), signature: "C11/replay".into(), case: case.clone(), detail: format!("{attrs:?}") })
        }
        other => Some(Violation { clause: "replay".into(), signature: "C11/replay".into(), case: case.clone(), detail: other.brief() }),
    }
}
