//! C20 — Auto-styles are self-consistent, minimal and leave author styles alone.
//!
//! Bounded-exhaustive sweep over the reserved class vocabulary (every single
//! class, all pairs/triples of one representative per rule family) x carriers x
//! themes x settings, with a generic referential-closure / minimality /
//! completeness oracle over the emitted CSS rules and definitions, and a twin
//! run with auto-styles off to show author content is untouched.

use crate::common::*;
use crate::xmlref::{self, Element, Mode, Node};
use serde_json::{json, Value};
use std::collections::{BTreeMap, BTreeSet};

/// SVG 1.1 colour keywords (https://www.w3.org/TR/SVG11/types.html#ColorKeywords)
const COLOURS: &[&str] = &[
    "aliceblue", "antiquewhite", "aqua", "aquamarine", "azure", "beige", "bisque", "black", "blanchedalmond", "blue", "blueviolet", "brown", "burlywood", "cadetblue",
    "chartreuse", "chocolate", "coral", "cornflowerblue", "cornsilk", "crimson", "cyan", "darkblue", "darkcyan", "darkgoldenrod", "darkgray", "darkgreen", "darkgrey",
    "darkkhaki", "darkmagenta", "darkolivegreen", "darkorange", "darkorchid", "darkred", "darksalmon", "darkseagreen", "darkslateblue", "darkslategray", "darkslategrey",
    "darkturquoise", "darkviolet", "deeppink", "deepskyblue", "dimgray", "dimgrey", "dodgerblue", "firebrick", "floralwhite", "forestgreen", "fuchsia", "gainsboro",
    "ghostwhite", "gold", "goldenrod", "gray", "grey", "green", "greenyellow", "honeydew", "hotpink", "indianred", "indigo", "ivory", "khaki", "lavender", "lavenderblush",
    "lawngreen", "lemonchiffon", "lightblue", "lightcoral", "lightcyan", "lightgoldenrodyellow", "lightgray", "lightgreen", "lightgrey", "lightpink", "lightsalmon",
    "lightseagreen", "lightskyblue", "lightslategray", "lightslategrey", "lightsteelblue", "lightyellow", "lime", "limegreen", "linen", "magenta", "maroon",
    "mediumaquamarine", "mediumblue", "mediumorchid", "mediumpurple", "mediumseagreen", "mediumslateblue", "mediumspringgreen", "mediumturquoise", "mediumvioletred",
    "midnightblue", "mintcream", "mistyrose", "moccasin", "navajowhite", "navy", "oldlace", "olive", "olivedrab", "orange", "orangered", "orchid", "palegoldenrod",
    "palegreen", "paleturquoise", "palevioletred", "papayawhip", "peachpuff", "peru", "pink", "plum", "powderblue", "purple", "red", "rosybrown", "royalblue",
    "saddlebrown", "salmon", "sandybrown", "seagreen", "seashell", "sienna", "silver", "skyblue", "slateblue", "slategray", "slategrey", "snow", "springgreen",
    "steelblue", "tan", "teal", "thistle", "tomato", "turquoise", "violet", "wheat", "white", "whitesmoke", "yellow", "yellowgreen", "none",
];

const TEXT_CLASSES: &[&str] = &[
    "d-text", "d-text-top", "d-text-bottom", "d-text-left", "d-text-right", "d-text-top-vertical", "d-text-bottom-vertical", "d-text-left-vertical", "d-text-right-vertical",
    "d-text-bold", "d-text-normal", "d-text-light", "d-text-italic", "d-text-monospace", "d-text-pre", "d-text-smallest", "d-text-smaller", "d-text-small", "d-text-medium",
    "d-text-large", "d-text-larger", "d-text-largest", "d-text-ol", "d-text-ol-thinner", "d-text-ol-thin", "d-text-ol-medium", "d-text-ol-thick", "d-text-ol-thicker",
];
const ANY_CLASSES: &[&str] = &[
    "d-thinner", "d-thin", "d-thick", "d-thicker", "d-arrow", "d-biarrow", "d-flow-slower", "d-flow-slow", "d-flow", "d-flow-fast", "d-flow-faster", "d-flow-rev", "d-dash",
    "d-dot", "d-dot-dash", "d-grid", "d-grid-h", "d-grid-v", "d-hatch", "d-crosshatch", "d-stipple", "d-softshadow", "d-hardshadow", "d-surround",
];
const PATTERN_FAMILIES: &[&str] = &["d-grid", "d-grid-h", "d-grid-v", "d-hatch", "d-crosshatch", "d-stipple"];
const SUFFIXES: &[(&str, bool)] = &[("1", true), ("5", true), ("100", true), ("101", false), ("05", true), ("x", false), ("5x", false), ("+5", false), ("-5", false), ("5.0", false)];

/// does the reserved vocabulary define a rule for `class` when carried by an element named `el`?
fn rule_expected(class: &str, el: &str) -> bool {
    let is_text = el == "text" || el == "tspan";
    if TEXT_CLASSES.contains(&class) {
        return is_text;
    }
    if ANY_CLASSES.contains(&class) {
        return true;
    }
    for f in PATTERN_FAMILIES {
        if let Some(s) = class.strip_prefix(&format!("{f}-")) {
            // numeric spacing up to 100
            if !s.is_empty() && s.chars().all(|c| c.is_ascii_digit()) && s.parse::<u32>().map(|n| n <= 100).unwrap_or(false) {
                // d-grid-h-5 also starts with d-grid-: only the longest family counts
                let longer = PATTERN_FAMILIES.iter().any(|g| g.len() > f.len() && class.starts_with(&format!("{g}-")));
                if !longer {
                    return true;
                }
            }
        }
    }
    if let Some(c) = class.strip_prefix("d-text-ol-") {
        return is_text && COLOURS.contains(&c);
    }
    if let Some(c) = class.strip_prefix("d-text-") {
        return is_text && COLOURS.contains(&c);
    }
    if let Some(c) = class.strip_prefix("d-fill-") {
        return COLOURS.contains(&c);
    }
    if let Some(c) = class.strip_prefix("d-") {
        return COLOURS.contains(&c);
    }
    false
}

fn classes_in_selector(rule: &str) -> Vec<String> {
    let sel = rule.split('{').next().unwrap_or("");
    let mut out = Vec::new();
    let b = sel.as_bytes();
    let mut i = 0;
    while i < b.len() {
        if b[i] == b'.' {
            let start = i + 1;
            let mut j = start;
            while j < b.len() && (b[j].is_ascii_alphanumeric() || b[j] == b'-' || b[j] == b'_') {
                j += 1;
            }
            if j > start {
                out.push(sel[start..j].to_string());
            }
            i = j;
        } else {
            i += 1;
        }
    }
    out
}

fn url_refs(text: &str) -> Vec<String> {
    let mut out = Vec::new();
    let mut rest = text;
    while let Some(i) = rest.find("url(#") {
        let r = &rest[i + 5..];
        if let Some(j) = r.find(')') {
            out.push(r[..j].to_string());
            rest = &r[j..];
        } else {
            break;
        }
    }
    out
}

/// The generic closure / minimality / completeness oracle.
/// `rules`: emitted CSS rules; `def_ids`: ids of emitted definitions with multiplicity; `defs_text`: their source;
/// `used`: (element name, class) pairs present in the output.
fn closure_oracle(rules: &[String], def_ids: &BTreeMap<String, usize>, defs_text: &str, used: &BTreeSet<(String, String)>) -> Result<(), (String, String)> {
    // (a) referential closure: every url(#id) defined exactly once
    let mut refs: Vec<String> = Vec::new();
    for r in rules {
        refs.extend(url_refs(r));
    }
    refs.extend(url_refs(defs_text));
    for id in &refs {
        match def_ids.get(id) {
            Some(1) => {}
            Some(n) => return Err(("url-defined-more-than-once".into(), format!("url(#{id}) is defined {n} times among the emitted definitions"))),
            None => return Err(("url-undefined".into(), format!("url(#{id}) is referenced by an emitted rule/definition but not defined"))),
        }
    }
    // (b) minimality: every rule naming a reserved class has that class on some output element
    let used_classes: BTreeSet<&str> = used.iter().map(|(_, c)| c.as_str()).collect();
    for r in rules {
        for c in classes_in_selector(r) {
            if c.starts_with("d-") && !used_classes.contains(c.as_str()) {
                return Err(("rule-for-unused-class".into(), format!("rule `{}` is emitted but no output element has class {c}", clip(r, 120))));
            }
        }
    }
    // every definition is referenced by some rule
    for id in def_ids.keys() {
        if !refs.contains(id) {
            return Err(("definition-unreferenced".into(), format!("definition #{id} is emitted but no emitted rule refers to it")));
        }
    }
    // (c) completeness: every reserved class on an element its rule can apply to has a rule
    let mut rule_classes: BTreeSet<String> = BTreeSet::new();
    for r in rules {
        rule_classes.extend(classes_in_selector(r));
    }
    for (el, c) in used {
        if rule_expected(c, el) && !rule_classes.contains(c) {
            return Err(("rule-missing".into(), format!("<{el}> carries the reserved class {c} but no rule for it is emitted")));
        }
    }
    Ok(())
}

fn collect_used(e: &Element, out: &mut BTreeSet<(String, String)>) {
    for c in e.classes() {
        out.insert((e.name.clone(), c.to_string()));
    }
    for ch in e.elements() {
        collect_used(ch, out);
    }
}

struct Injected {
    rules: Vec<String>,
    def_ids: BTreeMap<String, usize>,
    defs_text: String,
    /// root children after the injected blocks (must equal the auto-styles-off output's children)
    rest: Vec<Node>,
}

fn strip_ws(nodes: &[Node]) -> Vec<Node> {
    // white space and (generated, configuration-dependent) comments are not content
    nodes.iter().filter(|n| !matches!(n, Node::Text(t) if t.trim().is_empty()) && !matches!(n, Node::Comment(_))).cloned().collect()
}

/// split the root's children into the injected <defs>/<style> prefix and the rest, given how many
/// leading blocks the author version (auto-styles off) does NOT have
fn split_injected(root: &Element, author_root: &Element) -> Result<Injected, String> {
    let kids = strip_ws(&root.children);
    let akids = strip_ws(&author_root.children);
    if kids.len() < akids.len() {
        return Err("fewer children than without auto-styles".into());
    }
    let extra = kids.len() - akids.len();
    let mut inj = Injected { rules: vec![], def_ids: BTreeMap::new(), defs_text: String::new(), rest: kids[extra..].to_vec() };
    for n in &kids[..extra] {
        match n {
            Node::El(e) if e.name == "defs" => {
                for d in e.descendants() {
                    if let Some(id) = d.attr("id") {
                        *inj.def_ids.entry(id.to_string()).or_insert(0) += 1;
                    }
                    for (_, v) in &d.attrs {
                        inj.defs_text.push_str(v);
                        inj.defs_text.push(' ');
                    }
                }
            }
            Node::El(e) if e.name == "style" => {
                for line in e.text().lines() {
                    let l = line.trim();
                    if !l.is_empty() {
                        inj.rules.push(l.to_string());
                    }
                }
            }
            Node::Comment(_) => {}
            other => return Err(format!("unexpected injected node {other:?}")),
        }
    }
    Ok(inj)
}

struct Doc {
    body: String,
    root: bool,
    author: usize,
    /// attributes of the root element itself (classes, id), with a leading blank
    root_attrs: String,
}

const AUTHOR: &[&str] = &[
    "",
    "<style>rect.mine { fill: url(#mygrad); } .d-red { stroke-width: 9; }</style>",
    "<defs><linearGradient id=\"mygrad\"><stop offset=\"0\"/></linearGradient><marker id=\"d-arrow-mine\"/></defs>",
    "<defs><pattern id=\"grid\" width=\"3\" height=\"3\"/></defs><style><![CDATA[ .x > .y { a: b; } ]]></style>",
];

fn document(d: &Doc) -> String {
    let inner = format!("{}{}", AUTHOR[d.author], d.body);
    if d.root {
        if inner.is_empty() {
            format!("<svg{}/>", d.root_attrs)
        } else {
            format!("<svg{}>{inner}</svg>", d.root_attrs)
        }
    } else {
        inner
    }
}

fn carrier(class_list: &str, which: usize) -> String {
    match which {
        0 => format!("<rect wh=\"10\" class=\"{class_list}\"/>"),
        1 => format!("<line xy1=\"0\" xy2=\"10 5\" class=\"{class_list}\"/>"),
        2 => format!("<rect wh=\"10\" class=\"{class_list}\" text=\"t\"/>"),
        3 => format!("<text xy=\"1 2\" class=\"{class_list}\" text=\"t\"/>"),
        _ => format!("<g class=\"{class_list}\"><circle r=\"2\"/><path d=\"M0 0 5 5\" class=\"{class_list}\"/></g>"),
    }
}

fn check_doc(d: &Doc, cfg: &Cfg, cfg_name: &str, sig_class: &str) -> CaseResult {
    let doc = document(d);
    let on = run_str(&doc, cfg);
    let off = run_str(&doc, &Cfg { add_auto_styles: false, ..cfg.clone() });
    let case = json!({"leg": "documents", "input": doc, "config": cfg.to_json(), "config_name": cfg_name});
    let mut viol = None;
    let mut mk = |clause: &str, detail: String| {
        if viol.is_none() {
            viol = Some(Violation { clause: clause.into(), signature: format!("C20/{clause}/{sig_class}"), case: case.clone(), detail });
        }
    };
    let mut nontrivial = false;
    match (&on, &off) {
        (Outcome::Panic(p), _) | (_, Outcome::Panic(p)) => mk("panic", p.clone()),
        (Outcome::Ok(a), Outcome::Ok(b)) => {
            if !d.root || !cfg.add_auto_styles {
                // fragment or auto-styles disabled: nothing may be injected
                // (the debug configuration writes the configuration itself into a comment, which differs by design)
                let strip = |x: &[u8]| -> String {
                    let t = String::from_utf8_lossy(x).to_string();
                    match (t.find("<!-- Config:"), t.find("<!-- Config:").and_then(|i| t[i..].find("-->").map(|j| i + j + 3))) {
                        (Some(i), Some(j)) => format!("{}{}", &t[..i], &t[j..]),
                        _ => t,
                    }
                };
                if strip(a) != strip(b) {
                    mk("injected-without-root-or-when-disabled", format!("{doc}\nwith auto-styles: {}\nwithout: {}", clip(&String::from_utf8_lossy(a), 300), clip(&String::from_utf8_lossy(b), 300)));
                }
                let t = String::from_utf8_lossy(a);
                if AUTHOR[d.author].is_empty() && (t.contains("<style") || t.contains("<defs")) {
                    mk("injected-without-root-or-when-disabled", clip(&t, 300));
                }
                if d.root && !d.root_attrs.contains("id=") && t.contains(" id=\"svgdx-") {
                    mk("injected-without-root-or-when-disabled", format!("a generated id on the root although nothing is injected: {}", clip(&t, 200)));
                }
            } else {
                let (ta, tb) = (xmlref::parse_tree(a, Mode::Document), xmlref::parse_tree(b, Mode::Document));
                match (ta, tb) {
                    (Ok(ta), Ok(tb)) => {
                        let (ra, rb) = (xmlref::root(&ta).unwrap(), xmlref::root(&tb).unwrap());
                        match split_injected(ra, rb) {
                            Err(e) => mk("author-content-changed", format!("{doc}\n{e}\n{}", clip(&String::from_utf8_lossy(a), 400))),
                            Ok(inj) => {
                                if inj.rest != strip_ws(&rb.children) {
                                    mk("author-content-changed", format!("{doc}\nwith auto-styles the document content differs from the content without:\n{}\nvs\n{}", clip(&String::from_utf8_lossy(a), 500), clip(&String::from_utf8_lossy(b), 300)));
                                }
                                let mut used = BTreeSet::new();
                                // the root element is an output element too
                                for c in ra.classes() {
                                    if c.starts_with("d-") {
                                        used.insert(("svg".to_string(), c.to_string()));
                                    }
                                }
                                if cfg.use_local_styles {
                                    // local styles are scoped to an id: it must be the root element's
                                    let text = String::from_utf8_lossy(a);
                                    if let Some(pos) = text.find("svg#") {
                                        // the selector is a CSS identifier: `\` escapes the next character, `\31 ` is a code point
                                        let raw: Vec<char> = text[pos + 4..].chars().collect();
                                        let mut scope = String::new();
                                        let mut k = 0;
                                        while k < raw.len() {
                                            let c = raw[k];
                                            if c == '\\' && k + 1 < raw.len() {
                                                let hex: String = raw[k + 1..].iter().take(6).take_while(|h| h.is_ascii_hexdigit()).collect();
                                                if !hex.is_empty() {
                                                    scope.push(char::from_u32(u32::from_str_radix(&hex, 16).unwrap_or(0xFFFD)).unwrap_or('\u{FFFD}'));
                                                    k += 1 + hex.len();
                                                    if raw.get(k) == Some(&' ') {
                                                        k += 1;
                                                    }
                                                } else {
                                                    scope.push(raw[k + 1]);
                                                    k += 2;
                                                }
                                                continue;
                                            }
                                            if c.is_whitespace() || c == '{' || c == '.' || c == ':' || c == ',' || c == '>' {
                                                break;
                                            }
                                            scope.push(c);
                                            k += 1;
                                        }
                                        // (nor with a hyphen followed by a digit, nor be a hyphen alone)
                                        let hyphen_digit = raw.first() == Some(&'-') && raw.get(1).map_or(true, |c| c.is_ascii_digit());
                                        if raw.first().is_some_and(|c| c.is_ascii_digit()) || hyphen_digit || scope.is_empty() {
                                            // (an identifier cannot start with an unescaped digit: the selector matches nothing)
                                            scope = format!("<invalid selector #{scope}>");
                                        }
                                        if ra.attr("id") != Some(scope.as_str()) {
                                            mk("local-style-scope-is-not-the-root-id", format!("{doc}\nrules are scoped to #{scope} but the root element has id {:?}", ra.attr("id")));
                                        }
                                    }
                                    // a rule for a class which only the root element carries must be able to match the root:
                                    // inside the nested "#id {" block a plain ".class" selects descendants only
                                    let elsewhere: BTreeSet<String> = {
                                        let mut below = BTreeSet::new();
                                        for n in &inj.rest {
                                            if let Node::El(e) = n {
                                                collect_used(e, &mut below);
                                            }
                                        }
                                        below.into_iter().map(|(_, c)| c).collect()
                                    };
                                    if let Some(block) = text.find(" {\n").and_then(|_| text.find("\n      #")).map(|p| &text[p..]) {
                                        for c in ra.classes() {
                                            let plain = format!("\n      .{c} {{");
                                            let on_root = [format!("&.{c}"), format!("svg.{c}"), format!("#{}.{c}", ra.attr("id").unwrap_or(""))];
                                            if c.starts_with("d-") && !elsewhere.contains(c) && block.contains(&plain) && !on_root.iter().any(|s| text.contains(s.as_str())) {
                                                mk("local-rule-cannot-match-the-root", format!("{doc}\nthe rule for .{c} is nested in the block scoped to the root's id, where it selects descendants only; the root is the only element carrying the class"));
                                            }
                                        }
                                    }
                                }
                                for n in &inj.rest {
                                    if let Node::El(e) = n {
                                        collect_used(e, &mut used);
                                    }
                                }
                                if let Err((clause, detail)) = closure_oracle(&inj.rules, &inj.def_ids, &inj.defs_text, &used) {
                                    mk(&clause, format!("{doc}\n{detail}"));
                                } else {
                                    nontrivial = !inj.rules.is_empty();
                                }
                            }
                        }
                    }
                    _ => mk("unparsable-output", clip(&String::from_utf8_lossy(a), 300)),
                }
            }
        }
        (Outcome::Err(_), Outcome::Err(_)) => {}
        (x, y) => mk("auto-styles-change-success", format!("{doc}\nwith: {}\nwithout: {}", clip(&x.brief(), 200), clip(&y.brief(), 200))),
    }
    CaseResult { case_hash: hash64(&(doc, cfg_name)), nontrivial, outcome_hash: hash64(&format!("{on:?}")), executions: 2, violation: viol }
}

fn vocabulary() -> Vec<String> {
    let mut v: Vec<String> = Vec::new();
    for c in COLOURS {
        for p in ["d-", "d-fill-", "d-text-", "d-text-ol-"] {
            v.push(format!("{p}{c}"));
        }
    }
    v.extend(TEXT_CLASSES.iter().map(|s| s.to_string()));
    v.extend(ANY_CLASSES.iter().map(|s| s.to_string()));
    for f in PATTERN_FAMILIES {
        for (s, _) in SUFFIXES {
            v.push(format!("{f}-{s}"));
        }
    }
    v.push("d-text-outside".into());
    v.push("d-text-inside".into());
    v.push("d-text-vertical".into());
    v.push("d-inside".into());
    v.push("d-nonsense".into());
    v
}

const FAMILY_REPS: &[&str] = &[
    "d-red", "d-fill-darkblue", "d-text-green", "d-text-ol-white", "d-none", "d-text-bold", "d-text-large", "d-text-ol-thick", "d-thick", "d-arrow", "d-biarrow", "d-flow-fast",
    "d-flow-rev", "d-dash", "d-dot-dash", "d-grid", "d-grid-h-5", "d-hatch-3", "d-stipple", "d-softshadow", "d-hardshadow", "d-surround",
];

fn configs() -> Vec<(&'static str, Cfg)> {
    let d = Cfg::default();
    let mut v = vec![("default", d.clone())];
    for t in ["bold", "fine", "glass", "light", "dark"] {
        v.push((t, Cfg { theme: t.into(), ..d.clone() }));
    }
    v.push(("background", Cfg { background: "papayawhip".into(), ..d.clone() }));
    v.push(("font", Cfg { font_family: "monospace".into(), font_size: 4.5, ..d.clone() }));
    v.push(("debug", Cfg { debug: true, ..d.clone() }));
    v.push(("disabled", Cfg { add_auto_styles: false, ..d.clone() }));
    v
}

pub fn run(tier: Tier) -> i32 {
    let mut rep = Report::new("C20", tier, "exploration");
    let vocab = vocabulary();
    let cfgs = configs();
    // ---- documents: every single class x carrier x theme/setting, root and fragment, author blocks
    let mut docs: Vec<(Doc, usize, String)> = Vec::new();
    for (ci, c) in vocab.iter().enumerate() {
        for which in 0..5 {
            for (k, _) in cfgs.iter().enumerate() {
                if tier == Tier::Quick && (ci + which + k) % 5 != 0 && !FAMILY_REPS.contains(&c.as_str()) {
                    continue;
                }
                docs.push((Doc { body: carrier(c, which), root: true, author: (ci + which) % AUTHOR.len(), root_attrs: String::new() }, k, format!("single/{c}")));
            }
        }
        docs.push((Doc { body: carrier(c, ci % 5), root: false, author: 0, root_attrs: String::new() }, 0, format!("fragment/{c}")));
    }
    // all pairs and triples of family representatives (1 771 subsets)
    let n = FAMILY_REPS.len();
    let mut subsets: Vec<Vec<usize>> = Vec::new();
    for a in 0..n {
        for b in (a + 1)..n {
            subsets.push(vec![a, b]);
            for c in (b + 1)..n {
                subsets.push(vec![a, b, c]);
            }
        }
    }
    for (si, s) in subsets.iter().enumerate() {
        let classes: Vec<&str> = s.iter().map(|i| FAMILY_REPS[*i]).collect();
        // spread the classes over two carriers so that element kinds mix
        let body = format!("{}{}", carrier(&classes[..1].join(" "), 1 + si % 3), carrier(&classes[1..].join(" "), (si + 2) % 5));
        for (k, _) in cfgs.iter().enumerate() {
            if (tier == Tier::Quick && (si + k) % 4 != 0) || (k > 5 && si % 3 != 0) {
                continue;
            }
            docs.push((Doc { body: body.clone(), root: true, author: si % AUTHOR.len(), root_attrs: String::new() }, k, format!("subset/{}", classes.join("+"))));
        }
    }
    // fragments in which an <svg> is not the first element: nothing is injected, whatever precedes it
    for (ci, c) in FAMILY_REPS.iter().enumerate() {
        for pre in ["<rect wh=\"3\"/>", "<rect wh=\"3\"/><circle r=\"1\"/>", "<g><rect wh=\"3\"/></g>", "<text xy=\"0\" text=\"t\"/>"] {
            docs.push((Doc { body: format!("{pre}<svg>{}</svg>", carrier(c, ci % 5)), root: false, author: 0, root_attrs: String::new() }, ci % cfgs.len(), format!("fragment-with-later-svg/{c}")));
        }
    }
    // classes carried by the elements of a nested SVG document which is passed through as it is
    for (ci, c) in FAMILY_REPS.iter().enumerate() {
        docs.push((Doc { body: format!("<svg xmlns=\"http://www.w3.org/2000/svg\"><rect width=\"5\" height=\"5\" class=\"{c}\"/><text x=\"1\" y=\"2\" class=\"{c}\">t</text></svg>"), root: true, author: ci % AUTHOR.len(), root_attrs: String::new() }, ci % cfgs.len(), format!("in-passed-through-svg/{c}")));
    }
    // ... also when the class list is separated by a line break or a tab
    for (si, sep) in ["\n", "&#9;", "  "].iter().enumerate() {
        docs.push((Doc { body: format!("<svg xmlns=\"http://www.w3.org/2000/svg\"><rect width=\"5\" height=\"5\" class=\"d-fill-red{sep}d-softshadow\"/></svg>"), root: true, author: 0, root_attrs: String::new() }, 0, format!("in-passed-through-svg-separator/{si}")));
    }
    // classes on the root element itself (with content, and as an empty root)
    for (ci, c) in vocab.iter().enumerate() {
        if FAMILY_REPS.contains(&c.as_str()) || ci % 7 == 0 {
            docs.push((Doc { body: "<rect wh=\"5\"/>".into(), root: true, author: ci % AUTHOR.len(), root_attrs: format!(" class=\"{c}\"") }, ci % cfgs.len(), format!("root-class/{c}")));
            docs.push((Doc { body: String::new(), root: true, author: 0, root_attrs: format!(" class=\"{c} other\"") }, 0, format!("empty-root-class/{c}")));
        }
    }
    // local styles with an author-supplied id on the root: the scope must be an id the output has
    for c in FAMILY_REPS.iter().take(6) {
        docs.push((Doc { body: carrier(c, 2), root: true, author: 0, root_attrs: " id=\"mine\"".into() }, usize::MAX, format!("local-author-id/{c}")));
    }
    // ... whatever characters that id is made of
    for (k, id) in ["fig.1", "a:b", "1st", "x.y:z-1", "\u{e9}t\u{e9}", "a b", "", "-1", "-", "--x", "-a"].iter().enumerate() {
        docs.push((Doc { body: carrier(FAMILY_REPS[k % 6], 2), root: true, author: 0, root_attrs: format!(" id=\"{id}\"") }, usize::MAX, format!("local-author-id-chars/{k}")));
    }
    // ... and with classes which only the root carries
    for c in ["d-fill-red", "d-softshadow", "d-grid-5"] {
        docs.push((Doc { body: "<rect wh=\"5\"/>".into(), root: true, author: 0, root_attrs: format!(" class=\"{c}\"") }, usize::MAX, format!("local-root-class/{c}")));
    }
    // local styles requested but auto-styles off: nothing at all is injected, not even an id
    docs.push((Doc { body: carrier("d-red", 0), root: true, author: 0, root_attrs: String::new() }, usize::MAX - 1, "local-but-disabled".into()));
    // local styles (random root id): closure must still hold
    for c in FAMILY_REPS {
        docs.push((Doc { body: carrier(c, 2), root: true, author: 0, root_attrs: String::new() }, usize::MAX, format!("local/{c}")));
    }
    let local = Cfg { use_local_styles: true, ..Cfg::default() };
    rep.set("rule", json!(format!("Reserved vocabulary of {} classes: 148 colour keywords x {{d-, d-fill-, d-text-, d-text-ol-}}, 28 text alignment/weight/size/outline classes, stroke widths, arrows, flow/dash classes, 6 pattern families plain and with suffixes {{1, 5, 100, 101, 05, x, 5x}}, shadows, surround, plus non-rule classes (d-text-outside, d-inside, d-nonsense). (documents) every single class x 5 carriers (rect, line, rect with text, text, group with path) x 10 configurations (6 themes, background, font, debug, auto-styles off) x 4 author <style>/<defs> variants, each class also in a fragment; all pairs and triples of 22 family representatives (1 771 subsets) spread over two carriers; local styles. Each document is run with auto-styles on and off: the content after the injected blocks must equal the off-output (author style/defs intact; nothing injected for fragments / when disabled), every url(#id) in an emitted rule or definition is defined exactly once, every rule naming a d- class has that class on an output element, every definition is referenced, and every reserved class on an element its rule can apply to has a rule. (probe) the same oracle on the theme builder directly for every single class and every pair of the vocabulary x element sets x 6 themes. Non-trivial = rules were injected and all clauses hold.", vocab.len())));
    rep.set("also_later", json!("Round 4 added: class lists separated by a line break / tab inside a passed-through <svg>; root ids '-1', '-', '--x', '-a' with local styles (the CSS identifier rule for a leading hyphen)."));
    rep.set("also", json!("Also: reserved classes on the root element itself (with content and as an empty root); local styles with an author-supplied root id (rules must be scoped to an id the output has); local styles requested with auto-styles off (nothing injected, no id)."));
    let st = run_space(docs.len(), |i| {
        let (d, k, sig) = &docs[i];
        if *k == usize::MAX {
            check_doc(d, &local, "local-styles", sig)
        } else if *k == usize::MAX - 1 {
            check_doc(d, &Cfg { add_auto_styles: false, ..local.clone() }, "local-styles-disabled", sig)
        } else {
            check_doc(d, &cfgs[*k].1, cfgs[*k].0, sig)
        }
    });
    rep.sample(json!({"leg": "documents", "doc": document(&docs[docs.len() / 2].0)}));
    rep.absorb("documents", st);

    // ---- probe: theme builder directly
    let themes = ["default", "bold", "fine", "glass", "light", "dark"];
    let elsets: &[&[&str]] = &[&["rect", "text"], &["line"], &["text", "tspan", "path"]];
    let nv = vocab.len();
    let pairs: usize = if tier == Tier::Quick { nv * 40 } else { nv * nv };
    let st = run_space(nv + pairs, |i| {
        let classes: Vec<&str> = if i < nv {
            vec![vocab[i].as_str()]
        } else {
            let j = i - nv;
            if tier == Tier::Quick {
                vec![vocab[j / 40].as_str(), vocab[(j % 40) * (nv / 40)].as_str()]
            } else {
                vec![vocab[j / nv].as_str(), vocab[j % nv].as_str()]
            }
        };
        let mut viol = None;
        let mut execs = 0;
        let mut any_rules = false;
        for (ti, t) in themes.iter().enumerate() {
            let els = elsets[(i + ti) % elsets.len()];
            let cfg = Cfg { theme: t.to_string(), ..Cfg::default() };
            let tc = cfg.to_tc();
            let r = std::panic::catch_unwind(|| svgdx::verif::theme_probe(els, &classes, &tc));
            execs += 1;
            let Ok((defs, styles)) = r else {
                viol = Some(("panic".to_string(), "theme builder panicked".to_string()));
                break;
            };
            let mut def_ids = BTreeMap::new();
            let mut defs_text = String::new();
            for d in &defs {
                if let Ok(tree) = xmlref::parse_tree(d.as_bytes(), Mode::Content) {
                    for n in &tree {
                        if let Node::El(e) = n {
                            for x in e.descendants() {
                                if let Some(id) = x.attr("id") {
                                    *def_ids.entry(id.to_string()).or_insert(0) += 1;
                                }
                                for (_, v) in &x.attrs {
                                    defs_text.push_str(v);
                                    defs_text.push(' ');
                                }
                            }
                        }
                    }
                } else {
                    viol = Some(("definition-not-well-formed".to_string(), clip(d, 200)));
                }
            }
            let rules: Vec<String> = styles.iter().flat_map(|s| s.lines().map(|l| l.trim().to_string())).filter(|l| !l.is_empty()).collect();
            any_rules |= rules.iter().any(|r| r.contains(".d-"));
            let mut used = BTreeSet::new();
            for e in els {
                for c in &classes {
                    used.insert((e.to_string(), c.to_string()));
                }
            }
            if viol.is_none() {
                if let Err((clause, detail)) = closure_oracle(&rules, &def_ids, &defs_text, &used) {
                    viol = Some((clause, format!("theme {t}, elements {els:?}, classes {classes:?}: {detail}")));
                }
            }
        }
        CaseResult {
            case_hash: hash64(&classes),
            nontrivial: any_rules && viol.is_none(),
            outcome_hash: hash64(&(classes.clone(), viol.is_some())),
            executions: execs,
            violation: viol.map(|(c, d)| Violation { clause: c.clone(), signature: format!("C20/probe/{c}/{}", classes.join("+")), case: json!({"leg": "probe", "classes": classes}), detail: d }),
        }
    });
    rep.absorb("probe", st);
    rep.assume("the reserved vocabulary and which element kinds a class's rule can apply to are taken from styles.md and the SVG colour keyword list, embedded in the checker");
    rep.finish()
}

pub fn replay_case(case: &Value) -> Option<Violation> {
    match case["leg"].as_str()? {
        "documents" => {
            let doc = case["input"].as_str()?;
            let cfg = Cfg::from_json(&case["config"]);
            let root = doc.starts_with("<svg>");
            let body = if root { doc.strip_prefix("<svg>")?.strip_suffix("</svg>")?.to_string() } else { doc.to_string() };
            check_doc(&Doc { body, root, author: 0, root_attrs: String::new() }, &cfg, "replay", "replay").violation
        }
        _ => Some(Violation { clause: "replay".into(), signature: "C20/replay".into(), case: case.clone(), detail: "probe cases are replayed by re-running the check".into() }),
    }
}
