//! C12 — Containment: surround encloses, inside is enclosed.
//!
//! Bounded-exhaustive lists of 1-3 references x container kind x mode x margin
//! form, with a geometric oracle computed from the references' known shapes.

use crate::common::*;
use crate::geom::{self, BBox};
use crate::xmlref::{self, Element, Mode};
use serde_json::{json, Value};

#[derive(Clone, Copy, Debug, PartialEq)]
enum Shape {
    Rect,
    Circle { cx: f64, cy: f64, r: f64 },
    Ellipse { cx: f64, cy: f64, rx: f64, ry: f64 },
    /// bounding box only (line, group, derived elements)
    BoxOnly,
}

struct RefEl {
    id: &'static str,
    src: &'static str,
    bbox: (f64, f64, f64, f64),
    shape: Shape,
}

const REFS: &[RefEl] = &[
    RefEl { id: "r1", src: r#"<rect id="r1" xy="0 0" wh="20 10"/>"#, bbox: (0., 0., 20., 10.), shape: Shape::Rect },
    RefEl { id: "r2", src: r#"<rect id="r2" xy="5 3" wh="20 12"/>"#, bbox: (5., 3., 25., 15.), shape: Shape::Rect },
    RefEl { id: "r3", src: r#"<rect id="r3" x="-7.25" y="3" width="20" height="4"/>"#, bbox: (-7.25, 3., 12.75, 7.), shape: Shape::Rect },
    RefEl { id: "r4", src: r#"<rect id="r4" xy="30 30" wh="5"/>"#, bbox: (30., 30., 35., 35.), shape: Shape::Rect },
    RefEl { id: "r5", src: r#"<rect id="r5" xy="6 4" wh="4 2.5"/>"#, bbox: (6., 4., 10., 6.5), shape: Shape::Rect },
    RefEl { id: "c1", src: r#"<circle id="c1" cxy="10 5" r="8"/>"#, bbox: (2., -3., 18., 13.), shape: Shape::Circle { cx: 10., cy: 5., r: 8. } },
    RefEl { id: "e1", src: r#"<ellipse id="e1" cxy="12 6" rxy="10 4"/>"#, bbox: (2., 2., 22., 10.), shape: Shape::Ellipse { cx: 12., cy: 6., rx: 10., ry: 4. } },
    RefEl { id: "l1", src: r#"<line id="l1" xy1="0 10" xy2="20 0"/>"#, bbox: (0., 0., 20., 10.), shape: Shape::BoxOnly },
    RefEl { id: "g1", src: r#"<g id="g1"><rect xy="1 1" wh="4 2"/><rect xy="10 6" wh="2 6"/></g>"#, bbox: (1., 1., 12., 12.), shape: Shape::BoxOnly },
    // references carrying a transform of their own
    RefEl { id: "rt", src: r#"<rect id="rt" xy="0 0" wh="10 4" transform="translate(14 2)"/>"#, bbox: (14., 2., 24., 6.), shape: Shape::Rect },
    RefEl { id: "rm", src: r#"<rect id="rm" xy="0 0" wh="10 4" transform="matrix(1 0 0 1 8 3)"/>"#, bbox: (8., 3., 18., 7.), shape: Shape::Rect },
    RefEl { id: "rr", src: r#"<rect id="rr" xy="0 -25" wh="12 20" transform="rotate(90)"/>"#, bbox: (5., 0., 25., 12.), shape: Shape::Rect },
    RefEl { id: "ct", src: r#"<circle id="ct" cxy="0 0" r="8" transform="translate(10 5)"/>"#, bbox: (2., -3., 18., 13.), shape: Shape::Circle { cx: 10., cy: 5., r: 8. } },
    RefEl { id: "et", src: r#"<ellipse id="et" cxy="6 3" rxy="5 2" transform="scale(2)"/>"#, bbox: (2., 2., 22., 10.), shape: Shape::Ellipse { cx: 12., cy: 6., rx: 10., ry: 4. } },
    // derived references: a previous surround / inside element
    RefEl { id: "s1", src: r##"<rect id="s1" surround="#r1 #r2" margin="1"/>"##, bbox: (-1., -1., 26., 16.), shape: Shape::Rect },
    RefEl { id: "i1", src: r##"<rect id="i1" inside="#r1 #r2"/>"##, bbox: (5., 3., 20., 10.), shape: Shape::Rect },
];

/// (source, [top, right, bottom, left] as (is_percent, value))
fn margins() -> Vec<(&'static str, [(bool, f64); 4])> {
    let a = |v: f64| (false, v);
    let p = |v: f64| (true, v);
    vec![
        ("", [a(0.); 4]),
        ("2", [a(2.); 4]),
        ("1 2", [a(1.), a(2.), a(1.), a(2.)]),
        ("1 2 3", [a(1.), a(2.), a(3.), a(2.)]),
        ("1 2 3 4", [a(1.), a(2.), a(3.), a(4.)]),
        ("1, 2.5 , 0 4", [a(1.), a(2.5), a(0.), a(4.)]),
        ("10%", [p(10.); 4]),
        ("5% 2", [p(5.), a(2.), p(5.), a(2.)]),
        ("-1", [a(-1.); 4]),
        ("0", [a(0.); 4]),
    ]
}

fn all_abs(m: &[(bool, f64); 4]) -> bool {
    m.iter().all(|x| !x.0)
}

fn grow(b: &BBox, m: &[(bool, f64); 4], sign: f64) -> BBox {
    // absolute margins only
    BBox::new(b.x1 - sign * m[3].1, b.y1 - sign * m[0].1, b.x2 + sign * m[1].1, b.y2 + sign * m[2].1)
}

#[derive(Clone, Debug)]
enum Observed {
    Rect(BBox),
    Circle { cx: f64, cy: f64, r: f64 },
    Ellipse { cx: f64, cy: f64, rx: f64, ry: f64 },
}

fn observe(e: &Element) -> Option<Observed> {
    let f = |k: &str| -> Option<f64> { e.attr(k).and_then(|s| s.parse().ok()) };
    let f0 = |k: &str| -> Option<f64> {
        match e.attr(k) {
            None => Some(0.),
            Some(s) => s.parse().ok(),
        }
    };
    match e.name.as_str() {
        "rect" => geom::native_bbox(e).map(Observed::Rect),
        "circle" => Some(Observed::Circle { cx: f0("cx")?, cy: f0("cy")?, r: f("r")? }),
        "ellipse" => Some(Observed::Ellipse { cx: f0("cx")?, cy: f0("cy")?, rx: f("rx")?, ry: f("ry")? }),
        _ => None,
    }
}

/// boundary sample points of the observed shape
fn boundary(o: &Observed) -> Vec<(f64, f64)> {
    match o {
        Observed::Rect(b) => vec![(b.x1, b.y1), (b.x2, b.y1), (b.x2, b.y2), (b.x1, b.y2), (b.cx(), b.y1), (b.x2, b.cy())],
        Observed::Circle { cx, cy, r } => (0..24).map(|k| { let a = k as f64 * std::f64::consts::PI / 12.; (cx + r * a.cos(), cy + r * a.sin()) }).collect(),
        Observed::Ellipse { cx, cy, rx, ry } => (0..24).map(|k| { let a = k as f64 * std::f64::consts::PI / 12.; (cx + rx * a.cos(), cy + ry * a.sin()) }).collect(),
    }
}

fn point_in_ref(p: (f64, f64), r: &RefEl, tol: f64) -> bool {
    let b = BBox::new(r.bbox.0, r.bbox.1, r.bbox.2, r.bbox.3);
    match r.shape {
        Shape::Rect | Shape::BoxOnly => p.0 >= b.x1 - tol && p.0 <= b.x2 + tol && p.1 >= b.y1 - tol && p.1 <= b.y2 + tol,
        Shape::Circle { cx, cy, r } => ((p.0 - cx).powi(2) + (p.1 - cy).powi(2)).sqrt() <= r + tol,
        Shape::Ellipse { cx, cy, rx, ry } => ((p.0 - cx) / rx).powi(2) + ((p.1 - cy) / ry).powi(2) <= 1. + tol,
    }
}

struct Case {
    refs: Vec<usize>,
    container: &'static str,
    surround: bool,
    margin: usize,
}

fn document(c: &Case, ms: &[(&'static str, [(bool, f64); 4])]) -> String {
    let mut doc = String::from("<svg>");
    // derived references need their own sources present
    let mut need: Vec<usize> = c.refs.clone();
    if c.refs.iter().any(|r| REFS[*r].id == "s1" || REFS[*r].id == "i1") {
        for base in [0usize, 1] {
            if !need.contains(&base) {
                need.push(base);
            }
        }
    }
    need.sort();
    need.dedup();
    for r in &need {
        doc.push_str(REFS[*r].src);
    }
    let list: Vec<String> = c.refs.iter().map(|r| format!("#{}", REFS[*r].id)).collect();
    let m = ms[c.margin].0;
    doc.push_str(&format!(
        "<{} id=\"k\" {}=\"{}\"{} class=\"u\"/>",
        c.container,
        if c.surround { "surround" } else { "inside" },
        list.join(" "),
        if m.is_empty() { String::new() } else { format!(" margin=\"{m}\"") }
    ));
    doc.push_str("</svg>");
    doc
}

fn check(c: &Case) -> CaseResult {
    let ms = margins();
    let doc = document(c, &ms);
    let (_, m) = ms[c.margin];
    let out = run_str(&doc, &Cfg::plain());
    let ref_names: Vec<&str> = c.refs.iter().map(|r| REFS[*r].id).collect();
    let case = json!({"input": doc, "refs": ref_names, "container": c.container, "surround": c.surround, "margin": ms[c.margin].0});
    let sig = format!("{}/{}/{}/m{}", if c.surround { "surround" } else { "inside" }, c.container, ref_names.join("+"), c.margin);
    let mut viol = None;
    let mut mk = |clause: &str, detail: String| {
        if viol.is_none() {
            viol = Some(Violation { clause: clause.into(), signature: format!("C12/{clause}/{sig}"), case: case.clone(), detail });
        }
    };
    let boxes: Vec<BBox> = c.refs.iter().map(|r| BBox::new(REFS[*r].bbox.0, REFS[*r].bbox.1, REFS[*r].bbox.2, REFS[*r].bbox.3)).collect();
    let union = boxes.iter().skip(1).fold(boxes[0], |a, b| a.union(b));
    let inter = boxes.iter().skip(1).try_fold(boxes[0], |a, b| a.intersect(b));
    let tol = 0.002;
    let mut ok = false;
    let mut oh = 0;
    match &out {
        Outcome::Panic(p) => mk("panic", p.clone()),
        Outcome::Err(e) => {
            // only an empty intersection may legitimately be unsatisfiable
            if c.surround || inter.is_some() {
                mk("rejected", format!("{doc}\n{}", clip(e, 300)));
            }
        }
        Outcome::Ok(o) => {
            oh = hash64(o);
            let text = String::from_utf8_lossy(o).to_string();
            let tree = xmlref::parse_tree(o, Mode::Document).unwrap_or_default();
            let el = xmlref::root(&tree).and_then(|r| r.find_id("k"));
            match el {
                None => mk("container-missing", clip(&text, 400)),
                Some(e) => {
                    for a in ["surround", "inside", "margin"] {
                        if e.has_attr(a) {
                            mk("attribute-left-behind", format!("{a} appears in the output: {:?}", e.attrs));
                        }
                    }
                    match observe(e) {
                        None => {
                            if c.surround || inter.is_some() {
                                mk("no-geometry", format!("{doc}\n -> {:?}", e.attrs));
                            }
                        }
                        Some(obs) => {
                            ok = true;
                            if c.surround {
                                if all_abs(&m) {
                                    let target = grow(&union, &m, 1.);
                                    match &obs {
                                        Observed::Rect(b) => {
                                            if !b.approx_eq(&target, tol) {
                                                mk("surround-rect-not-exact", format!("{doc}\nunion of references {union:?} grown by margin = {target:?}\nobserved {b:?}"));
                                            }
                                        }
                                        Observed::Circle { cx, cy, r } => {
                                            let hd = ((target.w() / 2.).powi(2) + (target.h() / 2.).powi(2)).sqrt();
                                            let hd_sq = target.w().max(target.h()) / 2. * std::f64::consts::SQRT_2;
                                            if (cx - target.cx()).abs() > tol || (cy - target.cy()).abs() > tol {
                                                mk("surround-circle-centre", format!("{doc}\nexpected centre ({}, {}), observed ({cx}, {cy})", target.cx(), target.cy()));
                                            } else if *r < hd - tol {
                                                mk("surround-circle-does-not-enclose", format!("{doc}\nbox {target:?} has half-diagonal {hd}, r = {r}"));
                                            } else if *r > hd + tol {
                                                // ("circumscribes": the circle goes through the corners of the box)
                                                let _ = hd_sq;
                                                mk("surround-circle-too-large", format!("{doc}\nr = {r} exceeds the half-diagonal {hd} of the box: the circle does not circumscribe it"));
                                            }
                                        }
                                        Observed::Ellipse { cx, cy, rx, ry } => {
                                            let v = (target.w() / 2. / rx).powi(2) + (target.h() / 2. / ry).powi(2);
                                            if (cx - target.cx()).abs() > tol || (cy - target.cy()).abs() > tol {
                                                mk("surround-ellipse-centre", format!("{doc}\nexpected centre ({}, {}), observed ({cx}, {cy})", target.cx(), target.cy()));
                                            } else if v > 1. + 0.002 {
                                                mk("surround-ellipse-does-not-enclose", format!("{doc}\ncorners of {target:?} lie outside the ellipse rx={rx} ry={ry} (value {v})"));
                                            } else if v < 0.5 {
                                                mk("surround-ellipse-too-large", format!("{doc}\nvalue {v}"));
                                            }
                                        }
                                    }
                                } else {
                                    // percent margins: the base is undocumented; positive percentages must still enclose the union
                                    let bb = match &obs {
                                        Observed::Rect(b) => *b,
                                        Observed::Circle { cx, cy, r } => BBox::new(cx - r, cy - r, cx + r, cy + r),
                                        Observed::Ellipse { cx, cy, rx, ry } => BBox::new(cx - rx, cy - ry, cx + rx, cy + ry),
                                    };
                                    if !bb.contains(&union, tol) {
                                        mk("surround-percent-margin-does-not-enclose", format!("{doc}\nunion {union:?}, observed {bb:?}"));
                                    }
                                }
                            } else {
                                match inter {
                                    None => mk("inside-empty-intersection-positioned", format!("{doc}\nthe references do not intersect, yet the element was given geometry {obs:?}")),
                                    Some(i) => {
                                        let all_rect = c.refs.iter().all(|r| matches!(REFS[*r].shape, Shape::Rect | Shape::BoxOnly));
                                        let shrunk = if all_abs(&m) { grow(&i, &m, -1.) } else { i };
                                        let degenerate = match &obs {
                                            Observed::Rect(b) => b.w() < 0. || b.h() < 0.,
                                            Observed::Circle { r, .. } => *r < 0.,
                                            Observed::Ellipse { rx, ry, .. } => *rx < 0. || *ry < 0.,
                                        };
                                        let nonneg = m.iter().all(|x| x.1 >= 0.);
                                        if shrunk.w() < 0. || shrunk.h() < 0. || degenerate || !nonneg {
                                            // margin larger than the (inscribed) intersection, or a negative margin
                                            // (which grows the element beyond the references by request):
                                            // enclosure is not asserted; exactness for rects still is
                                            if let (Observed::Rect(b), true, true, false) = (&obs, all_rect, all_abs(&m), degenerate) {
                                                if shrunk.w() >= 0. && shrunk.h() >= 0. && !b.approx_eq(&shrunk, tol) {
                                                    mk("inside-rect-not-exact", format!("{doc}\nintersection {i:?} shrunk by margin = {shrunk:?}\nobserved {b:?}"));
                                                }
                                            }
                                        } else {
                                            if let (Observed::Rect(b), true, true) = (&obs, all_rect, all_abs(&m)) {
                                                if !b.approx_eq(&shrunk, tol) {
                                                    mk("inside-rect-not-exact", format!("{doc}\nintersection {i:?} shrunk by margin = {shrunk:?}\nobserved {b:?}"));
                                                }
                                            }
                                            // containment of the resulting shape in every listed element's own area,
                                            // and (absolute, non-negative margins) in the shrunk intersection box
                                            for p in boundary(&obs) {
                                                for r in &c.refs {
                                                    if !point_in_ref(p, &REFS[*r], 0.01) {
                                                        mk("inside-not-enclosed", format!("{doc}\nobserved {obs:?}: boundary point ({:.3}, {:.3}) lies outside #{}", p.0, p.1, REFS[*r].id));
                                                    }
                                                }
                                                if all_abs(&m) && m.iter().all(|x| x.1 >= 0.) && !(p.0 >= shrunk.x1 - 0.01 && p.0 <= shrunk.x2 + 0.01 && p.1 >= shrunk.y1 - 0.01 && p.1 <= shrunk.y2 + 0.01) {
                                                    mk("inside-margin-not-respected", format!("{doc}\nobserved {obs:?}: boundary point ({:.3}, {:.3}) outside the intersection shrunk by margin {shrunk:?}", p.0, p.1));
                                                }
                                            }
                                        }
                                    }
                                }
                            }
                        }
                    }
                }
            }
        }
    }
    // structural attribution of the two open findings about curved containers (see KNOWN_FINDINGS.txt)
    if let Some(v) = viol.as_mut() {
        let curved_container = c.container != "rect";
        let curved_refs = c.refs.iter().filter(|r| matches!(REFS[**r].shape, Shape::Circle { .. } | Shape::Ellipse { .. })).count();
        if v.clause == "inside-not-enclosed" && !c.surround && curved_container && curved_refs >= 1 {
            if c.refs.len() >= 2 {
                v.signature = "C12/inside-curved-container-among-several-references".into();
            } else if !(m[0] == m[1] && m[1] == m[2] && m[2] == m[3]) {
                v.signature = "C12/inside-curved-container-asymmetric-margin".into();
            }
        }
    }
    CaseResult { case_hash: hash64(&doc), nontrivial: ok && viol.is_none(), outcome_hash: oh, executions: 1, violation: viol }
}

pub fn run(tier: Tier) -> i32 {
    let mut rep = Report::new("C12", tier, "exploration");
    // the quick tier explores what used to be the thorough space (it takes seconds); `deep` adds the wider bounds
    #[allow(unused_variables)]
    let deep = tier == Tier::Thorough;
    let tier = Tier::Thorough;
    let n = REFS.len();
    let mut lists: Vec<Vec<usize>> = Vec::new();
    for a in 0..n {
        lists.push(vec![a]);
        for b in 0..n {
            if b != a {
                lists.push(vec![a, b]);
                for c in 0..n {
                    if c != a && c != b && (tier == Tier::Thorough || (a + b + c) % 4 == 0) {
                        lists.push(vec![a, b, c]);
                    }
                }
            }
        }
    }
    if deep {
        // every list of four distinct references (as a set, in ascending and in descending order)
        for a in 0..n {
            for b in a + 1..n {
                for c in b + 1..n {
                    for d in c + 1..n {
                        lists.push(vec![a, b, c, d]);
                        lists.push(vec![d, c, b, a]);
                    }
                }
            }
        }
    }
    let nm = margins().len();
    let mut cases = Vec::new();
    for l in &lists {
        for container in ["rect", "circle", "ellipse"] {
            for surround in [true, false] {
                for margin in 0..nm {
                    cases.push(Case { refs: l.clone(), container, surround, margin });
                }
            }
        }
    }
    rep.set("rule", json!("Ordered lists of 1-3 distinct references (thorough tier: also every set of 4, ascending and descending) from 11 elements with known shapes (five rects: overlapping, nested, disjoint, negative/fractional; circle, ellipse, line, group, a previous surround element, a previous inside element) x container {rect, circle, ellipse} x {surround, inside} x 10 margin forms (none, 1-4 values, mixed separators, percent, percent+absolute, negative, zero). Oracle from the references' known geometry: surround rect = union grown by margin exactly; circle/ellipse centred on that box and enclosing its corners (ellipse: corners not outside the curve; circle: radius = the half-diagonal of the box); percent margins only required to enclose. inside: rect among rect references = intersection shrunk by margin exactly; every boundary sample point of the result lies within every listed element's own area and within the intersection box shrunk by absolute margins; an empty intersection must not yield a positioned element. surround/inside/margin absent from the output. Non-trivial = Ok with observable geometry and all clauses satisfied."));
    rep.set("also_later", json!("Rounds 3-5 added: inside a turned or sheared reference (6 references x 3 containers x 2 margins, every boundary point taken back into the reference's user space); the element's own transform; a <text> reference with child elements; a nested <svg> reference without a size; the circumscribed circle (the circle oracle demands r = half-diagonal); leaks on paint servers, filters, descriptive and animation elements; other user space and transforms which cannot be undone (open)."));
    rep.set("also", json!("Also: margin without surround / inside (attribute, through <defaults>, on a circle) never reaches the output; '^' in a reference list together with a forward reference. Second review round: references carrying translate / matrix / rotate(90) / scale transforms (rect, circle, ellipse; surround and inside), the attributes on elements they do not place (g, symbol, a, switch, defs, clipPath, root svg, text with children, tspan, foreignObject, image/line/text), a <text> reference moved by text-loc."));
    let st = run_space(cases.len(), |i| check(&cases[i]));
    let ms = margins();
    rep.sample(json!({"doc": document(&cases[cases.len() / 2], &ms)}));
    rep.sample(json!({"doc": document(&cases[cases.len() / 7], &ms)}));
    rep.absorb("containment", st);
    rep.assume("the base of percent margins is not fixed by the statement; only enclosure is asserted for them");
    // margin without surround / inside never reaches the output; '^' in a reference list is the document predecessor
    let extra: Vec<(&str, &str, Option<(f64, f64, f64, f64)>)> = vec![
        ("stray-margin", r##"<svg><rect id="x" wh="10" margin="2"/></svg>"##, Some((0., 0., 10., 10.))),
        ("stray-margin-defaults", r##"<svg><defaults><rect margin="1"/></defaults><rect id="x" xy="20 0" wh="3"/></svg>"##, Some((20., 0., 23., 3.))),
        ("stray-margin-circle", r##"<svg><circle id="x" cxy="5" r="5" margin="1 2"/></svg>"##, Some((0., 0., 10., 10.))),
        // the attributes on elements which are not placed by them
        ("leak/g", r##"<svg><rect id="a" wh="10"/><g surround="#a" margin="2"><rect wh="3"/></g></svg>"##, None),
        ("leak/g-inside", r##"<svg><rect id="a" wh="10"/><g inside="#a"><rect wh="3"/></g></svg>"##, None),
        ("leak/symbol", r##"<svg><rect id="a" wh="10"/><symbol id="s" surround="#a" margin="1 2"><rect wh="3"/></symbol></svg>"##, None),
        ("leak/a", r##"<svg><rect id="a" wh="10"/><a href="x" surround="#a" margin="2"><rect wh="3"/></a></svg>"##, None),
        ("leak/switch-defs-clippath", r##"<svg><rect id="a" wh="10"/><switch inside="#a"><rect wh="3"/></switch><defs margin="1"><rect wh="3"/></defs><clipPath id="c" surround="#a"><rect wh="3"/></clipPath></svg>"##, None),
        ("leak/root-margin", r##"<svg margin="3"><rect wh="10"/></svg>"##, None),
        ("leak/text-with-children", r##"<svg><rect id="a" wh="10"/><text x="1" y="2" surround="#a" margin="1">a<tspan>b</tspan></text></svg>"##, None),
        ("leak/margin-on-non-graphics", r##"<svg><foreignObject margin="2"/><text x="1" y="2"><tspan margin="1">t</tspan></text><g margin="4"><rect wh="3"/></g></svg>"##, None),
        ("leak/paint-servers-and-filters", r##"<svg><rect id="a" wh="10"/><linearGradient id="lg" margin="3"><stop offset="0" margin="1"/></linearGradient><radialGradient id="rg" inside="#a"/><filter id="f" surround="#a" margin="1"><feGaussianBlur stdDeviation="1" margin="2"/></filter></svg>"##, None),
        ("leak/descriptive-and-animation", r##"<svg><rect id="a" wh="10"/><title inside="#a">t</title><desc margin="2">d</desc><rect wh="5"><animate attributeName="x" to="5" margin="1"/><set attributeName="y" to="1" surround="#a"></set></rect><style margin="1">rect {fill:red}</style></svg>"##, None),
        ("leak/image-line-text", r##"<svg><rect id="a" wh="10"/><image href="i.png" surround="#a"/><line xy1="0" xy2="5" surround="#a" margin="1"/><text inside="#a" text="t"/></svg>"##, None),
        // a text reference is where it is written (text-loc moves it by the text offset)
        // third review round (boxes are those of #x as written, in its own user space)
        ("other-user-space/reference-in-translated-group", r##"<svg><g transform="translate(100 0)"><rect id="a" wh="10"/></g><rect id="x" surround="#a"/></svg>"##, Some((100., 0., 110., 10.))),
        ("other-user-space/element-in-translated-group", r##"<svg><rect id="a" wh="10"/><g transform="translate(100 0)"><rect id="x" surround="#a"/></g></svg>"##, Some((-100., 0., -90., 10.))),
        ("other-user-space/inside-reference-in-translated-group", r##"<svg><g transform="translate(100 0)"><rect id="c" wh="10"/></g><rect id="x" inside="#c"/></svg>"##, Some((100., 0., 110., 10.))),
        ("other-user-space/placed-group-instance", r##"<svg><specs><g id="t"><rect id="in" wh="10 5"/></g></specs><reuse id="u" href="#t" x="30" y="40"/><rect id="x" surround="#in" margin="1"/></svg>"##, Some((29., 39., 41., 46.))),
        ("own-transform/surround", r##"<svg><rect id="a" wh="10"/><rect id="x" surround="#a" transform="translate(50 0)"/></svg>"##, Some((-50., 0., -40., 10.))),
        ("own-transform/scaled", r##"<svg><rect id="a" xy="10 20" wh="10"/><circle id="x" surround="#a" transform="translate(4 2) scale(2)"/></svg>"##, Some((1.964, 7.964, 9.036, 15.036))),
        ("own-transform/inside", r##"<svg><rect id="c" wh="10"/><rect id="x" inside="#c" transform="translate(100 0)"/></svg>"##, Some((-100., 0., -90., 10.))),
        // fifth review round
        ("text-ref/with-child-element", r##"<svg><text id="t" xy="20 20"><tspan>a</tspan></text><rect id="x" surround="#t" margin="0.5"/></svg>"##, Some((19.5, 19.5, 20.5, 20.5))),
        ("text-ref/with-child-element-relative", r##"<svg><rect id="a" xy="10 20" wh="30 40"/><text id="t" xy="#a@br"><tspan>a</tspan></text><rect id="x" surround="#t" margin="1"/></svg>"##, Some((39., 59., 41., 61.))),
        ("nested-svg-ref/offset-without-size", r##"<svg><svg id="n" x="30" y="5"><rect wh="40 50"/></svg><rect id="x" surround="#n"/></svg>"##, Some((30., 5., 70., 55.))),
        ("circumscribed-circle/non-square", r##"<svg><rect id="a" xy="10 20" wh="20 10"/><circle id="x" surround="#a"/></svg>"##, Some((8.82, 13.82, 31.18, 36.18))),
        ("own-transform/not-invertible/matrix", r##"<svg><rect id="a" xy="20 0" wh="10"/><rect id="x" surround="#a" margin="1" transform="matrix(1 0 0 1 5 5)"/></svg>"##, Some((14., -6., 26., 6.))),
        ("clipped-reference/inside", r##"<svg><clipPath id="cp"><rect wh="5"/></clipPath><rect id="a" wh="20" clip-path="url(#cp)"/><rect id="x" inside="#a"/></svg>"##, Some((0., 0., 5., 5.))),
        ("clipped-reference/surround", r##"<svg><clipPath id="cp"><rect wh="5"/></clipPath><rect id="a" wh="20" clip-path="url(#cp)"/><rect id="x" surround="#a"/></svg>"##, Some((0., 0., 5., 5.))),
        ("text-ref/text-loc", r##"<svg><text id="t" xy="20 20" text-loc="tl">hi</text><rect id="x" surround="#t" margin="0.5"/></svg>"##, Some((18.5, 18.5, 19.5, 19.5))),
        ("text-ref/plain", r##"<svg><text id="t" xy="20 20">hi</text><rect id="x" surround="#t" margin="2 1"/></svg>"##, Some((19., 18., 21., 22.))),
        ("prev-after-deferred/surround", r##"<svg><rect id="a" wh="10"/><rect id="x" surround="^ #z"/><rect id="z" xy="20" wh="3"/></svg>"##, Some((0., 0., 23., 23.))),
        ("prev-after-deferred/inside", r##"<svg><rect id="a" wh="10"/><rect id="x" inside="^ #z"/><rect id="z" xy="2" wh="30"/></svg>"##, Some((2., 2., 10., 10.))),
    ];
    let st = run_space(extra.len(), |i| {
        let (name, doc, want) = extra[i];
        let out = run_str(doc, &Cfg::plain());
        let mut problem = None;
        match &out {
            Outcome::Ok(o) => {
                let text = String::from_utf8_lossy(o);
                for a in [" margin=", " surround=", " inside="] {
                    if text.contains(a) {
                        problem = Some(format!("attribute{a} left in the output"));
                    }
                }
                if let (None, Some(w)) = (&problem, want) {
                    let got = crate::xmlref::parse_tree(o, crate::xmlref::Mode::Document).ok().and_then(|t| crate::xmlref::root(&t).and_then(|r| r.find_id("x").and_then(crate::geom::native_bbox)));
                    match got {
                        Some(g) if g.approx_eq(&BBox::new(w.0, w.1, w.2, w.3), 0.0011) => {}
                        other => problem = Some(format!("expected box {w:?}, observed {other:?}")),
                    }
                }
            }
            other => problem = Some(other.brief()),
        }
        CaseResult {
            case_hash: hash64(&doc),
            nontrivial: problem.is_none(),
            outcome_hash: hash64(&format!("{out:?}")),
            executions: 1,
            violation: problem.map(|p| Violation { clause: "extra".into(), signature: format!("C12/{name}"), case: json!({"input": doc, "extra": name}), detail: format!("{doc}\n{p}\n{}", clip(&out.brief(), 300)) }),
        }
    });
    rep.absorb("extra", st);
    // ---- inside a reference which is turned or sheared: every boundary sample point of the result, taken back into
    // the reference's own user space, lies within the reference's own area
    #[derive(Clone, Copy)]
    enum Turn {
        Rotate(f64),
        SkewX(f64),
    }
    let turned: Vec<(&str, &str, Shape, (f64, f64, f64, f64), Turn)> = vec![
        ("rect-rotate-45", r#"<rect id="a" wh="10" transform="rotate(45)"/>"#, Shape::Rect, (0., 0., 10., 10.), Turn::Rotate(45.)),
        ("rect-rotate-30", r#"<rect id="a" xy="2 1" wh="20 8" transform="rotate(30)"/>"#, Shape::Rect, (2., 1., 22., 9.), Turn::Rotate(30.)),
        ("circle-rotate-45", r#"<circle id="a" r="10" transform="rotate(45)"/>"#, Shape::Circle { cx: 0., cy: 0., r: 10. }, (-10., -10., 10., 10.), Turn::Rotate(45.)),
        ("ellipse-rotate-60", r#"<ellipse id="a" cxy="3 2" rxy="12 5" transform="rotate(60)"/>"#, Shape::Ellipse { cx: 3., cy: 2., rx: 12., ry: 5. }, (-9., -3., 15., 7.), Turn::Rotate(60.)),
        ("rect-skewx-30", r#"<rect id="a" wh="12 10" transform="skewX(30)"/>"#, Shape::Rect, (0., 0., 12., 10.), Turn::SkewX(30.)),
        ("circle-skewx-20", r#"<circle id="a" cxy="5" r="6" transform="skewX(20)"/>"#, Shape::Circle { cx: 5., cy: 5., r: 6. }, (-1., -1., 11., 11.), Turn::SkewX(20.)),
    ];
    let mut tcases = Vec::new();
    for t in 0..turned.len() {
        for container in ["rect", "circle", "ellipse"] {
            for margin in ["", "0.5"] {
                tcases.push((t, container, margin));
            }
        }
    }
    let st = run_space(tcases.len(), |i| {
        let (t, container, margin) = tcases[i];
        let (name, src, shape, bbox, turn) = turned[t];
        let m = if margin.is_empty() { String::new() } else { format!(r#" margin="{margin}""#) };
        let doc = format!(r##"<svg>{src}<{container} id="x" inside="#a"{m}/></svg>"##);
        let out = run_str(&doc, &Cfg::plain());
        let mut problem = None;
        match &out {
            Outcome::Ok(o) => match xmlref::parse_tree(o, Mode::Document).ok().and_then(|tr| xmlref::root(&tr).and_then(|r| r.find_id("x").and_then(observe))) {
                None => problem = Some("the inside element has no geometry".to_string()),
                Some(obs) => {
                    let local = RefEl { id: "a", src: "", bbox, shape };
                    for p in boundary(&obs) {
                        let q = match turn {
                            Turn::Rotate(deg) => {
                                let (s, c) = (-deg).to_radians().sin_cos();
                                (p.0 * c - p.1 * s, p.0 * s + p.1 * c)
                            }
                            Turn::SkewX(deg) => (p.0 - p.1 * deg.to_radians().tan(), p.1),
                        };
                        if !point_in_ref(q, &local, 0.002) {
                            problem = Some(format!("the point ({:.3}, {:.3}) of the result lies outside the reference (in its own user space: ({:.3}, {:.3}))", p.0, p.1, q.0, q.1));
                            break;
                        }
                    }
                }
            },
            other => problem = Some(other.brief()),
        }
        CaseResult {
            case_hash: hash64(&doc),
            nontrivial: problem.is_none(),
            outcome_hash: hash64(&format!("{out:?}")),
            executions: 1,
            violation: problem.map(|p| Violation { clause: "inside-turned".into(), signature: format!("C12/inside-turned-reference/{name}"), case: json!({"input": doc, "turned": name}), detail: format!("{doc}\n{p}\n{}", clip(&out.brief(), 300)) }),
        }
    });
    rep.absorb("inside-turned-reference", st);
    rep.finish()
}

pub fn replay_case(case: &Value) -> Option<Violation> {
    let refs: Vec<usize> = case["refs"].as_array()?.iter().filter_map(|r| REFS.iter().position(|x| Some(x.id) == r.as_str())).collect();
    let container = ["rect", "circle", "ellipse"].into_iter().find(|c| Some(*c) == case["container"].as_str())?;
    let margin = margins().iter().position(|m| Some(m.0) == case["margin"].as_str())?;
    check(&Case { refs, container, surround: case["surround"].as_bool()?, margin }).violation
}
