//! Independent strict XML 1.0 reader (no code shared with quick-xml).
//!
//! Accepts exactly the well-formed documents of XML 1.0 (5th ed.) without DTD
//! processing: the doctype declaration is skipped as an opaque token and only
//! the five predefined entities plus numeric character references are known.
//! Two modes: `Document` (prolog, exactly one root element, trailing Misc) and
//! `Content` (the `content` production: any number of top-level elements and
//! character data; a leading XML declaration / doctype is tolerated), used for
//! svgdx fragments which legitimately have several top-level elements.

#[derive(Debug, Clone, PartialEq, Eq, Hash)]
pub enum Ev {
    Decl(String),
    Doctype(String),
    Pi(String, String),
    Comment(String),
    Start(String, Vec<(String, String)>),
    End(String),
    Text(String),
    CData(String),
}

#[derive(Debug, Clone, Copy, PartialEq, Eq)]
pub enum Mode {
    Document,
    Content,
}

#[derive(Debug, Clone)]
pub struct XmlError {
    pub pos: usize,
    pub msg: String,
}

impl std::fmt::Display for XmlError {
    fn fmt(&self, f: &mut std::fmt::Formatter<'_>) -> std::fmt::Result {
        write!(f, "XML not well-formed at byte {}: {}", self.pos, self.msg)
    }
}

fn is_char(c: char) -> bool {
    matches!(c as u32, 0x9 | 0xA | 0xD | 0x20..=0xD7FF | 0xE000..=0xFFFD | 0x10000..=0x10FFFF)
}

fn is_name_start(c: char) -> bool {
    matches!(c as u32,
        0x3A | 0x41..=0x5A | 0x5F | 0x61..=0x7A | 0xC0..=0xD6 | 0xD8..=0xF6 | 0xF8..=0x2FF
        | 0x370..=0x37D | 0x37F..=0x1FFF | 0x200C..=0x200D | 0x2070..=0x218F | 0x2C00..=0x2FEF
        | 0x3001..=0xD7FF | 0xF900..=0xFDCF | 0xFDF0..=0xFFFD | 0x10000..=0xEFFFF)
}

fn is_name_char(c: char) -> bool {
    is_name_start(c)
        || matches!(c as u32, 0x2D | 0x2E | 0x30..=0x39 | 0xB7 | 0x300..=0x36F | 0x203F..=0x2040)
}

fn is_space(c: char) -> bool {
    matches!(c, ' ' | '\t' | '\n' | '\r')
}

struct P<'a> {
    s: &'a str,
    pos: usize,
    /// general entities declared in the internal DTD subset with a plain literal value
    /// (no markup, no references in the replacement text)
    entities: std::collections::HashMap<String, String>,
}

impl<'a> P<'a> {
    fn err<T>(&self, msg: impl Into<String>) -> Result<T, XmlError> {
        Err(XmlError {
            pos: self.pos,
            msg: msg.into(),
        })
    }
    fn rest(&self) -> &'a str {
        &self.s[self.pos..]
    }
    fn peek(&self) -> Option<char> {
        self.rest().chars().next()
    }
    fn starts(&self, p: &str) -> bool {
        self.rest().starts_with(p)
    }
    fn eat(&mut self, p: &str) -> bool {
        if self.starts(p) {
            self.pos += p.len();
            true
        } else {
            false
        }
    }
    fn bump(&mut self) -> Option<char> {
        let c = self.peek()?;
        self.pos += c.len_utf8();
        Some(c)
    }
    fn skip_space(&mut self) -> usize {
        let start = self.pos;
        while let Some(c) = self.peek() {
            if is_space(c) {
                self.pos += 1;
            } else {
                break;
            }
        }
        self.pos - start
    }
    fn name(&mut self) -> Result<String, XmlError> {
        let start = self.pos;
        match self.peek() {
            Some(c) if is_name_start(c) => {
                self.bump();
            }
            _ => return self.err("expected a name"),
        }
        while let Some(c) = self.peek() {
            if is_name_char(c) {
                self.bump();
            } else {
                break;
            }
        }
        Ok(self.s[start..self.pos].to_string())
    }
    /// Parse a reference after '&' has been seen (pos at '&'); appends the replacement.
    fn reference(&mut self, out: &mut String) -> Result<(), XmlError> {
        debug_assert!(self.starts("&"));
        self.pos += 1;
        if self.eat("#") {
            let hex = self.eat("x");
            let start = self.pos;
            while let Some(c) = self.peek() {
                if c == ';' {
                    break;
                }
                let ok = if hex {
                    c.is_ascii_hexdigit()
                } else {
                    c.is_ascii_digit()
                };
                if !ok {
                    return self.err("bad character reference");
                }
                self.bump();
            }
            let digits = &self.s[start..self.pos];
            if digits.is_empty() || !self.eat(";") {
                return self.err("unterminated character reference");
            }
            let v = u32::from_str_radix(digits, if hex { 16 } else { 10 })
                .ok()
                .and_then(char::from_u32);
            match v {
                Some(c) if is_char(c) => out.push(c),
                _ => return self.err("character reference to an invalid Char"),
            }
            Ok(())
        } else {
            let n = self.name()?;
            if !self.eat(";") {
                return self.err("unterminated entity reference");
            }
            match n.as_str() {
                "amp" => out.push('&'),
                "lt" => out.push('<'),
                "gt" => out.push('>'),
                "quot" => out.push('"'),
                "apos" => out.push('\''),
                _ => match self.entities.get(&n) {
                    Some(v) => out.push_str(&v.clone()),
                    None => return self.err(format!("undeclared entity &{n};")),
                },
            }
            Ok(())
        }
    }
    fn attr_value(&mut self) -> Result<String, XmlError> {
        let q = match self.bump() {
            Some(c @ ('"' | '\'')) => c,
            _ => return self.err("attribute value must be quoted"),
        };
        let mut out = String::new();
        loop {
            match self.peek() {
                None => return self.err("unterminated attribute value"),
                Some(c) if c == q => {
                    self.bump();
                    return Ok(out);
                }
                Some('<') => return self.err("'<' in attribute value"),
                Some('&') => self.reference(&mut out)?,
                Some(c) => {
                    if !is_char(c) {
                        return self.err("invalid Char in attribute value");
                    }
                    self.bump();
                    // attribute-value normalisation of literal white space (XML 3.3.3)
                    out.push(if matches!(c, '\t' | '\n' | '\r') { ' ' } else { c });
                }
            }
        }
    }
    fn until(&mut self, end: &str, what: &str) -> Result<&'a str, XmlError> {
        match self.rest().find(end) {
            Some(i) => {
                let r = &self.rest()[..i];
                if let Some(bad) = r.chars().find(|c| !is_char(*c)) {
                    return self.err(format!("invalid Char U+{:04X} in {what}", bad as u32));
                }
                self.pos += i + end.len();
                Ok(r)
            }
            None => self.err(format!("unterminated {what}")),
        }
    }
}

/// Parse `input`; the returned events use `Start`/`End` for empty elements too.
pub fn parse(input: &[u8], mode: Mode) -> Result<Vec<Ev>, XmlError> {
    let s = std::str::from_utf8(input).map_err(|e| XmlError {
        pos: e.valid_up_to(),
        msg: "not valid UTF-8".into(),
    })?;
    let s = s.strip_prefix('\u{FEFF}').unwrap_or(s);
    let mut p = P { s, pos: 0, entities: std::collections::HashMap::new() };
    let mut evs = Vec::new();
    let mut stack: Vec<String> = Vec::new();
    let mut roots = 0usize;
    let mut seen_doctype = false;

    if p.starts("<?xml") && p.rest()[5..].starts_with(is_space) {
        p.pos += 5;
        let body = p.until("?>", "XML declaration")?;
        // VersionInfo is mandatory; keep the check simple but strict on shape
        let b = body.trim();
        if !b.starts_with("version") {
            return p.err("XML declaration without version");
        }
        for c in b.chars() {
            if c == '<' || c == '&' {
                return p.err("bad XML declaration");
            }
        }
        evs.push(Ev::Decl(b.to_string()));
    }

    let mut text = String::new();
    loop {
        // character data
        let in_content = !stack.is_empty() || mode == Mode::Content;
        let text_start = p.pos;
        text.clear();
        loop {
            match p.peek() {
                None | Some('<') => break,
                Some('&') => {
                    if !in_content {
                        return p.err("reference outside the root element");
                    }
                    p.reference(&mut text)?;
                }
                Some(c) => {
                    if !is_char(c) {
                        return p.err(format!("invalid Char U+{:04X}", c as u32));
                    }
                    if c == ']' && p.starts("]]>") {
                        return p.err("']]>' in character data");
                    }
                    p.bump();
                    if c == '\r' {
                        // line-end normalisation (XML 2.11)
                        if p.peek() == Some('\n') {
                            p.bump();
                        }
                        text.push('\n');
                    } else {
                        text.push(c);
                    }
                }
            }
        }
        if !text.is_empty() {
            if in_content {
                evs.push(Ev::Text(text.clone()));
            } else if !text.chars().all(is_space) {
                p.pos = text_start;
                return p.err("character data outside the root element");
            }
        }
        if p.peek().is_none() {
            break;
        }
        // markup
        if p.eat("<!--") {
            let c = match p.rest().find("--") {
                Some(i) => {
                    let body = &p.rest()[..i];
                    if let Some(bad) = body.chars().find(|c| !is_char(*c)) {
                        return p.err(format!("invalid Char U+{:04X} in comment", bad as u32));
                    }
                    p.pos += i + 2;
                    if !p.eat(">") {
                        return p.err("'--' inside comment");
                    }
                    body
                }
                None => return p.err("unterminated comment"),
            };
            evs.push(Ev::Comment(c.to_string()));
        } else if p.starts("<![CDATA[") {
            if stack.is_empty() && mode == Mode::Document {
                return p.err("CDATA outside the root element");
            }
            p.pos += 9;
            let c = p.until("]]>", "CDATA section")?;
            evs.push(Ev::CData(c.replace("\r\n", "\n").replace('\r', "\n")));
        } else if p.starts("<!DOCTYPE") {
            if seen_doctype || roots > 0 || !stack.is_empty() {
                return p.err("misplaced doctype");
            }
            seen_doctype = true;
            let start = p.pos;
            p.pos += 9;
            // skip to matching '>' honouring quotes and an internal subset
            let mut depth = 0i32;
            loop {
                match p.bump() {
                    None => return p.err("unterminated doctype"),
                    Some('[') => depth += 1,
                    Some(']') => depth -= 1,
                    Some(q @ ('"' | '\'')) => loop {
                        match p.bump() {
                            None => return p.err("unterminated doctype literal"),
                            Some(c) if c == q => break,
                            _ => {}
                        }
                    },
                    Some('>') if depth <= 0 => break,
                    Some(c) if !is_char(c) => return p.err("invalid Char in doctype"),
                    _ => {}
                }
            }
            let text = p.s[start..p.pos].to_string();
            // <!ENTITY name "literal"> declarations of the internal subset
            let mut rest = text.as_str();
            while let Some(at) = rest.find("<!ENTITY") {
                rest = &rest[at + 8..];
                let t = rest.trim_start();
                if t.len() == rest.len() || t.starts_with('%') {
                    continue;
                }
                let name: String = t.chars().take_while(|c| is_name_char(*c)).collect();
                let after = t[name.len()..].trim_start();
                if let Some(q) = after.chars().next().filter(|c| *c == '"' || *c == '\'') {
                    if let Some(end) = after[1..].find(q) {
                        let value = &after[1..1 + end];
                        if !name.is_empty() && !value.contains('<') && !value.contains('&') && !value.contains('%') {
                            p.entities.entry(name).or_insert_with(|| value.to_string());
                        }
                    }
                }
            }
            evs.push(Ev::Doctype(text));
        } else if p.eat("<?") {
            let target = p.name()?;
            if target.eq_ignore_ascii_case("xml") {
                return p.err("misplaced XML declaration / reserved PI target");
            }
            let data = if p.eat("?>") {
                ""
            } else {
                if p.skip_space() == 0 {
                    return p.err("space required after PI target");
                }
                p.until("?>", "processing instruction")?
            };
            evs.push(Ev::Pi(target, data.to_string()));
        } else if p.eat("</") {
            let n = p.name()?;
            p.skip_space();
            if !p.eat(">") {
                return p.err("malformed end tag");
            }
            match stack.pop() {
                Some(open) if open == n => {}
                Some(open) => return p.err(format!("end tag </{n}> does not match <{open}>")),
                None => return p.err(format!("end tag </{n}> without start tag")),
            }
            evs.push(Ev::End(n));
        } else if p.eat("<") {
            if stack.is_empty() {
                if roots > 0 && mode == Mode::Document {
                    return p.err("more than one root element");
                }
                roots += 1;
            }
            let n = p.name()?;
            let mut attrs: Vec<(String, String)> = Vec::new();
            loop {
                let sp = p.skip_space();
                if p.eat("/>") {
                    evs.push(Ev::Start(n.clone(), attrs));
                    evs.push(Ev::End(n));
                    break;
                }
                if p.eat(">") {
                    evs.push(Ev::Start(n.clone(), attrs));
                    stack.push(n);
                    break;
                }
                if sp == 0 {
                    return p.err("white space required before attribute");
                }
                let an = p.name()?;
                p.skip_space();
                if !p.eat("=") {
                    return p.err("attribute without '='");
                }
                p.skip_space();
                let av = p.attr_value()?;
                if attrs.iter().any(|(k, _)| *k == an) {
                    return p.err(format!("duplicate attribute '{an}'"));
                }
                attrs.push((an, av));
            }
        } else {
            return p.err("unexpected '<'");
        }
    }
    if let Some(open) = stack.last() {
        return p.err(format!("unclosed element <{open}>"));
    }
    if mode == Mode::Document && roots != 1 {
        return p.err("document has no root element");
    }
    Ok(evs)
}

/// A simple element tree built from events (comments/PIs kept as nodes).
#[derive(Debug, Clone, PartialEq)]
pub enum Node {
    El(Element),
    Text(String),
    CData(String),
    Comment(String),
    Pi(String, String),
    Other(String),
}

#[derive(Debug, Clone, PartialEq, Default)]
pub struct Element {
    pub name: String,
    pub attrs: Vec<(String, String)>,
    pub children: Vec<Node>,
}

impl Element {
    pub fn attr(&self, k: &str) -> Option<&str> {
        self.attrs
            .iter()
            .find(|(n, _)| n == k)
            .map(|(_, v)| v.as_str())
    }
    pub fn has_attr(&self, k: &str) -> bool {
        self.attr(k).is_some()
    }
    pub fn classes(&self) -> Vec<&str> {
        self.attr("class")
            .map(|c| c.split_whitespace().collect())
            .unwrap_or_default()
    }
    pub fn has_class(&self, c: &str) -> bool {
        self.classes().contains(&c)
    }
    pub fn elements(&self) -> impl Iterator<Item = &Element> {
        self.children.iter().filter_map(|n| match n {
            Node::El(e) => Some(e),
            _ => None,
        })
    }
    /// All character data (text + CDATA) of this element and its descendants.
    pub fn text(&self) -> String {
        let mut s = String::new();
        fn walk(e: &Element, s: &mut String) {
            for c in &e.children {
                match c {
                    Node::Text(t) | Node::CData(t) => s.push_str(t),
                    Node::El(e) => walk(e, s),
                    _ => {}
                }
            }
        }
        walk(self, &mut s);
        s
    }
    /// Depth-first iteration over self and all descendant elements.
    pub fn descendants(&self) -> Vec<&Element> {
        let mut v = Vec::new();
        fn walk<'a>(e: &'a Element, v: &mut Vec<&'a Element>) {
            v.push(e);
            for c in e.elements() {
                walk(c, v);
            }
        }
        walk(self, &mut v);
        v
    }
    pub fn find_id(&self, id: &str) -> Option<&Element> {
        self.descendants().into_iter().find(|e| e.attr("id") == Some(id))
    }
}

/// Build a forest (top-level nodes) from an event list.
pub fn to_tree(evs: &[Ev]) -> Vec<Node> {
    let mut stack: Vec<Element> = vec![Element::default()];
    for ev in evs {
        match ev {
            Ev::Start(n, a) => stack.push(Element {
                name: n.clone(),
                attrs: a.clone(),
                children: vec![],
            }),
            Ev::End(_) => {
                let e = stack.pop().expect("balanced");
                stack.last_mut().expect("root").children.push(Node::El(e));
            }
            Ev::Text(t) => stack.last_mut().unwrap().children.push(Node::Text(t.clone())),
            Ev::CData(t) => stack.last_mut().unwrap().children.push(Node::CData(t.clone())),
            Ev::Comment(t) => stack
                .last_mut()
                .unwrap()
                .children
                .push(Node::Comment(t.clone())),
            Ev::Pi(t, d) => stack
                .last_mut()
                .unwrap()
                .children
                .push(Node::Pi(t.clone(), d.clone())),
            Ev::Decl(d) | Ev::Doctype(d) => stack
                .last_mut()
                .unwrap()
                .children
                .push(Node::Other(d.clone())),
        }
    }
    stack.pop().unwrap().children
}

/// Parse and return the top-level elements (any mode), or the error.
pub fn parse_tree(input: &[u8], mode: Mode) -> Result<Vec<Node>, XmlError> {
    Ok(to_tree(&parse(input, mode)?))
}

/// Convenience: the single root element of a document.
pub fn root(nodes: &[Node]) -> Option<&Element> {
    nodes.iter().find_map(|n| match n {
        Node::El(e) => Some(e),
        _ => None,
    })
}

/// Canonical infoset event list: adjacent text merged, attributes sorted by name.
pub fn canonical(evs: &[Ev]) -> Vec<Ev> {
    let mut out: Vec<Ev> = Vec::new();
    for ev in evs {
        match ev {
            Ev::Text(t) => {
                if let Some(Ev::Text(prev)) = out.last_mut() {
                    prev.push_str(t);
                } else {
                    out.push(ev.clone());
                }
            }
            Ev::Start(n, a) => {
                let mut a = a.clone();
                a.sort();
                out.push(Ev::Start(n.clone(), a));
            }
            _ => out.push(ev.clone()),
        }
    }
    out
}

// ------------------------------------------------------------------ conformance of this reader with expat

const CONF_TOKENS: &[&[u8]] = &[
    b"<a>", b"</a>", b"<b ", b"<a", b"x=\"", b"y='", b"x=\"1\"", b"\"", b"'", b"/>", b">", b"<!--", b"-->", b"--", b"<![CDATA[", b"]]>", b"<?p", b"?>", b"&amp;", b"&#65;", b"&#x0;",
    b"&q;", b"&", b"<", b"t", b" ", "\u{e9}".as_bytes(), b"\xFF", b"<?xml version=\"1.0\"?>", b"\n", b"\t", b"<!DOCTYPE a [<!ENTITY q \"v\">]>", b"<!DOCTYPE a>",
];

fn conf_events(evs: &[Ev]) -> serde_json::Value {
    use serde_json::json;
    let mut out: Vec<serde_json::Value> = Vec::new();
    let mut push_text = |out: &mut Vec<serde_json::Value>, t: &str| {
        if t.is_empty() {
            return;
        }
        if let Some(last) = out.last_mut() {
            if last[0] == "T" {
                let joined = format!("{}{}", last[1].as_str().unwrap_or(""), t);
                last[1] = json!(joined);
                return;
            }
        }
        out.push(json!(["T", t]));
    };
    let mut depth = 0usize;
    for ev in evs {
        match ev {
            Ev::Decl(_) | Ev::Doctype(_) => {}
            Ev::Pi(t, d) => out.push(json!(["P", t, d])),
            Ev::Comment(c) => out.push(json!(["C", c])),
            Ev::Start(n, a) => {
                depth += 1;
                let mut a = a.clone();
                a.sort();
                let attrs: Vec<serde_json::Value> = a.iter().map(|(k, v)| json!([k, v])).collect();
                out.push(json!(["S", n, attrs]));
            }
            Ev::End(n) => {
                depth -= 1;
                out.push(json!(["E", n]));
            }
            // expat does not report white space outside the root element
            Ev::Text(t) | Ev::CData(t) => {
                if depth > 0 {
                    push_text(&mut out, t)
                }
            }
        }
    }
    serde_json::Value::Array(out)
}

/// Exhaustive conformance of this reader with expat (python3 stdlib) over every string of <= k tokens
/// from a 33-token XML alphabet: same verdict, and on acceptance the same event stream.
/// Returns (documents compared, accepted by both) or a description of the first disagreement.
pub fn expat_conformance(k: usize) -> Result<(u64, u64), String> {
    use std::io::{BufRead, Write};
    let n = CONF_TOKENS.len();
    let mut docs: Vec<Vec<u8>> = Vec::new();
    let mut idx: Vec<usize> = Vec::new();
    fn rec(idx: &mut Vec<usize>, k: usize, n: usize, docs: &mut Vec<Vec<u8>>) {
        let mut d = Vec::new();
        for i in idx.iter() {
            d.extend_from_slice(CONF_TOKENS[*i]);
        }
        docs.push(d);
        if idx.len() == k {
            return;
        }
        for t in 0..n {
            idx.push(t);
            rec(idx, k, n, docs);
            idx.pop();
        }
    }
    rec(&mut idx, k, n, &mut docs);
    let nproc = 12usize;
    let chunk = docs.len().div_ceil(nproc);
    let results: Vec<Result<(u64, u64), String>> = std::thread::scope(|sc| {
        let hs: Vec<_> = docs
            .chunks(chunk)
            .map(|part| {
                sc.spawn(move || -> Result<(u64, u64), String> {
                    let mut child = std::process::Command::new("python3")
                        .arg("/verif/scripts/expat_check.py")
                        .stdin(std::process::Stdio::piped())
                        .stdout(std::process::Stdio::piped())
                        .spawn()
                        .map_err(|e| format!("cannot start python3: {e}"))?;
                    let mut si = child.stdin.take().unwrap();
                    let so = child.stdout.take().unwrap();
                    let (mut total, mut acc) = (0u64, 0u64);
                    let r = std::thread::scope(|s2| {
                        s2.spawn(move || {
                            let mut buf = String::new();
                            for d in part {
                                buf.clear();
                                for b in d {
                                    buf.push_str(&format!("{b:02x}"));
                                }
                                buf.push('\n');
                                if si.write_all(buf.as_bytes()).is_err() {
                                    break;
                                }
                            }
                        });
                        let mut lines = std::io::BufReader::new(so).lines();
                        for d in part {
                            let Some(Ok(line)) = lines.next() else { return Err("expat helper ended early".to_string()) };
                            let mine = parse(d, Mode::Document);
                            total += 1;
                            match (&mine, line.as_str()) {
                                (Err(_), "0") => {}
                                (Ok(evs), l) if l.starts_with("1\t") => {
                                    acc += 1;
                                    let theirs: serde_json::Value = serde_json::from_str(&l[2..]).map_err(|e| e.to_string())?;
                                    let ours = conf_events(evs);
                                    if ours != theirs {
                                        return Err(format!("event streams differ for {:?}: xmlref {} expat {}", String::from_utf8_lossy(d), ours, theirs));
                                    }
                                }
                                (m, l) => return Err(format!("verdicts differ for {:?}: xmlref {} expat {}", String::from_utf8_lossy(d), if m.is_ok() { "accepts" } else { "rejects" }, if l == "0" { "rejects" } else { "accepts" })),
                            }
                        }
                        Ok(())
                    });
                    let _ = child.wait();
                    r.map(|_| (total, acc))
                })
            })
            .collect();
        hs.into_iter().map(|h| h.join().unwrap_or(Err("conformance thread panicked".into()))).collect()
    });
    let mut t = (0, 0);
    for r in results {
        let (a, b) = r?;
        t.0 += a;
        t.1 += b;
    }
    Ok(t)
}

#[cfg(test)]
mod tests {
    use super::*;
    #[test]
    fn accepts_and_rejects() {
        let ok = [
            "<a/>",
            "<?xml version=\"1.0\"?><!DOCTYPE a><a b='1' c=\"&lt;&#65;\">x&amp;y<![CDATA[<&]]><!-- c --><?p d?></a>\n",
            "<a><b></b></a>",
        ];
        for d in ok {
            parse(d.as_bytes(), Mode::Document).unwrap_or_else(|e| panic!("{d}: {e}"));
        }
        let bad = [
            "", "<a>", "<a></b>", "<a b=1/>", "<a b='1' b='2'/>", "<a b='<'/>", "<a>&</a>",
            "<a>&foo;</a>", "<a><!-- a -- b --></a>", "<a>]]></a>", "<a/><b/>", "x<a/>",
            "<a b='1'c='2'/>", "<a>\u{1}</a>", "<a><?xml v?></a>", "<a>&#0;</a>", "<1a/>",
            "<a b=\"x\"\"/>", "<!-- a ---><a/>",
        ];
        for d in bad {
            assert!(parse(d.as_bytes(), Mode::Document).is_err(), "{d}");
        }
        assert!(parse(b"<a/>\xff", Mode::Document).is_err());
        assert!(parse(b"<a/><b/>t", Mode::Content).is_ok());
    }
}
