//! Shared machinery: configuration mirror, running the subject, violations,
//! known findings, evidence files, exhaustive parallel runner.

use rayon::prelude::*;
use serde_json::{json, Value};
use std::collections::hash_map::DefaultHasher;
use std::collections::HashSet;
use std::hash::{Hash, Hasher};
use std::panic::{catch_unwind, AssertUnwindSafe};
use std::sync::atomic::{AtomicU64, Ordering};
use std::sync::Mutex;
use std::time::Instant;

use svgdx::TransformConfig;

pub const VERIF_DIR: &str = "/verif";

#[derive(Debug, Clone, Copy, PartialEq, Eq)]
pub enum Tier {
    Quick,
    Thorough,
}

impl Tier {
    pub fn name(self) -> &'static str {
        match self {
            Tier::Quick => "quick",
            Tier::Thorough => "thorough",
        }
    }
    pub fn pick<T>(self, q: T, t: T) -> T {
        match self {
            Tier::Quick => q,
            Tier::Thorough => t,
        }
    }
}

pub fn seed() -> u64 {
    std::env::var("VERIF_SEED")
        .ok()
        .and_then(|s| s.parse().ok())
        .unwrap_or(0)
}

/// Serializable mirror of `TransformConfig`.
#[derive(Debug, Clone, PartialEq)]
pub struct Cfg {
    pub debug: bool,
    pub scale: f32,
    pub border: u16,
    pub add_auto_styles: bool,
    pub background: String,
    pub seed: u64,
    pub loop_limit: u32,
    pub var_limit: u32,
    pub depth_limit: u32,
    pub add_metadata: bool,
    pub font_size: f32,
    pub font_family: String,
    pub theme: String,
    pub use_local_styles: bool,
    pub svg_style: Option<String>,
}

impl Default for Cfg {
    fn default() -> Self {
        let d = TransformConfig::default();
        Cfg {
            debug: d.debug,
            scale: d.scale,
            border: d.border,
            add_auto_styles: d.add_auto_styles,
            background: d.background,
            seed: d.seed,
            loop_limit: d.loop_limit,
            var_limit: d.var_limit,
            depth_limit: d.depth_limit,
            add_metadata: d.add_metadata,
            font_size: d.font_size,
            font_family: d.font_family,
            theme: "default".into(),
            use_local_styles: d.use_local_styles,
            svg_style: d.svg_style,
        }
    }
}

impl Cfg {
    pub fn plain() -> Self {
        // no auto styles: output consists of the transformed elements only
        Cfg {
            add_auto_styles: false,
            ..Default::default()
        }
    }
    pub fn to_tc(&self) -> TransformConfig {
        TransformConfig {
            debug: self.debug,
            scale: self.scale,
            border: self.border,
            add_auto_styles: self.add_auto_styles,
            background: self.background.clone(),
            seed: self.seed,
            loop_limit: self.loop_limit,
            var_limit: self.var_limit,
            depth_limit: self.depth_limit,
            add_metadata: self.add_metadata,
            font_size: self.font_size,
            font_family: self.font_family.clone(),
            theme: self.theme.parse().expect("theme name"),
            use_local_styles: self.use_local_styles,
            svg_style: self.svg_style.clone(),
        }
    }
    pub fn to_json(&self) -> Value {
        json!({
            "debug": self.debug, "scale": self.scale, "border": self.border,
            "add_auto_styles": self.add_auto_styles, "background": self.background,
            "seed": self.seed.to_string(), "loop_limit": self.loop_limit, "var_limit": self.var_limit,
            "depth_limit": self.depth_limit, "add_metadata": self.add_metadata,
            "font_size": self.font_size, "font_family": self.font_family, "theme": self.theme,
            "use_local_styles": self.use_local_styles, "svg_style": self.svg_style,
        })
    }
    pub fn from_json(v: &Value) -> Self {
        let d = Cfg::default();
        let b = |k: &str, dv: bool| v.get(k).and_then(|x| x.as_bool()).unwrap_or(dv);
        let s = |k: &str, dv: &str| {
            v.get(k)
                .and_then(|x| x.as_str())
                .unwrap_or(dv)
                .to_string()
        };
        let u = |k: &str, dv: u64| v.get(k).and_then(|x| x.as_u64()).unwrap_or(dv);
        let f = |k: &str, dv: f32| v.get(k).and_then(|x| x.as_f64()).map(|x| x as f32).unwrap_or(dv);
        Cfg {
            debug: b("debug", d.debug),
            scale: f("scale", d.scale),
            border: u("border", d.border as u64) as u16,
            add_auto_styles: b("add_auto_styles", d.add_auto_styles),
            background: s("background", &d.background),
            seed: v
                .get("seed")
                .and_then(|x| x.as_str())
                .and_then(|x| x.parse().ok())
                .unwrap_or(d.seed),
            loop_limit: u("loop_limit", d.loop_limit as u64) as u32,
            var_limit: u("var_limit", d.var_limit as u64) as u32,
            depth_limit: u("depth_limit", d.depth_limit as u64) as u32,
            add_metadata: b("add_metadata", d.add_metadata),
            font_size: f("font_size", d.font_size),
            font_family: s("font_family", &d.font_family),
            theme: s("theme", &d.theme),
            use_local_styles: b("use_local_styles", d.use_local_styles),
            svg_style: v.get("svg_style").and_then(|x| x.as_str()).map(|x| x.to_string()),
        }
    }
}

/// Result of running the subject once, in-process.
#[derive(Debug, Clone, PartialEq)]
pub enum Outcome {
    Ok(Vec<u8>),
    Err(String),
    Panic(String),
}

impl Outcome {
    pub fn ok_str(&self) -> Option<&str> {
        match self {
            Outcome::Ok(b) => std::str::from_utf8(b).ok(),
            _ => None,
        }
    }
    pub fn is_ok(&self) -> bool {
        matches!(self, Outcome::Ok(_))
    }
    pub fn is_err(&self) -> bool {
        matches!(self, Outcome::Err(_))
    }
    pub fn brief(&self) -> String {
        match self {
            Outcome::Ok(b) => format!("Ok({})", clip(&String::from_utf8_lossy(b), 600)),
            Outcome::Err(e) => format!("Err({})", clip(e, 400)),
            Outcome::Panic(e) => format!("PANIC({})", clip(e, 400)),
        }
    }
}

pub fn clip(s: &str, n: usize) -> String {
    if s.len() <= n {
        s.to_string()
    } else {
        let mut end = n;
        while !s.is_char_boundary(end) {
            end -= 1;
        }
        format!("{}…[{} bytes]", &s[..end], s.len())
    }
}

thread_local! {
    static IN_SUBJECT: std::cell::Cell<bool> = const { std::cell::Cell::new(false) };
}

/// Panics of the subject (caught and turned into outcomes) stay quiet; a panic of the
/// machinery itself is printed, since it is never a verdict.
pub fn install_quiet_panic_hook() {
    std::panic::set_hook(Box::new(|info| {
        if !IN_SUBJECT.with(|f| f.get()) {
            eprintln!("MACHINERY-ERROR: checker panicked: {info}");
        }
    }));
}

fn in_subject<T>(f: impl FnOnce() -> T) -> T {
    IN_SUBJECT.with(|s| s.set(true));
    let r = f();
    IN_SUBJECT.with(|s| s.set(false));
    r
}

fn panic_msg(e: Box<dyn std::any::Any + Send>) -> String {
    if let Some(s) = e.downcast_ref::<&str>() {
        s.to_string()
    } else if let Some(s) = e.downcast_ref::<String>() {
        s.clone()
    } else {
        "panic".into()
    }
}

/// Run `transform_stream` on bytes with a config (the real entry point).
pub fn run_bytes(input: &[u8], cfg: &Cfg) -> Outcome {
    let tc = cfg.to_tc();
    let r = in_subject(|| {
        catch_unwind(AssertUnwindSafe(|| {
            let mut rd = std::io::Cursor::new(input);
            let mut out = Vec::new();
            svgdx::transform_stream(&mut rd, &mut out, &tc).map(|_| out)
        }))
    });
    match r {
        Ok(Ok(b)) => Outcome::Ok(b),
        Ok(Err(e)) => Outcome::Err(e.to_string()),
        Err(p) => Outcome::Panic(panic_msg(p)),
    }
}

/// As `run_bytes`, also reporting how many bytes had reached the writer when an error was returned.
pub fn run_bytes_written(input: &[u8], cfg: &Cfg) -> (Outcome, usize) {
    let tc = cfg.to_tc();
    let mut out = Vec::new();
    let r = in_subject(|| {
        catch_unwind(AssertUnwindSafe(|| {
            let mut rd = std::io::Cursor::new(input);
            svgdx::transform_stream(&mut rd, &mut out, &tc)
        }))
    });
    let n = out.len();
    match r {
        Ok(Ok(())) => (Outcome::Ok(out), n),
        Ok(Err(e)) => (Outcome::Err(e.to_string()), n),
        Err(p) => (Outcome::Panic(panic_msg(p)), n),
    }
}

pub fn run_str(input: &str, cfg: &Cfg) -> Outcome {
    let tc = cfg.to_tc();
    let r = in_subject(|| catch_unwind(AssertUnwindSafe(|| svgdx::transform_str(input, &tc))));
    match r {
        Ok(Ok(b)) => Outcome::Ok(b.into_bytes()),
        Ok(Err(e)) => Outcome::Err(e.to_string()),
        Err(p) => Outcome::Panic(panic_msg(p)),
    }
}

pub fn run_probe(input: &[u8], cfg: &Cfg) -> (Outcome, Option<svgdx::verif::Probe>) {
    let tc = cfg.to_tc();
    let r = in_subject(|| catch_unwind(AssertUnwindSafe(|| svgdx::verif::transform_probe(input, &tc))));
    match r {
        Ok((Ok(b), p)) => (Outcome::Ok(b), Some(p)),
        Ok((Err(e), p)) => (Outcome::Err(e.to_string()), Some(p)),
        Err(p) => (Outcome::Panic(panic_msg(p)), None),
    }
}

pub fn hash64<T: Hash>(t: &T) -> u64 {
    let mut h = DefaultHasher::new();
    t.hash(&mut h);
    h.finish()
}

/// A property violation: everything needed to replay and to match known findings.
#[derive(Debug, Clone)]
pub struct Violation {
    /// which clause of the property's oracle failed
    pub clause: String,
    /// stable identity of the failing case class (used to match known findings)
    pub signature: String,
    /// the replayable case (property-specific JSON)
    pub case: Value,
    /// human-readable observed vs expected
    pub detail: String,
}

#[derive(Debug, Clone)]
pub struct KnownFinding {
    pub property: String,
    pub signature: String,
    pub what: String,
}

/// Parse /verif/KNOWN_FINDINGS.txt. Lines:
///   open: property=<id> sig=<signature> <what fails>
///   fixed: property=<id> <commit> <what failed>          (suppresses nothing)
pub fn load_known(property: &str) -> Vec<KnownFinding> {
    let path = format!("{VERIF_DIR}/KNOWN_FINDINGS.txt");
    let mut v = Vec::new();
    if let Ok(s) = std::fs::read_to_string(path) {
        for line in s.lines() {
            let line = line.trim();
            if let Some(rest) = line.strip_prefix("open:") {
                let mut prop = None;
                let mut sig = None;
                let mut what = Vec::new();
                for tok in rest.split_whitespace() {
                    if let (Some(p), true) = (tok.strip_prefix("property="), prop.is_none()) {
                        prop = Some(p.to_string());
                    } else if let (Some(s), true) = (tok.strip_prefix("sig="), sig.is_none()) {
                        sig = Some(s.to_string());
                    } else {
                        what.push(tok);
                    }
                }
                if let (Some(p), Some(s)) = (prop, sig) {
                    if p == property {
                        v.push(KnownFinding {
                            property: p,
                            signature: s,
                            what: what.join(" "),
                        });
                    }
                }
            }
        }
    }
    v
}

pub struct Report {
    pub property: String,
    pub tier: Tier,
    pub level: &'static str,
    pub start: Instant,
    pub coverage: serde_json::Map<String, Value>,
    pub assumptions: Vec<String>,
    pub violations: Vec<Violation>,
    pub machinery_errors: Vec<String>,
}

impl Report {
    pub fn new(property: &str, tier: Tier, level: &'static str) -> Self {
        Report {
            property: property.to_string(),
            tier,
            level,
            start: Instant::now(),
            coverage: serde_json::Map::new(),
            assumptions: Vec::new(),
            violations: Vec::new(),
            machinery_errors: Vec::new(),
        }
    }
    pub fn set(&mut self, k: &str, v: Value) {
        self.coverage.insert(k.to_string(), v);
    }
    pub fn add(&mut self, k: &str, n: u64) {
        let cur = self.coverage.get(k).and_then(|v| v.as_u64()).unwrap_or(0);
        self.coverage.insert(k.to_string(), json!(cur + n));
    }
    pub fn get(&self, k: &str) -> u64 {
        self.coverage.get(k).and_then(|v| v.as_u64()).unwrap_or(0)
    }
    pub fn sample(&mut self, v: Value) {
        let e = self
            .coverage
            .entry("samples".to_string())
            .or_insert_with(|| json!([]));
        if let Some(a) = e.as_array_mut() {
            if a.len() < 12 {
                a.push(v);
            }
        }
    }
    pub fn assume(&mut self, s: &str) {
        self.assumptions.push(s.to_string());
    }

    /// Write evidence, print VIOLATION / KNOWN-FINDING lines, return exit code.
    pub fn finish(mut self) -> i32 {
        let known = load_known(&self.property);
        let mut new_violations: Vec<&Violation> = Vec::new();
        let mut known_hit: Vec<(String, String, usize)> = Vec::new();
        for v in &self.violations {
            if let Some(k) = known.iter().find(|k| sig_match(&k.signature, &v.signature)) {
                if let Some(e) = known_hit.iter_mut().find(|e| e.0 == k.signature) {
                    e.2 += 1;
                } else {
                    known_hit.push((k.signature.clone(), k.what.clone(), 1));
                }
            } else {
                new_violations.push(v);
            }
        }
        let dir = format!("{VERIF_DIR}/replays/{}", self.property);
        let _ = std::fs::create_dir_all(&dir);
        let mut printed = 0;
        let mut seen_sigs: HashSet<String> = HashSet::new();
        for v in &new_violations {
            // one replay file per distinct signature (first = smallest, spaces are smallest-first)
            if !seen_sigs.insert(v.signature.clone()) || printed >= 25 {
                continue;
            }
            let name = format!("{dir}/{:016x}.json", hash64(&(v.signature.as_str(), v.case.to_string())));
            let body = json!({
                "property": self.property, "clause": v.clause, "signature": v.signature,
                "case": v.case, "detail": v.detail,
            });
            let _ = std::fs::write(&name, serde_json::to_string_pretty(&body).unwrap());
            println!("VIOLATION property={} replay={}", self.property, name);
            println!("  clause: {}\n  signature: {}\n  detail: {}", v.clause, v.signature, clip(&v.detail, 1500));
            printed += 1;
        }
        if !new_violations.is_empty() {
            // overview: violations grouped by the first three signature segments, with one witness each
            let mut groups: Vec<(String, usize, String)> = Vec::new();
            for v in &new_violations {
                let key: String = v.signature.split('/').take(3).collect::<Vec<_>>().join("/");
                if let Some(g) = groups.iter_mut().find(|g| g.0 == key) {
                    g.1 += 1;
                } else {
                    groups.push((key, 1, clip(&v.detail.replace('\n', " | "), 260)));
                }
            }
            println!("violation classes ({}):", groups.len());
            for (k, n, w) in groups.iter().take(80) {
                println!("  {n:>7}  {k}    e.g. {w}");
            }
        }
        for (sig, what, n) in &known_hit {
            println!(
                "KNOWN-FINDING: property={} sig={} {} ({} case(s) this run)",
                self.property, sig, what, n
            );
        }
        for m in &self.machinery_errors {
            println!("MACHINERY-ERROR: {m}");
        }
        let wall = self.start.elapsed().as_secs_f64();
        self.coverage
            .entry("exhaustive".to_string())
            .or_insert(json!(true));
        let n_new = new_violations.len();
        let ev = json!({
            "property_id": self.property,
            "tier": self.tier.name(),
            "seed": seed(),
            "level": self.level,
            "coverage": Value::Object(self.coverage.clone()),
            "assumptions": self.assumptions,
            "wall_s": wall,
            "violations": n_new,
            "known_findings_observed": known_hit.iter().map(|(s, w, n)| json!({"sig": s, "what": w, "cases": n})).collect::<Vec<_>>(),
            "distinct_violation_signatures": seen_sigs.len(),
        });
        let path = format!("{VERIF_DIR}/evidence/{}.json", self.property);
        let _ = std::fs::create_dir_all(format!("{VERIF_DIR}/evidence"));
        std::fs::write(&path, serde_json::to_string_pretty(&ev).unwrap()).expect("write evidence");
        println!(
            "{} {}: evaluations={} distinct_nontrivial={} violations={} known={} wall={:.1}s",
            self.property,
            self.tier.name(),
            self.get("evaluations"),
            self.get("distinct_nontrivial"),
            n_new,
            known_hit.len(),
            wall
        );
        if !self.machinery_errors.is_empty() {
            return 2;
        }
        if n_new > 0 {
            1
        } else {
            0
        }
    }
}

/// Known-finding signatures match exactly, or by prefix when they end in '*'.
pub fn sig_match(pattern: &str, sig: &str) -> bool {
    if let Some(p) = pattern.strip_suffix('*') {
        sig.starts_with(p)
    } else {
        pattern == sig
    }
}

/// Statistics gathered by the parallel runner.
pub struct RunStats {
    pub evaluations: u64,
    pub distinct_inputs: u64,
    pub distinct_nontrivial: u64,
    pub distinct_outputs: u64,
    pub violations: Vec<Violation>,
}

/// What one oracle evaluation reports back.
pub struct CaseResult {
    /// hash identifying the case (input+config) for distinct counting
    pub case_hash: u64,
    /// whether the case reached the mechanism under test
    pub nontrivial: bool,
    /// hash of what was observed (for "distinct outcomes")
    pub outcome_hash: u64,
    /// number of executions of the real transform this case performed
    pub executions: u64,
    pub violation: Option<Violation>,
}

/// Exhaustively evaluate `oracle` on every case index in 0..n on all cores.
/// `oracle(i)` must be deterministic in `i`.
pub fn run_space<F>(n: usize, oracle: F) -> RunStats
where
    F: Fn(usize) -> CaseResult + Sync,
{
    let evals = AtomicU64::new(0);
    const SHARDS: usize = 64;
    let inputs: Vec<Mutex<HashSet<u64>>> = (0..SHARDS).map(|_| Mutex::new(HashSet::new())).collect();
    let nontriv: Vec<Mutex<HashSet<u64>>> = (0..SHARDS).map(|_| Mutex::new(HashSet::new())).collect();
    let outs: Vec<Mutex<HashSet<u64>>> = (0..SHARDS).map(|_| Mutex::new(HashSet::new())).collect();
    let viol: Mutex<Vec<(usize, Violation)>> = Mutex::new(Vec::new());
    (0..n).into_par_iter().with_min_len(16).for_each(|i| {
        let r = oracle(i);
        evals.fetch_add(r.executions, Ordering::Relaxed);
        let sh = (r.case_hash as usize) % SHARDS;
        inputs[sh].lock().unwrap().insert(r.case_hash);
        if r.nontrivial {
            nontriv[sh].lock().unwrap().insert(r.case_hash);
        }
        outs[(r.outcome_hash as usize) % SHARDS]
            .lock()
            .unwrap()
            .insert(r.outcome_hash);
        if let Some(v) = r.violation {
            let mut g = viol.lock().unwrap();
            if g.len() < 100_000 {
                g.push((i, v));
            }
        }
    });
    let mut v = viol.into_inner().unwrap();
    v.sort_by_key(|(i, _)| *i);
    let count = |s: &Vec<Mutex<HashSet<u64>>>| s.iter().map(|m| m.lock().unwrap().len() as u64).sum();
    RunStats {
        evaluations: evals.load(Ordering::Relaxed),
        distinct_inputs: count(&inputs),
        distinct_nontrivial: count(&nontriv),
        distinct_outputs: count(&outs),
        violations: v.into_iter().map(|(_, v)| v).collect(),
    }
}

impl Report {
    /// Fold runner statistics into the evidence counters.
    pub fn absorb(&mut self, leg: &str, st: RunStats) {
        self.add("evaluations", st.evaluations);
        self.add("distinct_nontrivial", st.distinct_nontrivial);
        self.add("distinct_cases", st.distinct_inputs);
        self.add("distinct_outcomes", st.distinct_outputs);
        let legs = self
            .coverage
            .entry("legs".to_string())
            .or_insert_with(|| json!({}));
        legs[leg] = json!({
            "evaluations": st.evaluations, "distinct_cases": st.distinct_inputs,
            "distinct_nontrivial": st.distinct_nontrivial, "distinct_outcomes": st.distinct_outputs,
            "violations": st.violations.len(),
        });
        self.violations.extend(st.violations);
    }
}

/// Mixed-radix decoding of a case index into per-dimension choices.
pub fn decode(mut i: usize, radices: &[usize]) -> Vec<usize> {
    let mut v = Vec::with_capacity(radices.len());
    for &r in radices {
        v.push(i % r);
        i /= r;
    }
    v
}

pub fn product(radices: &[usize]) -> usize {
    radices.iter().product()
}

/// Format a number the way a document author would (shortest form).
pub fn num(x: f64) -> String {
    if x == x.trunc() && x.abs() < 1e9 {
        format!("{}", x as i64)
    } else {
        let s = format!("{x}");
        s
    }
}

/// Numeric closeness for values that passed through svgdx's 3-decimal formatting.
pub fn close(a: f64, b: f64, k: usize) -> bool {
    (a - b).abs() <= 0.00051 * (k as f64 + 1.0) + 1e-9 + 1e-6 * a.abs().max(b.abs())
}

pub fn parse_num(s: &str) -> Option<f64> {
    s.trim().parse::<f64>().ok()
}
