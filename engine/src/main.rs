mod common;
mod exprref;
mod geom;
mod props;
mod xmlref;

use common::Tier;
use std::io::{Read, Write};

fn main() {
    let args: Vec<String> = std::env::args().collect();
    if args.len() < 2 {
        eprintln!("usage: vcheck <ID> <quick|thorough> | vcheck replay <file> | vcheck oneshot");
        std::process::exit(2);
    }
    match args[1].as_str() {
        "oneshot" => {
            // fresh-process leg: read {cfg json}\n<input bytes> from stdin, write outcome to stdout
            let mut buf = Vec::new();
            std::io::stdin().read_to_end(&mut buf).unwrap();
            let nl = buf.iter().position(|b| *b == b'\n').unwrap_or(buf.len());
            let cfg: serde_json::Value = serde_json::from_slice(&buf[..nl]).unwrap_or(serde_json::json!({}));
            let cfg = common::Cfg::from_json(&cfg);
            let input = if nl < buf.len() { &buf[nl + 1..] } else { &[][..] };
            common::install_quiet_panic_hook();
            // like a library caller's thread: 2 MiB of stack
            let input_owned = input.to_vec();
            let out = std::thread::Builder::new()
                .stack_size(2 * 1024 * 1024)
                .spawn(move || common::run_bytes(&input_owned, &cfg))
                .unwrap()
                .join()
                .unwrap_or(common::Outcome::Panic("thread died".into()));
            let mut so = std::io::stdout();
            match out {
                common::Outcome::Ok(b) => {
                    so.write_all(b"OK\n").unwrap();
                    so.write_all(&b).unwrap();
                }
                common::Outcome::Err(e) => {
                    so.write_all(b"ERR\n").unwrap();
                    so.write_all(e.as_bytes()).unwrap();
                }
                common::Outcome::Panic(e) => {
                    so.write_all(b"PANIC\n").unwrap();
                    so.write_all(e.as_bytes()).unwrap();
                }
            }
        }
        "worker-c07" => {
            common::install_quiet_panic_hook();
            let code = props::c07::worker(&args[2..]);
            std::process::exit(code);
        }
        "worker-c01" => {
            let code = props::c01::worker(&args[2..]);
            std::process::exit(code);
        }
        "replay" => {
            let path = args.get(2).expect("replay file");
            let v: serde_json::Value =
                serde_json::from_str(&std::fs::read_to_string(path).expect("read replay")).expect("json");
            let id = v["property"].as_str().expect("property").to_string();
            common::install_quiet_panic_hook();
            let code = props::replay(&id, &v);
            std::process::exit(code);
        }
        id => {
            let tier = match args.get(2).map(|s| s.as_str()).or(std::env::var("VERIF_TIER").ok().as_deref()) {
                Some("thorough") => Tier::Thorough,
                _ => Tier::Quick,
            };
            common::install_quiet_panic_hook();
            let code = props::run(id, tier);
            std::process::exit(code);
        }
    }
}
