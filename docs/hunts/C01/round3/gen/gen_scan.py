import sys
n=int(sys.argv[1]); mode=sys.argv[2]
out=['<svg>']
if mode!='nowait': out.append('<rect xy="#z" wh="1"/>')
filler={'comment':'<!--c-->','title':'<title/>','point':'<point xy="1"/>','nowait':'<!--c-->','defs':'<defs/>'}[mode]
for i in range(n): out.append(filler)
out.append('<rect id="z" wh="1"/>')
out.append('</svg>')
print('\n'.join(out))
