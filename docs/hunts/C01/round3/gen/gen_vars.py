import sys
V=int(sys.argv[1]); n=int(sys.argv[2]); mode=sys.argv[3]
out=['<svg>']
for i in range(V): out.append(f'<var v{i}="1"/>')
if mode=='wait':
    out.append('<rect xy="#z" wh="1"/>')
    for i in range(n): out.append('<rect wh="1"/>')
    out.append('<rect id="z" wh="1"/>')
elif mode=='compound':
    for i in range(n): out.append('<g><rect wh="1"/></g>')
elif mode=='text':
    for i in range(n): out.append('<rect wh="1">t</rect>')
else:
    for i in range(n): out.append('<rect wh="1"/>')
out.append('</svg>')
print('\n'.join(out))
