import sys
kind=sys.argv[1]; d=int(sys.argv[2])
o={'g':'<g>','a':'<a>','if':'<if test="1">','loop':'<loop count="1">','for':'<for var="i" data="1">','rect':'<rect wh="1">','svg':'<svg>','text':'<text>','switch':'<switch>','defs':'<defs>','gt':'<g transform="translate(1)" clip-path="none">','mix':'<g><loop count="1">'}
c={'g':'</g>','a':'</a>','if':'</if>','loop':'</loop>','for':'</for>','rect':'</rect>','svg':'</svg>','text':'</text>','switch':'</switch>','defs':'</defs>','gt':'</g>','mix':'</loop></g>'}
if kind=='reuse':
    print('<svg><g id="a"><rect wh="1"/><reuse href="#a"/></g></svg>')
elif kind=='reuse2':
    print('<svg><specs><g id="a"><rect wh="1"/><reuse href="#a"/></g></specs><reuse href="#a"/></svg>')
elif kind=='reusefwd':
    print('<svg><g id="a"><rect xy="#z" wh="1"/><reuse href="#a"/></g><rect id="z" wh="1"/></svg>')
else:
    print('<svg>'+o[kind]*d+'<rect wh="1"/>'+c[kind]*d+'</svg>')
