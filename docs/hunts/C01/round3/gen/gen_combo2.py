import sys
kind=sys.argv[1]; d=int(sys.argv[2]); p=int(sys.argv[3]); leaf=sys.argv[4]
o={'g':'<g>','a':'<a>','if':'<if test="1">','loop':'<loop count="1">','for':'<for var="i" data="1">','rect':'<rect wh="1">','svg':'<svg>','text':'<text>','switch':'<switch>','defs':'<defs>'}
c={'g':'</g>','a':'</a>','if':'</if>','loop':'</loop>','for':'</for>','rect':'</rect>','svg':'</svg>','text':'</text>','switch':'</switch>','defs':'</defs>'}
if leaf=='paren':
    inner='<rect wh="{{'+'('*p+'1'+')'*p+'}}"/>'
elif leaf=='vars':
    inner=''.join(f'<var v{i}="$v{i-1}"/>' for i in range(p,0,-1))+'<var v0="1"/><rect wh="{{$v%d}}"/>'%p
elif leaf=='fn':
    inner='<rect wh="{{'+'abs('*p+'1'+')'*p+'}}"/>'
elif leaf=='none':
    inner='<rect wh="1"/>'
print('<svg>'+o[kind]*d+inner+c[kind]*d+'</svg>')
