import sys
kind=sys.argv[1]; n=int(sys.argv[2]); m=int(sys.argv[3]) if len(sys.argv)>3 else 0
o=[]
if kind=="varparen":
    # n levels of variables defined in reverse so each holds an unexpanded $ref, each wrapped in m parens
    for i in range(n,0,-1):
        o.append('<var v%d="%s$v%d%s"/>'%(i,"("*m,i-1,")"*m))
    o.append('<var v0="1"/>')
    o.append("<rect wh=\"{{$v%d}}\"/>"%n)
elif kind=="nest":
    tag=sys.argv[4]
    o.append("<svg>"+("<%s>"%tag)*n+'<rect wh="1"/>'+("</%s>"%tag)*n+"</svg>")
elif kind=="paren":
    o.append('<rect wh="{{%s1%s}}"/>'%("("*n,")"*n))
elif kind=="minus":
    o.append('<rect wh="{{%s1}}"/>'%("-"*n))
print("\n".join(o))
if kind=="vardouble":
    o=[]
    for i in range(n,0,-1):
        o.append('<var v%d="$v%d + $v%d"/>'%(i,i-1,i-1))
    o.append('<var v0="1"/>')
    o.append('<rect wh="{{$v%d}}"/>'%n)
    print("\n".join(o))
if kind=="clipchain":
    o=['<svg>','<clipPath id="c0"><rect wh="10"/></clipPath>']
    for i in range(1,n+1):
        o.append('<clipPath id="c%d" clip-path="url(#c%d)"><rect wh="10"/></clipPath>'%(i,i-1))
    o.append('<rect wh="5" clip-path="url(#c%d)"/>'%n)
    o.append('</svg>')
    print("\n".join(o))
if kind=="gdouble":
    print('<svg><g a="xx">'+'<g a="$a$a">'*n+'<rect wh="1"/>'+'</g>'*n+'</g></svg>')
