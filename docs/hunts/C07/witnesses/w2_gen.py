# writes w2.xml: a valid document of exactly 2097153 bytes (2 MiB + 1)
n=2*1024*1024+1
pre='<svg><rect wh="5"/><!--'; post='--></svg>'
open('w2.xml','w').write(pre+'x'*(n-len(pre)-len(post))+post)
