#!/bin/bash
# Finds the nesting depth at which the CLI starts to overflow its stack (build dependent),
# then runs the boundary document 20 times: some runs succeed, some abort.
BIN=${BIN:-/tmp/seed/hunt2_C06/target/debug/svgdx}
gen(){ python3 -c "
n=$1
print('<svg><config depth-limit=\"100000\"/>'+'<g>'*n+'<rect wh=\"5\"/>'+'</g>'*n+'</svg>')" > /tmp/w3_gen.xml; }
lo=100; hi=20000
while [ $((hi-lo)) -gt 1 ]; do mid=$(((lo+hi)/2)); gen $mid
  if $BIN /tmp/w3_gen.xml >/dev/null 2>&1; then lo=$mid; else hi=$mid; fi; done
echo "boundary: ok at $lo, overflow seen at $hi"
for n in $lo $hi $((hi+1)); do gen $n; ok=0
  for i in $(seq 1 20); do $BIN /tmp/w3_gen.xml >/dev/null 2>&1 && ok=$((ok+1)); done
  echo "n=$n: $ok/20 runs succeeded"; done
