#!/usr/bin/env bash
# selftest.sh <seed-id> <property> [tier]
# Apply /verif/seeded/<seed-id>/patch.diff to /repo, run the property's check, undo the patch.
# Prints DETECTED / MISSED. Never leaves /repo modified.
set -u
SID=$1; PID=$2; TIER=${3:-quick}
P=/verif/seeded/$SID/patch.diff
cd /repo || exit 2
if [ -n "$(git status --porcelain -- src Cargo.toml)" ]; then echo "selftest: /repo has uncommitted changes; refusing"; exit 2; fi
if ! git apply --check "$P" 2>/dev/null; then
  if ! patch -p1 --dry-run -s < "$P" >/dev/null 2>&1; then echo "$SID/$PID: PATCH-DOES-NOT-APPLY"; exit 3; fi
  patch -p1 -s < "$P"
else
  git apply "$P"
fi
# the evidence file is rewritten by every run: keep the one from the unchanged tree and put it back afterwards
EV=/verif/evidence/$PID.json; KEEP=/verif/target/selftest_keep_$PID.json
[ -f "$EV" ] && cp "$EV" "$KEEP"
out=$(cd /verif && ./check "$PID" "$TIER" 2>&1); rc=$?
[ -f "$KEEP" ] && mv "$KEEP" "$EV"
git checkout -q -- . ; find src -name '*.orig' -delete 2>/dev/null; find src -name '*.rej' -delete 2>/dev/null
nv=$(printf '%s\n' "$out" | grep -c '^VIOLATION')
first=$(printf '%s\n' "$out" | grep -A2 '^VIOLATION' | head -3 | tr '\n' ' ' | cut -c1-300)
if [ $rc -eq 1 ] && [ "$nv" -gt 0 ]; then echo "$SID/$PID: DETECTED ($nv VIOLATION lines) $first"; exit 0
elif [ $rc -eq 0 ]; then echo "$SID/$PID: MISSED (exit 0)"; exit 1
else echo "$SID/$PID: MACHINERY rc=$rc: $(printf '%s\n' "$out" | tail -3 | tr '\n' ' ')"; exit 2; fi
