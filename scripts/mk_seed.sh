#!/usr/bin/env bash
# mk_seed.sh <seed-id>: scratch worktree /tmp/seed/seed_<id> with a warm target dir, and the prompt in /verif/target/seed_prompts/<id>.txt
# (the prompt holds only the property text and the worktree path - nothing from /verif)
set -eu
ID=$1; PROP=${ID:0:3}
WT=/tmp/seed/seed_$ID
mkdir -p /tmp/seed /verif/target/seed_prompts
git -C /repo worktree add --detach $WT HEAD >/dev/null 2>&1
cp -r /repo/target $WT/target
python3 - "$ID" "$PROP" "$WT" <<'P'
import json,sys
ID,PROP,WT=sys.argv[1:4]
prop=[json.loads(l) for l in open('/verif/properties.jsonl') if json.loads(l)['id']==PROP][0]
t=open('/verif/scripts/seed_prompt.tmpl').read()
open(f'/verif/target/seed_prompts/{ID}.txt','w').write(t.replace('@WT@',WT).replace('@ID@',ID).replace('@PROP@',prop['title']+'\n\n'+prop['statement']).replace('<id>',PROP))
P
echo $WT
