/* I/O fault injector for the C07 "no damage" leg (LD_PRELOAD).
 *
 * Every data-moving call of the svgdx command on a file under $VERIF_FAULT_DIR (and, if
 * VERIF_FAULT_STDIN=1, reads of fd 0) is a numbered fault point, in program order:
 *   open-for-writing, read, write, copy_file_range, sendfile, ftruncate, fchmod, rename, unlink
 * VERIF_FAULT_LOG   file: one line per fault point  "<k> <op> <path> <requested> <result>"
 * VERIF_FAULT_AT    k: the k-th fault point fails with errno VERIF_FAULT_ERRNO (default ENOSPC), all later
 *                   ones behave normally  (0 / unset: nothing fails - the counting run)
 * VERIF_FAULT_MODE  "fail" (default) | "short": the k-th point transfers at most 1 byte (data calls only) and the
 *                   (k+1)-th fails  | "sticky": the k-th and every later point fail
 * The engine enumerates k = 1..N for every mode; the explorer owns no other choice.
 */
#define _GNU_SOURCE
#include <dlfcn.h>
#include <errno.h>
#include <fcntl.h>
#include <stdarg.h>
#include <stdio.h>
#include <stdlib.h>
#include <string.h>
#include <sys/types.h>
#include <unistd.h>

static long counter = 0, fail_at = 0;
static int fail_errno = ENOSPC, mode = 0 /* 0 fail, 1 short, 2 sticky */, inited = 0, track_stdin = 0, log_fd = -1;
static char dir[512];

static void init(void) {
    if (inited) return;
    inited = 1;
    const char *e;
    if ((e = getenv("VERIF_FAULT_AT"))) fail_at = atol(e);
    if ((e = getenv("VERIF_FAULT_ERRNO"))) fail_errno = atoi(e);
    if ((e = getenv("VERIF_FAULT_MODE"))) mode = !strcmp(e, "short") ? 1 : !strcmp(e, "sticky") ? 2 : 0;
    if ((e = getenv("VERIF_FAULT_STDIN"))) track_stdin = atoi(e);
    if ((e = getenv("VERIF_FAULT_DIR"))) strncpy(dir, e, sizeof dir - 1);
    if ((e = getenv("VERIF_FAULT_LOG"))) {
        int (*ropen)(const char *, int, ...) = dlsym(RTLD_NEXT, "open");
        log_fd = ropen(e, O_WRONLY | O_CREAT | O_APPEND, 0644);
    }
}

static int path_tracked(const char *p) {
    if (!dir[0] || !p) return 0;
    if (p[0] == '/') return !strncmp(p, dir, strlen(dir));
    /* relative: judged by the working directory */
    char cwd[512];
    if (!getcwd(cwd, sizeof cwd)) return 0;
    return !strncmp(cwd, dir, strlen(dir));
}

static const char *fd_path(int fd, char *buf, size_t n) {
    char link[64];
    snprintf(link, sizeof link, "/proc/self/fd/%d", fd);
    ssize_t r = readlink(link, buf, n - 1);
    if (r < 0) return NULL;
    buf[r] = 0;
    return buf;
}

static int fd_tracked(int fd, char *buf, size_t n) {
    if (fd == log_fd) return 0;
    if (fd == 0) { snprintf(buf, n, "<stdin>"); return track_stdin; }
    if (fd < 3) return 0;
    const char *p = fd_path(fd, buf, n);
    return path_tracked(p);
}

static void logline(long k, const char *op, const char *path, long req, long res) {
    if (log_fd < 0) return;
    char line[900];
    int n = snprintf(line, sizeof line, "%ld %s %s %ld %ld\n", k, op, path ? path : "?", req, res);
    ssize_t (*rwrite)(int, const void *, size_t) = dlsym(RTLD_NEXT, "write");
    rwrite(log_fd, line, n);
}

/* decide the fate of fault point k: 0 normal, 1 fail, 2 short */
static int fate(long k) {
    if (fail_at <= 0) return 0;
    if (mode == 0) return k == fail_at;
    if (mode == 2) return k >= fail_at;
    if (k == fail_at) return 2;
    return k == fail_at + 1;
}

#define POINT(op, path, req)                                    \
    long k_ = ++counter;                                        \
    int fate_ = fate(k_);                                       \
    if (fate_ == 1) {                                           \
        logline(k_, op, path, (long)(req), -fail_errno);        \
        errno = fail_errno;                                     \
        return -1;                                              \
    }

ssize_t write(int fd, const void *b, size_t n) {
    init();
    ssize_t (*real)(int, const void *, size_t) = dlsym(RTLD_NEXT, "write");
    char p[512];
    if (!fd_tracked(fd, p, sizeof p)) return real(fd, b, n);
    POINT("write", p, n);
    ssize_t r = real(fd, b, (fate_ == 2 && n > 1) ? 1 : n);
    logline(k_, "write", p, n, r);
    return r;
}

ssize_t read(int fd, void *b, size_t n) {
    init();
    ssize_t (*real)(int, void *, size_t) = dlsym(RTLD_NEXT, "read");
    char p[512];
    if (!fd_tracked(fd, p, sizeof p)) return real(fd, b, n);
    POINT("read", p, n);
    ssize_t r = real(fd, b, (fate_ == 2 && n > 1) ? 1 : n);
    logline(k_, "read", p, n, r);
    return r;
}

ssize_t copy_file_range(int in, off64_t *oi, int out, off64_t *oo, size_t n, unsigned f) {
    init();
    ssize_t (*real)(int, off64_t *, int, off64_t *, size_t, unsigned) = dlsym(RTLD_NEXT, "copy_file_range");
    char p[512];
    if (!fd_tracked(out, p, sizeof p)) return real(in, oi, out, oo, n, f);
    POINT("copy_file_range", p, n);
    ssize_t r = real(in, oi, out, oo, (fate_ == 2 && n > 1) ? 1 : n, f);
    logline(k_, "copy_file_range", p, n, r);
    return r;
}

ssize_t sendfile(int out, int in, off_t *o, size_t n) {
    init();
    ssize_t (*real)(int, int, off_t *, size_t) = dlsym(RTLD_NEXT, "sendfile");
    char p[512];
    if (!fd_tracked(out, p, sizeof p)) return real(out, in, o, n);
    POINT("sendfile", p, n);
    ssize_t r = real(out, in, o, (fate_ == 2 && n > 1) ? 1 : n);
    logline(k_, "sendfile", p, n, r);
    return r;
}
ssize_t sendfile64(int out, int in, off64_t *o, size_t n) {
    init();
    ssize_t (*real)(int, int, off64_t *, size_t) = dlsym(RTLD_NEXT, "sendfile64");
    char p[512];
    if (!fd_tracked(out, p, sizeof p)) return real(out, in, o, n);
    POINT("sendfile", p, n);
    ssize_t r = real(out, in, o, (fate_ == 2 && n > 1) ? 1 : n);
    logline(k_, "sendfile", p, n, r);
    return r;
}

static int open_common(const char *name, int (*real)(const char *, int, ...), const char *path, int flags, mode_t m) {
    int acc = flags & O_ACCMODE;
    if ((acc == O_WRONLY || acc == O_RDWR || (flags & (O_CREAT | O_TRUNC))) && path_tracked(path)) {
        long k_ = ++counter;
        if (fate(k_) == 1) {
            logline(k_, name, path, flags, -fail_errno);
            errno = fail_errno;
            return -1;
        }
        int r = real(path, flags, m);
        logline(k_, name, path, flags, r);
        return r;
    }
    return real(path, flags, m);
}

int open(const char *path, int flags, ...) {
    init();
    mode_t m = 0;
    if (flags & (O_CREAT | O_TMPFILE)) { va_list a; va_start(a, flags); m = va_arg(a, mode_t); va_end(a); }
    return open_common("open-for-writing", dlsym(RTLD_NEXT, "open"), path, flags, m);
}
int open64(const char *path, int flags, ...) {
    init();
    mode_t m = 0;
    if (flags & (O_CREAT | O_TMPFILE)) { va_list a; va_start(a, flags); m = va_arg(a, mode_t); va_end(a); }
    return open_common("open-for-writing", dlsym(RTLD_NEXT, "open64"), path, flags, m);
}
int openat(int dfd, const char *path, int flags, ...) {
    init();
    mode_t m = 0;
    if (flags & (O_CREAT | O_TMPFILE)) { va_list a; va_start(a, flags); m = va_arg(a, mode_t); va_end(a); }
    int (*real)(int, const char *, int, ...) = dlsym(RTLD_NEXT, "openat");
    int acc = flags & O_ACCMODE;
    if (dfd == AT_FDCWD && (acc == O_WRONLY || acc == O_RDWR || (flags & (O_CREAT | O_TRUNC))) && path_tracked(path)) {
        long k_ = ++counter;
        if (fate(k_) == 1) { logline(k_, "open-for-writing", path, flags, -fail_errno); errno = fail_errno; return -1; }
        int r = real(dfd, path, flags, m);
        logline(k_, "open-for-writing", path, flags, r);
        return r;
    }
    return real(dfd, path, flags, m);
}

int ftruncate(int fd, off_t len) {
    init();
    int (*real)(int, off_t) = dlsym(RTLD_NEXT, "ftruncate");
    char p[512];
    if (!fd_tracked(fd, p, sizeof p)) return real(fd, len);
    POINT("ftruncate", p, len);
    (void)fate_;
    int r = real(fd, len);
    logline(k_, "ftruncate", p, len, r);
    return r;
}
int ftruncate64(int fd, off64_t len) {
    init();
    int (*real)(int, off64_t) = dlsym(RTLD_NEXT, "ftruncate64");
    char p[512];
    if (!fd_tracked(fd, p, sizeof p)) return real(fd, len);
    POINT("ftruncate", p, len);
    (void)fate_;
    int r = real(fd, len);
    logline(k_, "ftruncate", p, len, r);
    return r;
}

int fchmod(int fd, mode_t m) {
    init();
    int (*real)(int, mode_t) = dlsym(RTLD_NEXT, "fchmod");
    char p[512];
    if (!fd_tracked(fd, p, sizeof p)) return real(fd, m);
    POINT("fchmod", p, m);
    (void)fate_;
    int r = real(fd, m);
    logline(k_, "fchmod", p, m, r);
    return r;
}

int rename(const char *a, const char *b) {
    init();
    int (*real)(const char *, const char *) = dlsym(RTLD_NEXT, "rename");
    if (!path_tracked(b)) return real(a, b);
    POINT("rename", b, 0);
    (void)fate_;
    int r = real(a, b);
    logline(k_, "rename", b, 0, r);
    return r;
}
