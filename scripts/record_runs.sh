#!/usr/bin/env bash
# record_runs.sh <quick|thorough> [ID...]: run the registered command of every check at one tier on the
# unchanged tree and keep a copy of each evidence file under docs/runs/<tier>/ (input of asbuilt.py).
set -u
cd /verif
tier=$1; shift
ids=${*:-C01 C02 C03 C04 C05 C06 C07 C08 C09 C10 C11 C12 C13 C14 C15 C16 C17 C18 C19 C20}
if [ -n "$(git -C /repo status --porcelain)" ]; then echo "refusing: /repo has uncommitted changes"; exit 2; fi
for id in $ids; do
  start=$(date +%s)
  ./check $id $tier > target/run_${id}_${tier}.log 2>&1; rc=$?
  end=$(date +%s)
  echo "$id $tier exit=$rc total=$((end-start))s $(tail -1 target/run_${id}_${tier}.log | cut -c1-160)"
  if [ $rc = 0 ]; then cp evidence/$id.json docs/runs/$tier/$id.json; fi
done
