#!/usr/bin/env bash
# matrix_add.sh <seed-id> [property] [tier]: run one confirmed seed against its property's check and append the
# row to seeded/MATRIX.md (same row format as selftest_all.sh, which regenerates the whole table).
set -u
cd /verif
id=$1
prop=${2:-$(python3 -c "import json;print(json.load(open('seeded/$id/meta.json'))['property'])")}
tier=${3:-quick}
summary=$(python3 -c "import json;s=json.load(open('seeded/$id/meta.json')).get('summary','');print(s.replace('|','/').replace('\n',' ')[:260])")
res=$(scripts/selftest.sh $id $prop $tier 2>&1 | tail -1 | cut -c1-60 | sed 's/ VIOLATION.*//')
echo "$id -> $prop: $res"
own=$(python3 -c "import json;print(json.load(open('seeded/$id/meta.json'))['property'])")
grep -v "^| $id | $own | .* | $prop $tier |" seeded/MATRIX.md > seeded/MATRIX.md.tmp
echo "| $id | $own | $summary | $prop $tier | $(echo $res | sed "s/^$id\/$prop: //") |" >> seeded/MATRIX.md.tmp
{ head -2 seeded/MATRIX.md.tmp; tail -n +3 seeded/MATRIX.md.tmp | sort -s -t'|' -k2,2; } > seeded/MATRIX.md
rm seeded/MATRIX.md.tmp
