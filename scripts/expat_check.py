#!/usr/bin/env python3
"""Second opinion for the harness's own XML reader (xmlref): reads hex-encoded documents, one per
line, on stdin; answers one line per document: '0' (not well-formed) or '1\t<json events>' with the
event stream reduced to the infoset both readers define (names, sorted attributes, coalesced
character data incl. CDATA, comments, PIs). Uses only the python3 standard library (expat)."""
import sys, json, binascii
import xml.parsers.expat as expat

def run(data):
    ev = []
    p = expat.ParserCreate()          # no namespace processing: names stay as written
    p.buffer_text = False
    def text(s):
        if ev and ev[-1][0] == 'T': ev[-1][1] += s
        else: ev.append(['T', s])
    p.StartElementHandler = lambda n, a: ev.append(['S', n, sorted(a.items())])
    p.EndElementHandler = lambda n: ev.append(['E', n])
    p.CharacterDataHandler = text
    p.CommentHandler = lambda s: ev.append(['C', s])
    p.ProcessingInstructionHandler = lambda t, d: ev.append(['P', t, d])
    try:
        p.Parse(data, True)
    except expat.ExpatError:
        return None
    return ev

out = sys.stdout
for line in sys.stdin:
    line = line.strip()
    if not line:
        out.write('0\n'); continue
    r = run(binascii.unhexlify(line))
    if r is None: out.write('0\n')
    else: out.write('1\t' + json.dumps(r, ensure_ascii=True, separators=(',', ':')) + '\n')
out.flush()
