#!/usr/bin/env python3
"""Fill DESIGN.md §9 (between ASBUILT markers) from docs/runs/<tier>/<ID>.json and §12 (MATRIX markers)
from seeded/MATRIX.md."""
import json, os, re
V='/verif'
def load(t,i):
    p=f'{V}/docs/runs/{t}/{i}.json'
    return json.load(open(p)) if os.path.exists(p) else None
def n(x):
    if x is None: return '–'
    if isinstance(x,(int,float)):
        if x>=1e6: return f'{x/1e6:.2f}M'
        if x>=1e4: return f'{x/1e3:.0f}k'
        return str(int(x))
    return str(x)
man=json.load(open(f'{V}/MANIFEST.json'))
rows=['| property | level | quick: executions / non-trivial / wall | thorough: executions / non-trivial / wall | states / transitions (thorough) | capped? | known findings seen |','|---|---|---|---|---|---|---|']
details=[]
for c in man['checks']:
    i=c['property_id']; q=load('quick',i); t=load('thorough',i)
    def cell(e):
        if not e: return 'not recorded'
        cv=e['coverage']; return f"{n(cv.get('evaluations'))} / {n(cv.get('distinct_nontrivial'))} / {e.get('wall_s',0):.0f} s"
    tc=(t or q or {}).get('coverage',{})
    st=f"{n(tc.get('states'))} / {n(tc.get('transitions'))}" if tc.get('states') is not None else '–'
    cap='no' if tc.get('exhaustive',True) not in (False,) else 'yes: '+str(tc.get('cap_note',''))[:80]
    kf=(t or q or {}).get('known_findings_observed',[])
    rows.append(f"| {i} | {c['level_claimed']} | {cell(q)} | {cell(t)} | {st} | {cap} | {len(kf)} |")
    cvv=(t or q or {}).get('coverage',{}); rule=cvv.get('rule','')+''.join(' '+str(cvv[k]) for k in ('also','also_round2','also_later') if cvv.get(k))
    details.append(f"**{i}** ({c['level_claimed']}; {c['technique']}). {rule}\n")
block='\n'.join(rows)+'\n\nWhat each check enumerates and asserts, as written by the check itself into its evidence file:\n\n'+'\n'.join(details)
s=open(f'{V}/DESIGN.md').read()
s=re.sub(r'<!-- ASBUILT:BEGIN -->.*?<!-- ASBUILT:END -->', lambda m:'<!-- ASBUILT:BEGIN -->\n'+block+'\n<!-- ASBUILT:END -->', s, flags=re.S)
mp=f'{V}/seeded/MATRIX.md'
if os.path.exists(mp):
    s=re.sub(r'<!-- MATRIX:BEGIN -->.*?<!-- MATRIX:END -->', lambda m:'<!-- MATRIX:BEGIN -->\n'+open(mp).read()+'<!-- MATRIX:END -->', s, flags=re.S)
fixed=['| property | commit | what failed |','|---|---|---|']; opn=['| property | signature | what fails, and why it is not repaired here |','|---|---|---|']
for l in open(f'{V}/KNOWN_FINDINGS.txt'):
    l=l.rstrip('\n')
    m=re.match(r'fixed: property=(C\d\d) (\S+) (.*)',l)
    if m: fixed.append('| %s | %s | %s |'%(m.group(1),m.group(2),m.group(3).replace('|','\\|')))
    m=re.match(r'open: property=(C\d\d) sig=(\S+) (.*)',l)
    if m: opn.append('| %s | `%s` | %s |'%(m.group(1),m.group(2).replace('C%s/'%m.group(1)[1:], ''),m.group(3).replace('|','\\|')))
fixed[2:]=sorted(fixed[2:]); opn[2:]=sorted(opn[2:])
s=re.sub(r'<!-- FIXED:BEGIN -->.*?<!-- FIXED:END -->', lambda m:'<!-- FIXED:BEGIN -->\n'+'\n'.join(fixed)+'\n<!-- FIXED:END -->', s, flags=re.S)
s=re.sub(r'<!-- OPEN:BEGIN -->.*?<!-- OPEN:END -->', lambda m:'<!-- OPEN:BEGIN -->\n'+'\n'.join(opn)+'\n<!-- OPEN:END -->', s, flags=re.S)
print('fixed:',len(fixed)-2,'open:',len(opn)-2)
open(f'{V}/DESIGN.md','w').write(s)
print('DESIGN.md updated')
