#!/usr/bin/env bash
# mk_hunt.sh <ID> <suffix>: scratch worktree /tmp/seed/hunt<suffix>_<ID> with a warm target dir, and the prompt on stdout
set -eu
ID=$1; SFX=${2:-2}
WT=/tmp/seed/hunt${SFX}_$ID
mkdir -p /tmp/seed
git -C /repo worktree add --detach $WT HEAD >/dev/null 2>&1
cp -r /repo/target $WT/target
python3 - "$ID" "$WT" <<'P'
import json,sys,re
ID,WT=sys.argv[1],sys.argv[2]
prop=[json.loads(l) for l in open('/verif/properties.jsonl') if json.loads(l)['id']==ID][0]
known=[]
for l in open('/verif/KNOWN_FINDINGS.txt'):
    if f'property={ID} ' in l:
        kind=l.split(':',1)[0]
        body=l.split(f'property={ID} ',1)[1].strip()
        body=re.sub(r'^sig=\S+ ','',body)
        body=re.sub(r'^[0-9a-f]{7} ','',body)
        known.append(f" - ({'still open' if kind=='open' else 'found earlier and since repaired'}) {body[:400]}")
t=open('/verif/scripts/hunt_prompt.tmpl').read()
print(t.replace('@WT@',WT).replace('@PROP@',prop['title']+'\n\n'+prop['statement']).replace('@KNOWN@','\n'.join(known) or ' (none)'))
P
