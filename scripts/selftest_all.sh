#!/usr/bin/env bash
# selftest_all.sh [tier]: every confirmed, non-obsolete seed against the check of its own property
# (and the extra pairs listed in seeded/EXTRA_PAIRS); writes seeded/MATRIX.md.
set -u
cd /verif
tier=${1:-quick}
out=seeded/MATRIX.md
echo "| seed | property | what the change does | check run | result |" > $out.tmp
echo "|---|---|---|---|---|" >> $out.tmp
for d in seeded/C*/; do
  id=$(basename $d)
  [ -f $d/meta.json ] || continue
  if grep -q '"obsolete"' $d/meta.json || grep -qi 'OBSOLETE' $d/meta.json; then
    echo "| $id | $(python3 -c "import json;print(json.load(open('$d/meta.json')).get('property','?'))") | (obsolete: the code it changed was replaced by a fix: commit) | - | n/a |" >> $out.tmp; continue
  fi
  prop=$(python3 -c "import json;print(json.load(open('$d/meta.json'))['property'])")
  summary=$(python3 -c "import json;s=json.load(open('$d/meta.json')).get('summary','');print(s.replace('|','/').replace('\n',' ')[:260])")
  pairs="$prop"
  [ -f seeded/EXTRA_PAIRS ] && pairs="$pairs $(grep "^$id " seeded/EXTRA_PAIRS | cut -d' ' -f2-)"
  for p in $pairs; do
    res=$(scripts/selftest.sh $id $p $tier 2>&1 | tail -1 | cut -c1-60 | sed 's/ VIOLATION.*//')
    echo "$id -> $p: $res"
    echo "| $id | $prop | $summary | $p $tier | $(echo $res | sed "s/^$id\/$p: //") |" >> $out.tmp
  done
done
mv $out.tmp $out
git -C /repo status --porcelain | grep -q . && { echo "WARNING: /repo not clean after selftests"; git -C /repo checkout -- .; }
