#!/usr/bin/env python3
import sys
pid=sys.argv[1]; m=pid.lower()
p='/verif/engine/src/props/mod.rs'
s=open(p).read()
if f'pub mod {m};' in s: sys.exit(0)
s=s.replace('pub mod c06;\n',f'pub mod c06;\npub mod {m};\n')
s=s.replace('        "C06" => c06::run(tier),\n',f'        "C06" => c06::run(tier),\n        "{pid}" => {m}::run(tier),\n')
s=s.replace('        "C06" => c06::replay_case,\n',f'        "C06" => c06::replay_case,\n        "{pid}" => {m}::replay_case,\n')
open(p,'w').write(s)
