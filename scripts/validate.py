#!/opt/veriftools/pyvenv/bin/python
import json,jsonschema,glob,sys
jsonschema.validate(json.load(open('/verif/MANIFEST.json')), json.load(open('/root/.vp/MANIFEST.schema.json')))
es=json.load(open('/root/.vp/EVIDENCE.schema.json'))
bad=0
for f in sorted(glob.glob('/verif/evidence/*.json')):
    try: jsonschema.validate(json.load(open(f)), es)
    except Exception as e: print('INVALID',f,str(e)[:300]); bad=1
print('manifest valid;', 'evidence ok' if not bad else 'evidence problems')
sys.exit(bad)
