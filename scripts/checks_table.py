HOOK_COMMITS = ["117d834"]
NOT_APPLICABLE = {}
CHECKS = {
 "C06": ("model_checking",
  "explicit enumeration of every hash-iteration order through a seam (all permutations) + repetition in fresh processes",
  "Every source of hidden nondeterminism is owned by the explorer: the one place where hash-set iteration order can reach the output is routed through the iteration_order seam, and for every document over the bounded class vocabulary ALL permutations of every hooked list are executed on the real transform and must give byte-identical output; PRNG/seed and error-text determinism and any unhooked hash iteration are checked by in-process and fresh-process repetition of the same documents.",
  "Trusted: the seam is the only hash iteration that reaches output (other sites are only sampled by the repetition legs); vocabulary bound (20 classes, subsets <= 4); use_local_styles=false.",
  "DESIGN.md §4 C06"),
}
