HOOK_COMMITS = ["117d834"]
NOT_APPLICABLE = {}
CHECKS = {
 "C06": ("model_checking",
  "explicit enumeration of every hash-iteration order through a seam (all permutations) + repetition in fresh processes",
  "Every source of hidden nondeterminism is owned by the explorer: the one place where hash-set iteration order can reach the output is routed through the iteration_order seam, and for every document over the bounded class vocabulary ALL permutations of every hooked list are executed on the real transform and must give byte-identical output; PRNG/seed and error-text determinism and any unhooked hash iteration are checked by in-process and fresh-process repetition of the same documents.",
  "Trusted: the seam is the only hash iteration that reaches output (other sites are only sampled by the repetition legs); vocabulary bound (20 classes, subsets <= 4); use_local_styles=false.",
  "DESIGN.md §4 C06"),
 "C17": ("model_checking",
  "parametric boundary exploration: every limit value x every limit-consuming construct at L-1, L, L+1, 2L, with a two-sided verdict and the depth-counter probe",
  "For every limit kind (depth, loop, var), every L in a small set (and the defaults in the thorough tier), set through the API and through <config>, every construct that consumes the limit is generated at L-1, L, L+1, 2L and executed on the real transform: Err iff the parameter exceeds L, and on Ok the exact number of rendered marker elements (no truncation); orthogonally m siblings (up to 20L / 250 at the default limit) of 20 element kinds must never be rejected; the probe asserts the depth counter returns to 0.",
  "Trusted: generator arithmetic for the expected parameter; the verdict exactly at the boundary is not asserted for text-content leaves (element dispatched twice) and reuse chains through <specs>; error wording unmatched.",
  "DESIGN.md §4 C17"),
 "C15": ("model_checking",
  "explicit-state exploration of all scope programs up to a node bound on the real transform, compared with a reference interpreter for lexical scoping; forward references as grammar items enumerate every retry placement",
  "Every forest of scope-relevant items (probes, four kinds of <var> assignment, <g>/<reuse> attribute scopes, loop, if, forward references, forward templates) with at most 4 (thorough: 5) nodes is rendered, executed and every probe value compared with a 60-line reference interpreter of the stated scoping rules; since forward references are items, every placement of a re-evaluation relative to scopes/assignments/probes within the bound is explored, and the scope/element/depth stacks are probed after every successful transform.",
  "Trusted: the reference interpreter; loop/if modelled as transparent; programs that store an unresolved $reference into a variable are executed but not compared (their value depends on evaluation count, C14); violations inside the structurally defined deferred-side-effect class are attributed to the open finding.",
  "DESIGN.md §4 C15"),
 "C03": ("exploration",
  "bounded-exhaustive XML generation (elements x attribute atoms x content sequences x prolog forms x 16 configurations) with an independent strict XML reader as infoset oracle",
  "All documents of a small XML grammar rooted at a namespaced <svg> (svgdx-looking and hostile attributes, entity/character references, unicode, comments, CDATA, PIs, doctype, declaration) and all such subtrees embedded at 5 positions of svgdx documents are run through the real transform under every configuration that could leak; an independent strict XML reader must yield the same canonical event stream for input and output.",
  "Trusted: the strict reader (xmlref; unit-tested, no code shared with quick-xml); no DTD processing; literal white space in attribute values normalised on both sides.",
  "DESIGN.md §4 C03"),
}
