#!/usr/bin/env python3
"""Regenerate /verif/MANIFEST.json from the table below (single source of truth for the interface)."""
import json, subprocess
CHECKS = {
 # id: (level, technique, text, note, design_ref)
}
import importlib.util, os, sys
spec = importlib.util.spec_from_file_location("checks_table", os.path.join(os.path.dirname(__file__), "checks_table.py"))
m = importlib.util.module_from_spec(spec); spec.loader.exec_module(m)
CHECKS = m.CHECKS; NOT_APPLICABLE = m.NOT_APPLICABLE
props = [json.loads(l)["id"] for l in open("/verif/properties.jsonl")]
hook_commits = m.HOOK_COMMITS
man = {
 "version": 1,
 "setup_cmd": "./check --setup",
 "hooks": {
  "guard": "cargo feature verif-hooks",
  "enable": "engine depends on svgdx with features=[\"verif-hooks\"] (path dependency on /repo, default-features off); repo binaries built with `cargo build --features verif-hooks --bins --target-dir /verif/target/repo`",
  "baseline_off_cmd": "cd /repo && cargo test --workspace --no-fail-fast --offline",
  "source_commits": hook_commits,
  "add_only": True,
 },
 "engines": [{"name": "vcheck", "path": "/verif/engine", "serves_properties": sorted(CHECKS.keys()),
   "kind_free_text": "Rust crate linked against the real svgdx library (hooks on): bounded-exhaustive / explicit-state exploration of the implementation with reference models, twin documents, controlled schedules and fault enumeration"}],
 "checks": [],
 "not_applicable": [],
 "notes": "All checks: `./check <ID> <tier>`; exit 0 held (KNOWN-FINDING lines allowed), 1 + VIOLATION line, 2 machinery failure. Known findings: /verif/KNOWN_FINDINGS.txt. Seeded changes used to validate detection: /verif/seeded/.",
}
for pid in props:
    if pid in CHECKS:
        level, technique, text, note, ref = CHECKS[pid]
        man["checks"].append({
          "property_id": pid,
          "quick_cmd": f"./check {pid} quick",
          "thorough_cmd": f"./check {pid} thorough",
          "evidence_file": f"/verif/evidence/{pid}.json",
          "replay_cmd_template": f"./check {pid} --replay {{path}}",
          "engine": "vcheck",
          "level_claimed": {"category": level, "text": text, "design_ref": ref},
          "level_note": note,
          "technique": technique,
        })
    else:
        man["not_applicable"].append({"property_id": pid, "reason": NOT_APPLICABLE.get(pid, "no check registered yet: the model-checking harness for this property has not been built in this round (it is applicable; see DESIGN.md)")})
json.dump(man, open("/verif/MANIFEST.json", "w"), indent=1)
print("checks:", [c["property_id"] for c in man["checks"]], "not_applicable:", len(man["not_applicable"]))
