#!/usr/bin/env bash
# verify_seed.sh <worktree> <seed-id>: confirm a seeded change independently, then keep it under /verif/seeded/<id>.
# (1) full suite passes with the change, (2) demo fails with the change, (3) demo passes without it.
set -u
WT=$1; ID=$2
OUT=/verif/seeded/$ID
cd "$WT" || exit 2
[ -f seed_out/patch.diff ] || { echo "$ID: no patch.diff"; exit 2; }
git diff -- src > /tmp/seed/$ID.current.diff
if ! diff -q <(git diff -- src) seed_out/patch.diff >/dev/null; then echo "$ID: NOTE patch.diff differs from working tree diff; using working tree diff"; fi
suite=$(cargo test --workspace --no-fail-fast --offline 2>&1 | grep -E "^test result" | awk '{p+=$4; f+=$6} END {print p" passed "f" failed"}')
echo "$ID: suite with change: $suite"
demo_with="n/a"; demo_without="n/a"
if [ -f seed_out/demo.rs ]; then
  cp seed_out/demo.rs tests/seed_demo.rs
  cargo test --offline --test seed_demo >/tmp/seed/$ID.demo_with.log 2>&1; rc1=$?
  git apply -R /tmp/seed/$ID.current.diff
  cargo test --offline --test seed_demo >/tmp/seed/$ID.demo_without.log 2>&1; rc2=$?
  git apply /tmp/seed/$ID.current.diff
  rm -f tests/seed_demo.rs
  demo_with="exit $rc1: $(grep -E '^test result' /tmp/seed/$ID.demo_with.log | head -1)"
  demo_without="exit $rc2: $(grep -E '^test result' /tmp/seed/$ID.demo_without.log | head -1)"
elif [ -f seed_out/demo.sh ]; then
  bash seed_out/demo.sh >/tmp/seed/$ID.demo_with.log 2>&1; rc1=$?
  git apply -R /tmp/seed/$ID.current.diff
  bash seed_out/demo.sh >/tmp/seed/$ID.demo_without.log 2>&1; rc2=$?
  git apply /tmp/seed/$ID.current.diff
  demo_with="exit $rc1"; demo_without="exit $rc2"
fi
echo "$ID: demo with change: $demo_with"
echo "$ID: demo without change: $demo_without"
case "$suite" in *" 0 failed") ok1=1;; *) ok1=0;; esac
if [ "$ok1" = 1 ] && [ "${rc1:-0}" != 0 ] && [ "${rc2:-1}" = 0 ]; then
  mkdir -p $OUT
  git diff -- src > $OUT/patch.diff
  cp seed_out/demo.* $OUT/ 2>/dev/null
  python3 - "$OUT" "$ID" "$suite" "$demo_with" "$demo_without" <<'PY'
import json,sys,os
out,sid,suite,dw,dwo=sys.argv[1:6]
meta={}
try: meta=json.load(open(os.path.join(os.getcwd(),'seed_out/meta.json')))
except Exception as e: meta={'note':'agent meta.json unreadable: %s'%e}
meta['seed_id']=sid
meta['confirmed_by_verify_seed']={'suite_with_change':suite,'demo_with_change':dw,'demo_without_change':dwo,
  'commands':['cargo test --workspace --no-fail-fast --offline','cargo test --offline --test seed_demo (demo.rs copied to tests/seed_demo.rs), with and without the src change (git apply -R of the patch; never git stash, which is shared between worktrees)']}
json.dump(meta,open(os.path.join(out,'meta.json'),'w'),indent=1)
PY
  echo "$ID: CONFIRMED -> $OUT"
else
  echo "$ID: NOT CONFIRMED"
fi
